"""C11 (AST reproduces the source exactly) and C23 (source code info is well formed in every mode).

C11  direction A.  spec/Layout.tla: a source file is a sequence of ITEMS -- the tokens of a skeleton
     (spec/LayoutSkel.tla: an extras file plus featgen files covering every element kind) and, in
     every gap, trivia over {SP TAB LF CRLF CR FF VT, blank line, line comment (+LF / +CRLF / ended by
     EOF), block comment, multi-byte block comment, empty block comment, doc comment, BOM}.  By
     construction source = Concat(items).  spec/MCLayout.tla enumerates layouts (TLC BFS: every
     choice in every gap; same-gap pairs / triples and two-gap pairs on the representatives of every
     gap class; tlc -simulate: many gaps at once) and exports the item sequence with the sizes and --
     in the Full configurations -- the expected concatenation.  harness/srcinfo c11 renders, parses
     with the stable parser and compares (1) the text printed from the AST (terminals in Walk order:
     leading comments + white space + raw text + trailing comments, EOF trivia last) with the
     concatenation minus BOM, (2) FileInfo.Items() / Tokens() / Walk order with the token and comment
     items of the specification.

C23  direction A + B.  Cases: spec/MCSrcInfo.tla (FileFeatures workspaces incl. comments / weird_layout,
     with the expected descriptor SHAPE from spec/SrcInfoShape.tla) and MCLayout layouts of the featgen
     skeletons; every case is compiled in the four SourceInfoMode combinations.  harness/srcinfo c23
     records one trace per case (one event per SourceCodeInfo.Location); TLC validates the traces
     against spec/SrcInfoTrace.tla: path grammar over descriptor.proto's schema and the case's shape
     (spec/SrcInfoPaths.tla), spans inside the line table, comments = runs of consecutive generator
     comment items, mode relations.  The schema table is cross-checked against descriptorpb, the Go
     line table against SrcLines (spec/MCSrcInfoLines.tla), in every run.
"""
import collections, json, os, random, threading, time
import vf

ALL_CHOICES = ["SP", "TAB", "LF", "CRLF", "CR", "FF", "VT", "BLANK", "LC", "LCR", "LCE", "BC", "BCM", "BCE", "DOC", "BOM"]
CORE_CHOICES = ["SP", "LF", "CRLF", "FF", "BLANK", "LC", "BC", "DOC"]
LINKABLE = ["p2", "p3", "ed", "s2", "s3", "t1"]    # featgen skeletons + the hand-written t1 (x, e24 are parse-only)

LAYOUT_CFG = """SPECIFICATION Spec
CONSTANTS
  SkelIds = {%(skels)s}
  Mode = "%(mode)s"
  MaxGaps = %(maxgaps)d
  MaxPerGap = %(maxper)d
  AllowedMode = "%(allowed)s"
  Choices = {%(choices)s}
  Density = %(density)d
  Full = %(full)s
INVARIANTS Export
VIEW View
CHECK_DEADLOCK FALSE
"""

SRCINFO_CFG = """SPECIFICATION Spec
CONSTANTS
  MaxFeatures = %d
  ExportMin = %d
INVARIANTS Export GrammarSane
CHECK_DEADLOCK FALSE
"""

LINES_CFG = """SPECIFICATION Spec
CONSTANTS
  MaxLen = %d
  Alphabet = {"a", "T", "N", "R", "2", "3", "4"}
INVARIANTS Export
CHECK_DEADLOCK FALSE
"""

TRACE_CFG = """SPECIFICATION TSpec
POSTCONDITION Consumed
CHECK_DEADLOCK FALSE
"""

TRACE_FILE = "srcinfo_trace.ndjson"


def _q(xs):
    return ", ".join('"%s"' % x for x in xs)


def _t(label, t0):
    if os.environ.get("VERIF_TIMING"):
        print("  [%6.1fs] %s" % (time.time() - t0, label), flush=True)


def _tlc(*a, **kw):
    """vf.tlc, retried once when the JVM died without a TLC error (other jobs share this machine)."""
    try:
        return vf.tlc(*a, **kw)
    except vf.MachineryError as ex:
        if "Error:" in str(ex) or "timed out" in str(ex):
            raise
        time.sleep(2)
        return vf.tlc(*a, **kw)


def _parallel(jobs, width):
    out, errs, sem = [None] * len(jobs), [], threading.Semaphore(width)

    def work(k):
        with sem:
            try:
                out[k] = jobs[k]()
            except Exception as ex:  # noqa
                errs.append(ex)
    ts = [threading.Thread(target=work, args=(k,)) for k in range(len(jobs))]
    for t in ts:
        t.start()
    for t in ts:
        t.join()
    if errs:
        raise errs[0] if isinstance(errs[0], vf.MachineryError) else vf.MachineryError(repr(errs[0]))
    return out


# ----------------------------------------------------------------------------------------------
# layout generation (shared by C11 and C23)

def layout_plan(tier, rng, linkable_only=False):
    """[(name, cfg dict, workers, simulate, depth)]"""
    six = rng.sample(ALL_CHOICES[:10], 3) + rng.sample(ALL_CHOICES[11:15], 3)   # 3 white-space-ish + 3 block comments
    if tier == "quick":
        plan = [
            ("full",    dict(skels=["s3"], mode="bfs", maxgaps=1, maxper=1, allowed="first", choices=ALL_CHOICES, full=True), 1, None, None),
            ("single",  dict(skels=["x", "s3", "e24", "t1"], mode="bfs", maxgaps=1, maxper=1, allowed="all", choices=ALL_CHOICES), 2, None, None),
            ("samegap", dict(skels=["x"], mode="bfs", maxgaps=1, maxper=2, allowed="first", choices=ALL_CHOICES), 1, None, None),
            ("twogaps", dict(skels=["s2"], mode="bfs", maxgaps=2, maxper=1, allowed="first", choices=six), 1, None, None),
            ("sim",     dict(skels=["p3", "x", "s2", "e24"], mode="sim", maxgaps=0, maxper=2, allowed="all", choices=ALL_CHOICES, density=25), 1, 150, 600),
        ]
    else:
        plan = [
            ("full",    dict(skels=["s3"], mode="bfs", maxgaps=1, maxper=1, allowed="all", choices=ALL_CHOICES, full=True), 2, None, None),
            ("fullx",   dict(skels=["x", "s2"], mode="bfs", maxgaps=1, maxper=2, allowed="first", choices=CORE_CHOICES + ["BCM", "LCE", "BOM", "VT"], full=True), 2, None, None),
            ("single",  dict(skels=["x", "e24", "t1", "p2", "p3", "ed", "s2", "s3"], mode="bfs", maxgaps=1, maxper=1, allowed="all", choices=ALL_CHOICES), 3, None, None),
            ("samegap", dict(skels=["x", "e24", "p2", "ed"], mode="bfs", maxgaps=1, maxper=2, allowed="reps", choices=ALL_CHOICES), 3, None, None),
            ("triple",  dict(skels=["x", "e24", "ed"], mode="bfs", maxgaps=1, maxper=3, allowed="first", choices=CORE_CHOICES + ["LCE", "BOM"]), 2, None, None),
            ("twogaps", dict(skels=["x", "e24", "ed"], mode="bfs", maxgaps=2, maxper=1, allowed="first", choices=ALL_CHOICES), 3, None, None),
            ("sim",     dict(skels=["x", "e24", "p2", "p3", "ed"], mode="sim", maxgaps=0, maxper=2, allowed="all", choices=ALL_CHOICES, density=20), 1, 1500, 600),
            ("simdense", dict(skels=["p2", "ed"], mode="sim", maxgaps=0, maxper=2, allowed="all", choices=ALL_CHOICES, density=70), 1, 300, 600),
        ]
    if linkable_only:          # C23: layouts of the featgen skeletons only (they must link), a lighter plan: cases are sampled
        if tier == "quick":
            plan = [
                ("single",  dict(skels=["s3"], mode="bfs", maxgaps=1, maxper=1, allowed="all", choices=ALL_CHOICES), 2, None, None),
                ("sim",     dict(skels=["s2"], mode="sim", maxgaps=0, maxper=2, allowed="all", choices=ALL_CHOICES, density=25), 1, 30, 600),
                # runs of consecutive line comments in a CRLF context (every case is used, not sampled)
                ("crlf",    dict(skels=["s3"], mode="bfs", maxgaps=1, maxper=3, allowed="first", choices=["LCR"]), 1, None, None),
                # a file whose last declaration ends in `;`: comments as the very last bytes (every case is used)
                ("eof",     dict(skels=["t1"], mode="bfs", maxgaps=1, maxper=2, allowed="first", choices=["LCE", "SP", "BC"]), 1, None, None),
            ]
        else:
            plan = [
                ("single",  dict(skels=["p2", "ed"], mode="bfs", maxgaps=1, maxper=1, allowed="all", choices=ALL_CHOICES), 3, None, None),
                ("samegap", dict(skels=["p3", "s2"], mode="bfs", maxgaps=1, maxper=2, allowed="reps", choices=ALL_CHOICES), 2, None, None),
                ("twogaps", dict(skels=["s2", "s3"], mode="bfs", maxgaps=2, maxper=1, allowed="first", choices=ALL_CHOICES), 2, None, None),
                ("sim",     dict(skels=["p2", "p3", "ed"], mode="sim", maxgaps=0, maxper=2, allowed="all", choices=ALL_CHOICES, density=20), 1, 400, 600),
                ("simdense", dict(skels=["ed", "s2"], mode="sim", maxgaps=0, maxper=2, allowed="all", choices=ALL_CHOICES, density=70), 1, 60, 600),
                ("crlf",    dict(skels=["s2", "s3"], mode="bfs", maxgaps=1, maxper=3, allowed="first", choices=["LCR", "LC"]), 2, None, None),
                ("eof",     dict(skels=["t1"], mode="bfs", maxgaps=2, maxper=2, allowed="first", choices=["LCE", "LC", "LCR", "SP", "BC", "DOC"]), 2, None, None),
            ]
    return plan


def gen_layouts(wd, plan, width, maxworkers=3):
    """Run MCLayout for every plan entry; returns {name: (casefile, ncases, TLCResult, gapclasses Counter)}."""
    def job(name, cfg, workers, sim, depth):
        workers = min(workers, maxworkers)

        def go():
            d = os.path.join(wd, "lay_" + name)
            os.makedirs(d, exist_ok=True)
            c = dict(density=0, full=False)
            c.update(cfg)
            c["skels"], c["choices"] = _q(c["skels"]), _q(c["choices"])
            c["full"] = "TRUE" if c["full"] else "FALSE"
            with open(os.path.join(d, "layout.cfg"), "w") as fh:
                fh.write(LAYOUT_CFG % c)
            casefile = os.path.join(wd, "layouts_%s.jsonl" % name)
            cnt = [0]
            classes = collections.Counter()
            skels = {}
            seen = set()
            with open(casefile, "w") as cf:
                def sink(o):
                    if "skeleton" in o:
                        if o["skeleton"] in skels:
                            return
                        skels[o["skeleton"]] = 1
                        o = {"skeleton": o["skeleton"], **o}      # discriminating key first
                    else:
                        o = {"skel": o["skel"], **o}
                        if sim:
                            key = o["skel"] + json.dumps(o["layout"])
                            if key in seen:
                                return
                            seen.add(key)
                        cnt[0] += 1
                        for c_ in o["cls"]:
                            classes[c_] += 1
                    cf.write(json.dumps(o, separators=(",", ":")) + "\n")
                r = _tlc("MCLayout", "layout.cfg", d, workers=workers, simulate=sim, depth=depth,
                         tseed=vf.seed() if sim else None, case_sink=sink, timeout=2400, heap="6g")
            if r.violated:
                raise vf.MachineryError("MCLayout (%s): spec-level check failed: %s, see %s" % (name, r.violated, r.stdout_path))
            return casefile, cnt[0], r, classes
        return go
    res = _parallel([job(*p) for p in plan], width)
    return {p[0]: r for p, r in zip(plan, res)}


def _case_line(path, n):
    """the n-th (0-based) line of a case file, and the skeleton line it needs"""
    skels, want = {}, None
    with open(path) as fh:
        for i, l in enumerate(fh):
            if '"skeleton"' in l[:14]:
                o = json.loads(l)
                skels[o["skeleton"]] = o
            if i == n:
                want = json.loads(l)
                break
    if want is None:
        return None
    if "skel" in want:
        return {"skeleton": skels.get(want["skel"]), "case": want}
    return {"case": want}


def _write_abstract(path, abstracts):
    with open(path, "w") as fh:
        done = set()
        for a in abstracts:
            sk = a.get("skeleton")
            if sk and sk["skeleton"] not in done:
                done.add(sk["skeleton"])
                fh.write(json.dumps(sk, separators=(",", ":")) + "\n")
            fh.write(json.dumps(a["case"], separators=(",", ":")) + "\n")


def _stats(err, acc):
    for l in err.splitlines():
        if l.startswith("STATS "):
            for k, v in json.loads(l[6:]).items():
                acc[k] += v


# ----------------------------------------------------------------------------------------------
# C11

def _c11_replay(binary, casefile, verdict, acc, harness_fatal=True):
    rc, out, err = vf.run_driver(binary, ["c11"], stdin_path=casefile, timeout=3000)
    if rc != 0:
        raise vf.MachineryError("srcinfo c11 failed rc=%s: %s" % (rc, err[-2000:]))
    _stats(err, acc)
    n = 0
    for line in out.splitlines():
        m = json.loads(line)
        if m["class"].startswith("HARNESS:") and harness_fatal:
            raise vf.MachineryError("machinery bug: %s %s: %s" % (m["class"], m["key"], m["detail"][:1500]))
        verdict.disagree(m["class"], {"case": m["key"], "abstract": _case_line(casefile, m["n"])}, m["detail"])
        n += 1
    return n


def run_c11(pid, tier, replay):
    t0 = time.time()
    wd = vf.workdir(pid)
    binary = vf.build_driver("srcinfo")
    verdict = vf.Verdict(pid)
    acc = collections.Counter()
    if replay:
        rep = json.load(open(replay))
        casefile = os.path.join(wd, "replay_cases.jsonl")
        _write_abstract(casefile, [e["case"]["abstract"] for e in rep["examples"] if e.get("case", {}).get("abstract")])
        n = _c11_replay(binary, casefile, verdict, acc, harness_fatal=False)
        for v in verdict.violations:
            print("REPLAY-MISMATCH %s %s" % (v["class"], v["detail"][:300]))
        return 1 if n else 0
    rng = vf.rng()
    plan = layout_plan(tier, rng)
    gen = gen_layouts(wd, plan, width=5 if tier == "quick" else 2)
    _t("TLC: " + ", ".join("%s=%d/%.0fs" % (n, gen[n][1], gen[n][2].wall) for n in gen), t0)
    states = sum(r.distinct or c for _f, c, r, _c in gen.values())
    trans = sum(r.generated or c for _f, c, r, _c in gen.values())
    ncases = sum(c for _f, c, _r, _c in gen.values())
    classes = collections.Counter()
    for _f, _c, _r, cl in gen.values():
        classes.update(cl)
    for name in gen:
        _c11_replay(binary, gen[name][0], verdict, acc)
    _t("replayed", t0)
    if acc["Cases"] != ncases:
        raise vf.MachineryError("driver handled %d of %d cases" % (acc["Cases"], ncases))
    # binding self-test: a case whose expected size is corrupted must be refused by the driver's cross-check
    selftest = _c11_selftest(binary, wd, gen["full"][0])
    _t("selftest", t0)
    samples = []
    for name in ("samegap", "twogaps", "sim"):
        with open(gen[name][0]) as fh:
            for l in fh:
                o = json.loads(l)
                if "skel" in o and o["layout"]:
                    samples.append({"skel": o["skel"], "layout": o["layout"][:4], "gaps_replaced": len(o["layout"]),
                                    "cls": o["cls"][:4], "nbytes": o["nbytes"], "nlines": o["nlines"], "ncom": o["ncom"]})
                    break
    rc = verdict.finish()
    vf.write_evidence(pid, tier, "exploration", {
        "states": states, "transitions": trans, "traces_validated_against_impl": ncases,
        "evaluations": ncases, "distinct_nontrivial": len(classes),
        "rule": "a case = one layout of a skeleton file (spec/LayoutSkel.tla) exported by TLC from MCLayout: the trivia choices "
                "that replace some gaps; evaluations = layouts rendered, parsed and compared (round trip + Items()/Tokens()/Walk "
                "order); distinct_nontrivial = number of distinct gap classes (Layout!ClassOf) that received trivia",
        "gap_classes": dict(classes), "samples": samples, "exhaustive": False,
        "bounds": [{"run": n, **{k: v for k, v in c.items()}, "simulate": s, "cases": gen[n][1]} for n, c, _w, s, _d in plan],
        "driver_stats": dict(acc), "binding_selftest": selftest,
    }, ["Layout.tla is the oracle: source = Concat(items) by construction; the renderer's per-class texts and the assembly of "
        "skeleton + replaced gaps are cross-checked against the specification's byte / line / comment counts on every case and "
        "against its full item sequence and concatenation in the Full configuration",
        "tokens come from fixed skeleton files (an extras file + featgen files per syntax); trivia never changes the token sequence",
        "a line comment followed by CRLF may be reported with or without the CR (the statement does not say); a BOM is excluded as stated"],
        time.time() - t0, violations=len(verdict.violations), known=verdict.known_hits)
    return rc


def _c11_selftest(binary, wd, fullfile):
    lines = open(fullfile).read().splitlines()
    skel = [l for l in lines if '"skeleton"' in l[:14]]
    cases = [json.loads(l) for l in lines if '"skel"' in l[:10]]
    with_comment = [c for c in cases if c["ncom"] == 1 and c["layout"] and c["layout"][0][0] > 0]
    if not with_comment:
        raise vf.MachineryError("self-test: no single-comment case in the Full run")
    c1 = dict(with_comment[0]); c1["nbytes"] += 1
    path = os.path.join(wd, "selftest_c11.jsonl")
    with open(path, "w") as fh:
        fh.write("\n".join(skel) + "\n" + json.dumps(c1) + "\n")
    rc, out, err = vf.run_driver(binary, ["c11"], stdin_path=path, timeout=300)
    got = [json.loads(l)["class"] for l in out.splitlines()]
    if rc != 0 or got != ["HARNESS:render"]:
        raise vf.MachineryError("self-test: a corrupted expected size was not refused (%s)" % got)
    return "a case whose exported size was corrupted is refused by the driver (HARNESS:render); the expectation of C11 is a function " \
           "of the exported items themselves, sensitivity is shown by code mutants"


# ----------------------------------------------------------------------------------------------
# C23

def _split(path, max_events, outdir):
    """Split the ndjson trace at Begin events into chunks of about max_events events."""
    os.makedirs(outdir, exist_ok=True)
    chunks, cur, n, traces = [], None, 0, 0
    with open(path) as fh:
        for line in fh:
            if line.startswith('{"e":"Begin"'):
                traces += 1
                if cur is None or n >= max_events:
                    if cur:
                        cur.close()
                    d = os.path.join(outdir, "chunk_%03d" % len(chunks))
                    os.makedirs(d, exist_ok=True)
                    chunks.append(d)
                    cur = open(os.path.join(d, TRACE_FILE), "w")
                    n = 0
            if cur is None:
                raise vf.MachineryError("trace file does not start with a Begin event")
            cur.write(line)
            n += 1
    if cur:
        cur.close()
    return chunks, traces


def _validate(chunks, parallel):
    rejects, lock = [], threading.Lock()
    totals = {"states": 0, "trans": 0}

    def job(d):
        def go():
            with open(os.path.join(d, "trace.cfg"), "w") as fh:
                fh.write(TRACE_CFG)
            mine = []
            r = _tlc("SrcInfoTrace", "trace.cfg", d, workers=1, timeout=2400, heap="6g", case_sink=mine.append)
            nev = sum(1 for _ in open(os.path.join(d, TRACE_FILE)))
            if r.violated or r.postcondition_failed or r.distinct != nev + 1:
                raise vf.MachineryError("trace validation did not consume %s (violated=%s post=%s states=%d events=%d); see %s"
                                        % (d, r.violated, r.postcondition_failed, r.distinct, nev, r.stdout_path))
            with lock:
                rejects.extend(mine)
                totals["states"] += r.distinct
                totals["trans"] += r.generated
        return go
    _parallel([job(d) for d in chunks], parallel)
    return rejects, totals["states"], totals["trans"]


FAMILY = (("span_", "span:"), ("comment_", "comment:"), ("ec_", "mode:"), ("eol_", "mode:"), ("both_", "mode:"),
          ("valid_case_does_not_compile", "compile:"), ("panic", "panic:"))


def _classes(why):
    out = []
    for w in sorted(why):
        for pre, fam in FAMILY:
            if w.startswith(pre):
                out.append(fam + w)
                break
        else:
            out.append("path:" + w)
    return out


def _gen_ff(wd, tier):
    runs = [("exh", 1 if tier == "quick" else 2, 0, None, 2), ("sim", 12, 4, 25 if tier == "quick" else 200, 1)]
    cap = {"exh": 10 ** 9, "sim": 40 if tier == "quick" else 300}     # -simulate exports every state it visits

    def job(name, maxf, emin, sim, workers):
        def go():
            d = os.path.join(wd, "ff_" + name)
            os.makedirs(d, exist_ok=True)
            with open(os.path.join(d, "ff.cfg"), "w") as fh:
                fh.write(SRCINFO_CFG % (maxf, emin))
            casefile = os.path.join(wd, "ff_%s.jsonl" % name)
            seen, schema = set(), []
            with open(casefile, "w") as cf:
                def sink(o):
                    if "schema" in o:
                        schema.append(o["schema"])
                        return
                    key = (o["syntax"], tuple(sorted(o["features"])))
                    if key in seen or len(seen) >= cap[name]:
                        return
                    seen.add(key)
                    cf.write(json.dumps(o, separators=(",", ":")) + "\n")
                r = _tlc("MCSrcInfo", "ff.cfg", d, workers=workers, simulate=sim, depth=maxf + 1 if sim else None,
                         tseed=vf.seed() if sim else None, case_sink=sink, timeout=2400)
            if r.violated:
                raise vf.MachineryError("MCSrcInfo (%s): spec-level check failed: %s, see %s" % (name, r.violated, r.stdout_path))
            return casefile, seen, r, schema
        return go
    res = _parallel([job(*r) for r in runs], 1)
    return runs, res


def _check_schema(binary, spec_schema):
    rc, out, err = vf.run_driver(binary, ["schema"], timeout=120)
    if rc != 0:
        raise vf.MachineryError("srcinfo schema failed: " + err[-1000:])
    real = json.loads(out)
    spec = {m: sorted([list(f) for f in fs]) for m, fs in spec_schema.items()}
    real = {m: sorted(fs) for m, fs in real.items()}
    if spec != real:
        diff = [m for m in set(spec) | set(real) if spec.get(m) != real.get(m)]
        raise vf.MachineryError("SrcInfoPaths!Fields differs from descriptorpb's descriptor.proto for %s: spec %s / descriptorpb %s"
                                % (diff[:3], [spec.get(m) for m in diff[:1]], [real.get(m) for m in diff[:1]]))
    return sum(len(v) for v in real.values())


def _check_lines(binary, wd, tier):
    d = os.path.join(wd, "lines")
    os.makedirs(d, exist_ok=True)
    with open(os.path.join(d, "lines.cfg"), "w") as fh:
        fh.write(LINES_CFG % (3 if tier == "quick" else 4))
    casefile = os.path.join(wd, "lines.jsonl")
    n = [0]
    with open(casefile, "w") as cf:
        def sink(o):
            cf.write(json.dumps(o, separators=(",", ":")) + "\n")
            n[0] += 1
        r = _tlc("MCSrcInfoLines", "lines.cfg", d, workers=1, case_sink=sink, timeout=1200)
    rc, out, err = vf.run_driver(binary, ["lines"], stdin_path=casefile, timeout=600)
    if rc != 0 or out.strip():
        raise vf.MachineryError("the driver's reference line table disagrees with SrcLines: %s %s" % (out[:800], err[-500:]))
    return n[0], r


def _sample_layouts(files, k, rng, outpath, keep_all=()):
    """pick about k layout cases (plus their skeletons) from the generated layout files; every case of keep_all is kept"""
    skels, cases, always = {}, [], []
    for f in list(files) + list(keep_all):
        with open(f) as fh:
            for l in fh:
                if '"skeleton"' in l[:14]:
                    o = json.loads(l)
                    skels[o["skeleton"]] = l
                elif '"skel"' in l[:10]:
                    (always if f in keep_all else cases).append(l)
    linkable = [l for l in cases if json.loads(l)["skel"] in LINKABLE]
    with_comments = [l for l in linkable if '"ncom":0' not in l]
    without = [l for l in linkable if '"ncom":0' in l]
    pick = vf.sample(rng, with_comments, (k * 4) // 5) + vf.sample(rng, without, k // 5) + [l for l in always if '"layout":[]' not in l]
    used = {json.loads(l)["skel"] for l in pick}
    with open(outpath, "w") as fh:
        for s in sorted(used):
            o = json.loads(skels[s])
            fh.write(json.dumps(o, separators=(",", ":")) + "\n")
        for l in pick:
            o = json.loads(l)
            for key in ("items", "src", "sane"):
                o.pop(key, None)
            fh.write(json.dumps(o, separators=(",", ":")) + "\n")
    return len(pick)


def _record(binary, casefile, tracefile, tag, acc):
    rc, out, err = vf.run_driver(binary, ["c23", tracefile, tag], stdin_path=casefile, timeout=3000)
    if rc != 0:
        raise vf.MachineryError("srcinfo c23 failed rc=%s: %s" % (rc, err[-2000:]))
    _stats(err, acc)
    info = []
    for line in out.splitlines():
        m = json.loads(line)
        if m["class"].startswith("HARNESS:"):
            raise vf.MachineryError("machinery bug: %s %s: %s" % (m["class"], m["key"], m["detail"][:1500]))
        info.append(m)
    return info


def run_c23(pid, tier, replay):
    t0 = time.time()
    wd = vf.workdir(pid)
    binary = vf.build_driver("srcinfo")
    verdict = vf.Verdict(pid)
    acc = collections.Counter()
    rng = vf.rng()
    casefiles = {}      # tag -> case file
    if replay:
        rep = json.load(open(replay))
        casefile = os.path.join(wd, "replay_cases.jsonl")
        _write_abstract(casefile, [e["case"]["abstract"] for e in rep["examples"] if e.get("case", {}).get("abstract")])
        casefiles["replay"] = casefile
        gen_info = {}
    else:
        # generators: FileFeatures cases (+ schema), line-table cross-check, layouts of the featgen skeletons
        lay_plan = layout_plan(tier, rng, linkable_only=True)
        res = _parallel([lambda: _gen_ff(wd, tier), lambda: gen_layouts(wd, lay_plan, 2, maxworkers=2), lambda: _check_lines(binary, wd, tier)], 3)
        (ff_runs, ff_res), lay, (nlines, lines_r) = res
        _t("generators done", t0)
        schema = [s for _f, _s, _r, sch in ff_res for s in sch]
        if not schema:
            raise vf.MachineryError("MCSrcInfo did not export its schema")
        nschema = _check_schema(binary, schema[0])
        for (name, *_), (cf, _seen, _r, _s) in zip(ff_runs, ff_res):
            casefiles["ff" + name] = cf
        nlay = _sample_layouts([lay[n][0] for n in lay if n not in ("crlf", "eof")], 40 if tier == "quick" else 800, rng,
                               os.path.join(wd, "layouts_c23.jsonl"), keep_all=[lay["crlf"][0], lay["eof"][0]])
        casefiles["lay"] = os.path.join(wd, "layouts_c23.jsonl")
        gen_info = {"ff": {n[0]: len(r[1]) for n, r in zip(ff_runs, ff_res)}, "layouts_sampled": nlay,
                    "layouts_generated": {n: lay[n][1] for n in lay}, "line_tables_checked": nlines, "schema_fields_checked": nschema}
    # record
    tracefile = os.path.join(wd, "all_" + TRACE_FILE)
    infos = {}
    with open(tracefile, "w") as allf:
        for tag, cf in casefiles.items():
            part = os.path.join(wd, "trace_%s.ndjson" % tag)
            infos[tag] = _record(binary, cf, part, tag, acc)
            with open(part) as fh:
                for l in fh:
                    allf.write(l)
            os.remove(part)
    nev = sum(1 for _ in open(tracefile))
    _t("recorded %d events" % nev, t0)
    chunks, ntraces = _split(tracefile, max(30000, nev // (3 if tier == "quick" else 8) + 1), os.path.join(wd, "val"))
    rejects, vstates, vtrans = _validate(chunks, 3 if tier == "quick" else 4)
    _t("validated (%d chunks)" % len(chunks), t0)
    unmatched = collections.defaultdict(list)
    for tag, ms in infos.items():
        for m in ms:
            unmatched["%s:%d" % (tag, m["n"])].append(m["detail"])
    for r in rejects:
        tag, n = r["reject"].split(":")
        why = set(r["why"])
        harness = [w for w in why if w.startswith("harness_") or w == "truncated_trace"]
        if harness:
            raise vf.MachineryError("trace validator reports a machinery problem %s for case %s (%s)" % (harness, r["reject"], r.get("first")))
        abstract = _case_line(casefiles[tag], int(n))
        first = r.get("first") or []
        detail = "first broken event #%s in mode %s: %s" % (first[0] if first else "?", first[1] if len(first) > 1 else "?",
                                                              json.dumps(first[2] if len(first) > 2 else None)[:500])
        if unmatched.get(r["reject"]):
            detail += " | unmatched comment: " + unmatched[r["reject"]][0][:300]
        for cls in _classes(why):
            verdict.disagree(cls, {"case": r["reject"], "abstract": abstract}, detail)
    if replay:
        for v in verdict.violations:
            print("REPLAY-MISMATCH %s %s" % (v["class"], v["detail"][:300]))
        return 1 if verdict.violations else 0
    if tier == "thorough" and (acc["ExtraOptionLocs"] <= 0 or acc["ExtraComments"] <= 0 or acc["MultiLineSpans"] <= 0):
        raise vf.MachineryError("vacuous run: the extended modes added %d locations / %d comments, %d multi-line spans"
                                % (acc["ExtraOptionLocs"], acc["ExtraComments"], acc["MultiLineSpans"]))
    selftest = _c23_selftest(wd, chunks[0])
    _t("selftest", t0)
    states = vstates + sum(r[2].distinct or len(r[1]) for r in ff_res) + sum(lay[n][2].distinct or lay[n][1] for n in lay) + lines_r.distinct
    trans = vtrans + sum(r[2].generated or len(r[1]) for r in ff_res) + sum(lay[n][2].generated or lay[n][1] for n in lay) + lines_r.generated
    feats = set()
    samples = []
    for (name, *_), (cf, seen, _r, _s) in zip(ff_runs, ff_res):
        feats |= seen
    for tag in ("ffexh", "lay"):
        with open(casefiles[tag]) as fh:
            for l in fh:
                o = json.loads(l)
                if "features" in o and len(o["features"]) >= 2 and "skeleton" not in o:
                    samples.append({"syntax": o["syntax"], "features": o["features"], "modes": ["std", "ec", "eol", "both"]})
                    break
                if "skel" in o and o["layout"]:
                    samples.append({"skel": o["skel"], "layout": o["layout"][:4], "cls": o["cls"][:4], "modes": ["std", "ec", "eol", "both"]})
                    break
    rc = verdict.finish()
    vf.write_evidence(pid, tier, "exploration", {
        "states": states, "transitions": trans, "traces_validated_against_impl": ntraces,
        "evaluations": acc["Locations"], "distinct_nontrivial": len(feats) + gen_info["layouts_sampled"],
        "rule": "a case = a FileFeatures workspace (syntax, feature set; distinct by it) or a Layout of a featgen skeleton (distinct by "
                "layout), compiled in the 4 source-info mode combinations = one trace; evaluations = SourceCodeInfo locations validated "
                "by TLC (each one event: path grammar, span, comments, mode relation); traces_validated = cases",
        "samples": samples, "exhaustive": False, "events": nev, "generators": gen_info, "driver_stats": dict(acc),
        "binding_selftest": selftest,
        "bounds": {"ff": [{"run": n, "max_features": m, "simulate": s} for n, m, _e, s, _w in ff_runs],
                   "layouts": [{"run": n, **c, "simulate": s} for n, c, _w, s, _d in lay_plan]},
    }, ["SrcInfoPaths.tla (path grammar over descriptor.proto's schema, cross-checked against descriptorpb in every run) and "
        "SrcInfoShape.tla (expected shape of the compiled descriptor per feature set; the measured shape must equal it) are the "
        "oracle for paths; a field step must be DECLARED, not set (protoc emits such locations); indexes inside option values are unbounded",
        "spans are checked against the Go line table, itself checked against SrcLines.tla on every text TLC enumerates in the run",
        "comment texts are compared after stripping comment markers, surrounding white space and a leading '*' per line, on both sides",
        "mode relations are checked order-preserving (the standard locations must occur in order in the extended modes)"],
        time.time() - t0, violations=len(verdict.violations), known=verdict.known_hits)
    return rc


def _c23_selftest(wd, chunk):
    """binding: corrupt one recorded path / drop one event of an accepted trace -> must be rejected"""
    d = os.path.join(wd, "selftest")
    os.makedirs(d, exist_ok=True)
    lines = []
    with open(os.path.join(chunk, TRACE_FILE)) as fh:
        for l in fh:
            lines.append(l)
            if l.startswith('{"e":"End"'):
                break
    locs = [i for i, l in enumerate(lines) if l.startswith('{"e":"Loc"') and '"p":[4,0,2,' in l]
    if not locs:
        raise vf.MachineryError("self-test: no field location in the first trace")
    def variant(tag, f):
        out = []
        for l in lines:
            o = json.loads(l)
            if o["e"] == "Begin":
                o["id"] = tag + ":0"
            out.append(o)
        f(out)
        return [json.dumps(o, separators=(",", ":")) + "\n" for o in out]
    def corrupt(out):
        out[locs[0]]["p"][3] += 500
    def drop(out):
        del out[locs[0]]
    def span(out):
        out[locs[-1]]["s"][1] += 1000
    with open(os.path.join(d, TRACE_FILE), "w") as fh:
        for tag, f in (("ok", lambda o: None), ("corrupt", corrupt), ("drop", drop), ("span", span)):
            fh.writelines(variant(tag, f))
    with open(os.path.join(d, "trace.cfg"), "w") as fh:
        fh.write(TRACE_CFG)
    got = []
    r = _tlc("SrcInfoTrace", "trace.cfg", d, workers=1, timeout=900, heap="2g", case_sink=got.append)
    if r.violated or r.postcondition_failed:
        raise vf.MachineryError("self-test: validator did not run to the end")
    why = {g["reject"].split(":")[0]: sorted(g["why"]) for g in got}
    if "ok" in why or not {"corrupt", "drop", "span"} <= set(why):
        raise vf.MachineryError("self-test: expected exactly the three corrupted traces to be rejected, got %s" % why)
    return "untouched trace accepted; corrupted index -> %s; dropped std event -> %s; corrupted span -> %s" % (
        why["corrupt"], why["drop"], why["span"])


def run(pid, tier, replay=None):
    if pid == "C11":
        return run_c11(pid, tier, replay)
    if pid == "C23":
        return run_c23(pid, tier, replay)
    raise vf.MachineryError("srcinfo engine does not serve " + pid)


# ----------------------------------------------------------------------------------------------
# development: regenerate spec/LayoutSkel.tla (needed when featgen's text changes: the driver then reports
# HARNESS:skeleton-stale).   python3 engines/srcinfo.py --regen-skeletons

SKEL_FEATURES = ["pkg", "import", "public", "nested", "enum", "map", "group", "oneof", "p3opt", "extrange", "extend", "service",
                 "customopt", "msglit", "srcret", "stdopt", "default", "reserved", "jsonname", "required", "features",
                 "jsoncollide", "mapfeatures", "extgroup"]
SKEL_HEADER = '''------------------------------ MODULE LayoutSkel ------------------------------
(* Token skeletons of valid files for Layout.tla.  GENERATED at development time by
   `srcinfo skeleton` (harness/srcinfo/layout.go) with an independent scanner, then kept as a
   static part of the specification:
     x            hand-written extras (constructs the featgen files lack: adjacent string literals,
                  signed / hex / octal / float / exponent / inf / nan spellings, string escapes and raw multi-byte text, <...> message literals, an Any type URL,
                  import public / weak, groups, ranges to max, streaming rpcs, empty statements,
                  fully-qualified names with a leading dot); parse-only, it does not link
     e24          hand-written edition 2024 file: import option, export / local declarations, and type
                  names whose first component is a keyword (export.a.B, local.x.Y, stream.returns.rpc, ...);
                  parse-only
     t1           hand-written small file that links and ENDS in a `;`-terminated declaration (file option),
                  so that trivia at the very end of the file can be a location's trailing comment (C23)
     p2, p3, ed   harness/_common/featgen main.proto for the maximal valid feature set of each syntax
                  (without the comments / weird_layout features: Layout supplies the trivia)
     s3, s2       two small featgen files (quick tier)
   toks[j] = <<text, class>>, gaps[g + 1] = default white space of gap g.  The driver checks on
   every run that the featgen skeletons still equal featgen's rendering (empty layout).       *)
EXTENDS Naturals, Sequences

'''


def regen_skeletons():
    import subprocess

    def ok(s, f):
        return {"p3opt": s == "proto3", "group": s != "proto3", "extrange": s != "proto3", "extend": s != "proto3",
                "required": s != "proto3", "default": s != "proto3", "features": s == "editions",
                "jsoncollide": s == "proto2", "mapfeatures": s == "editions", "extgroup": s == "proto2"}.get(f, True)
    reqs = [{"id": "x"}, {"id": "e24"}, {"id": "t1", "syntax": "proto3", "features": []}]
    for sid, syn in (("p2", "proto2"), ("p3", "proto3"), ("ed", "editions")):
        reqs.append({"id": sid, "syntax": syn, "features": [f for f in SKEL_FEATURES if ok(syn, f)]})
    reqs.append({"id": "s3", "syntax": "proto3", "features": ["pkg", "enum", "stdopt", "oneof", "service"]})
    reqs.append({"id": "s2", "syntax": "proto2", "features": ["customopt", "msglit", "default", "extrange", "import"]})
    binary = vf.build_driver("srcinfo")
    out = subprocess.run([binary, "skeleton"], input="\n".join(json.dumps(r) for r in reqs) + "\n", capture_output=True,
                         text=True, cwd=vf.REPO, env=vf.go_env())
    if out.returncode != 0:
        raise vf.MachineryError(out.stderr)

    def q(t):
        return '"' + t.replace("\\", "\\\\").replace('"', '\\"') + '"'

    def tok(t, c, n):
        return "<<%s, %s>>" % (q(t), q(c)) if int(n) == len(t) else "<<%s, %s, %s>>" % (q(t), q(c), n)
    mods, ids = [], []
    for line in out.stdout.splitlines():
        sk = json.loads(line)
        ids.append(sk["id"])
        toks = ",\n      ".join(", ".join(tok(*t) for t in sk["toks"][i:i + 6]) for i in range(0, len(sk["toks"]), 6))
        gaps = ",\n      ".join(", ".join("<<%s>>" % ", ".join(q(g) for g in gp) for gp in sk["gaps"][i:i + 8])
                                for i in range(0, len(sk["gaps"]), 8))
        feats = "{" + ", ".join(q(f) for f in sk["features"]) + "}"
        mods.append("Skel_%s ==\n  [id |-> %s, syntax |-> %s, features |-> %s,\n   toks |-> <<\n      %s>>,\n   gaps |-> <<\n      %s>>]\n"
                    % (sk["id"], q(sk["id"]), q(sk["syntax"]), feats, toks, gaps))
        print(sk["id"], len(sk["toks"]), "tokens", len(sk["text"]), "bytes")
    tail = "\nSkelAll == {%s}\nSkel(id) == CASE %s\n" % (", ".join(q(i) for i in ids),
                                                         "\n             [] ".join("id = %s -> Skel_%s" % (q(i), i) for i in ids))
    with open(os.path.join(vf.SPEC, "LayoutSkel.tla"), "w") as fh:
        fh.write(SKEL_HEADER + "\n".join(mods) + tail + "=" * 77 + "\n")


if __name__ == "__main__":
    import sys
    if sys.argv[1:] == ["--regen-skeletons"]:
        regen_skeletons()
    else:
        print("usage: srcinfo.py --regen-skeletons")
