"""C12 (parser is total, positions inside the file) and C13 (line / column positions are correct) for the
STABLE parser (packages parser, ast).

C13  direction A.  spec/MCSrcPos.tla (EXTENDS SrcText): TLC enumerates every sequence of lexical units up
     to a bound (free shape), every filling of the gaps of a `message a {}` skeleton (skel shape) and
     random longer sequences (-simulate), and exports for every unit and every character boundary the
     line / Col8 column SrcText demands.  harness/parsepos -mode=units replays them into
     ast.FileInfo.SourcePos (line table filled as AddLine documents) and into parser.Parse (the lexer's
     line table): every token, comment, error and AST node position is compared, every span must have
     start <= end.  Plus (exploration): the same comparisons on Mutate.tla mutants of internal/testdata
     against the driver's reference position function, which is itself checked against SrcText on every
     exported boundary.

C12  direction B.  One trace per parser.Parse call (harness/parsepos -mode=calls, both an error tolerant
     and an aborting reporter) validated by TLC against spec/ParseCallTrace.tla (contract:
     spec/ParseCall.tla).  Inputs: (i) every string over an 18-symbol alphabet up to a bound, enumerated
     by TLC from spec/MCParseInputs.tla together with the line table SrcLines demands; (ii) mutants of
     internal/testdata/*.proto chosen by TLC from the mutation relation spec/Mutate.tla.
"""
import base64, collections, json, os, re, shutil, subprocess, threading, time
import vf

TESTDATA = os.path.join(vf.REPO, "internal", "testdata")

# ------------------------------------------------------------------------------------------------
# shared helpers

def _par(thunks):
    """run thunks in threads, re-raise the first exception, return results in order"""
    res = [None] * len(thunks)
    err = []
    def wrap(i, t):
        try:
            res[i] = t()
        except BaseException as e:  # noqa
            err.append(e)
    ths = [threading.Thread(target=wrap, args=(i, t)) for i, t in enumerate(thunks)]
    for t in ths:
        t.start()
    for t in ths:
        t.join()
    if err:
        raise err[0]
    return res


_T0 = [time.time()]


def _log(msg):
    print("[%6.1fs] %s" % (time.time() - _T0[0], msg), flush=True)


def _setup(pid):
    """private work dir and private driver binary: runs against a scratch worktree (VERIF_REPO) may overlap with
    runs against /repo, and must neither share .work/<pid> nor race on .build/parsepos"""
    tag = "" if os.path.realpath(vf.REPO) == "/repo" else "-" + os.path.basename(os.path.realpath(vf.REPO))
    wd = vf.workdir(pid + tag)
    saved = vf.BUILD
    vf.BUILD = os.path.join(wd, "build")
    try:
        binary = vf.build_driver("parsepos")
    finally:
        vf.BUILD = saved
    return wd, binary


def _write(path, text):
    with open(path, "w") as fh:
        fh.write(text)


def _driver_stats(err):
    m = re.search(r"^STATS (.*)$", err, re.M)
    if not m:
        raise vf.MachineryError("driver printed no STATS: " + err[-2000:])
    return json.loads(m.group(1))


def _tlc_cases(module, cfg_text, wd, name, casefile, workers=4, simulate=None, depth=None, timeout=1500,
               extra_module=None, dedupe_key=None):
    """Run TLC in its own sub directory, stream CASE lines into casefile; returns (TLCResult, ncases)."""
    sub = os.path.join(wd, name)
    os.makedirs(sub, exist_ok=True)
    cfg = name + ".cfg"
    _write(os.path.join(sub, cfg), cfg_text)
    if extra_module:
        _write(os.path.join(sub, extra_module[0] + ".tla"), extra_module[1])
    cnt = [0]
    seen = set()
    with open(casefile, "w") as cf:
        def sink(o):
            if dedupe_key is not None:
                k = dedupe_key(o)
                if k in seen:
                    return
                seen.add(k)
            cf.write(json.dumps(o, separators=(",", ":")) + "\n")
            cnt[0] += 1
        r = vf.tlc(module, cfg, sub, workers=1 if simulate else workers, simulate=simulate, depth=depth,
                   tseed=vf.seed() if simulate else None, case_sink=sink, timeout=timeout)
    if r.violated:
        raise vf.MachineryError("spec-level check failed in %s/%s: %s (see %s)" % (module, name, r.violated, r.stdout_path))
    if simulate and not r.generated:   # simulation mode prints its state count differently
        m = re.search(r"The number of states generated: (\d+)", open(r.stdout_path).read())
        if m:
            r.generated = r.distinct = int(m.group(1))
    return r, cnt[0]


def _base_measures(binary, wd):
    rc, out, err = vf.run_driver(binary, ["-mode=stat", "-testdata", TESTDATA], timeout=120)
    if rc != 0:
        raise vf.MachineryError("parsepos -mode=stat failed: " + err)
    files = json.loads(out)
    return files


MUT_CFG = """SPECIFICATION Spec
CONSTANTS
  NFiles = %(n)d
  Toks <- ToksDef
  Bytes <- BytesDef
  TokOps = {"deltok", "duptok", "swaptok"}
  ByteOps = {"truncate", "insnul", "insbad", "insustr", "insubc", "bom"}
  NestDepths = {%(depths)s}
  MaxChain = %(chain)d
  Stride = %(stride)d
  Phase = %(phase)d
  ExportMin = %(emin)d
INVARIANT Export
CHECK_DEADLOCK FALSE
"""


def _mutants(files, wd, name, casefile, stride, chain=1, depths="1, 50, 200", workers=4):
    """TLC enumerates the (thinned) mutation relation; chain > 1: only full chains are exported"""
    mod = ("MCMutateGen", "---- MODULE MCMutateGen ----\nEXTENDS Mutate\nToksDef == <<%s>>\nBytesDef == <<%s>>\n====\n" % (
        ", ".join(str(f["toks"]) for f in files), ", ".join(str(f["bytes"]) for f in files)))
    cfg = MUT_CFG % {"n": len(files), "depths": depths, "chain": chain, "stride": stride,
                     "phase": vf.seed() % stride, "emin": chain if chain > 1 else 0}
    return _tlc_cases("MCMutateGen", cfg, wd, name, casefile, workers=workers, extra_module=mod)


# ------------------------------------------------------------------------------------------------
# C13

ALL_FREE = ["id", "kwmsg", "sp", "tab", "lf", "cr", "semi", "lb", "rb", "bc2", "bc3", "bc4", "bcT", "bcN", "bcRN",
            "lc3", "lcT", "str2", "str3", "str4", "strT", "ustr", "ustrS", "strBN", "strXN", "bad", "nul", "stray", "at"]
FINAL = ["lcE", "ustrE", "ubc"]
QUICK_FREE = ["id", "kwmsg", "sp", "tab", "lf", "cr", "semi", "lb", "rb", "bc3", "bcT", "bcN", "lc3", "str3", "strT",
              "ustr", "strBN", "bad", "nul", "stray"]
QUICK_GAPS = ["lf", "tab", "bcN", "ustr"]
THOROUGH_GAPS = ["lf", "tab", "cr", "bc4", "bcT", "bcN", "lc3", "ustr", "strBN"]

SRCPOS_CFG = """SPECIFICATION Spec
CONSTANTS
  MaxLen = %(maxlen)d
  ExportMin = %(emin)d
  Shape = "%(shape)s"
  FreeUnits = {%(free)s}
  FinalUnits = {%(final)s}
  GapUnits = {%(gaps)s}
  Boms = {FALSE, TRUE}
  BomMaxLen = %(bommax)d
INVARIANTS %(invs)s
CHECK_DEADLOCK FALSE
"""


def _q(xs):
    return ", ".join('"%s"' % x for x in xs)


def _units_replay(binary, casefile, verdict, stats_acc, label, extra=()):
    outp = casefile + ".mismatch"
    rc, _out, err = vf.run_driver(binary, ["-mode=units"] + list(extra), stdin_path=casefile, stdout_path=outp, timeout=3000)
    if rc != 0:
        raise vf.MachineryError("parsepos -mode=units failed (%s): %s" % (label, err[-3000:]))
    st = _driver_stats(err)
    for k, v in st.items():
        stats_acc[k] += v
    mism = vf.jsonl_read(outp)
    if mism:
        need = {m["idx"] for m in mism}
        cases = {}
        with open(casefile) as fh:
            for i, line in enumerate(fh):
                if i in need:
                    cases[i] = json.loads(line)
        for m in mism:
            verdict.disagree(m["class"], {"kind": "units", "input": m["text"], "units": m.get("units"),
                                          "case": cases.get(m["idx"])}, m["detail"])
    return st


def _spans_replay(binary, casefile, verdict, stats_acc, label):
    outp = casefile + ".mismatch"
    rc, _out, err = vf.run_driver(binary, ["-mode=spans", "-testdata", TESTDATA, "-workers", "8"], stdin_path=casefile,
                                  stdout_path=outp, timeout=3000)
    if rc != 0:
        raise vf.MachineryError("parsepos -mode=spans failed (%s): %s" % (label, err[-3000:]))
    st = _driver_stats(err)
    for k, v in st.items():
        stats_acc[k] += v
    for m in vf.jsonl_read(outp):
        cs = m["units"][0]
        try:
            cs = json.loads(cs)
        except Exception:  # noqa
            pass
        verdict.disagree("mutant:" + m["class"], {"kind": "spans", "case": cs}, m["detail"])
    return st


def run_c13(pid, tier, replay):
    t0 = time.time()
    _T0[0] = t0
    wd, binary = _setup(pid)
    _log("driver built")
    verdict = vf.Verdict(pid)
    ust = collections.Counter()
    sst = collections.Counter()
    if replay:
        rep = json.load(open(replay))
        ucases = [e["case"]["case"] for e in rep["examples"] if e["case"].get("kind") == "units" and e["case"].get("case")]
        scases = [e["case"]["case"] for e in rep["examples"] if e["case"].get("kind") == "spans"]
        if ucases:
            vf.jsonl_write(wd + "/replay_units.jsonl", ucases)
            _units_replay(binary, wd + "/replay_units.jsonl", verdict, ust, "replay")
        if scases:
            vf.jsonl_write(wd + "/replay_spans.jsonl", scases)
            _spans_replay(binary, wd + "/replay_spans.jsonl", verdict, sst, "replay")
        print("replayed %d unit cases, %d mutant cases" % (len(ucases), len(scases)))
        return verdict.finish()

    thorough = tier == "thorough"
    runs = []  # (name, cfg dict, simulate, depth)
    if thorough:
        runs.append(("free", dict(maxlen=4, bommax=3, emin=0, shape="free", free=_q(ALL_FREE), final=_q(FINAL), gaps="", invs="OracleSane Export"), None, None))
        runs.append(("skel", dict(maxlen=0, bommax=0, emin=0, shape="skel", free="", final="", gaps=_q(THOROUGH_GAPS), invs="Export"), None, None))
        runs.append(("sim", dict(maxlen=12, bommax=12, emin=12, shape="free", free=_q(ALL_FREE), final=_q(FINAL), gaps="", invs="Export"), 1500, 13))
    else:
        runs.append(("free", dict(maxlen=3, bommax=2, emin=0, shape="free", free=_q(QUICK_FREE), final=_q(FINAL), gaps="", invs="OracleSane Export"), None, None))
        runs.append(("skel", dict(maxlen=0, bommax=0, emin=0, shape="skel", free="", final="", gaps=_q(QUICK_GAPS), invs="Export"), None, None))
        runs.append(("sim", dict(maxlen=9, bommax=9, emin=9, shape="free", free=_q(ALL_FREE), final=_q(FINAL), gaps="", invs="Export"), 100, 10))
    files = _base_measures(binary, wd)
    stride = 3 if thorough else 61

    def tlc_run(name, cfg, sim, depth):
        return lambda: _tlc_cases("MCSrcPos", SRCPOS_CFG % cfg, wd, name, "%s/cases_%s.jsonl" % (wd, name),
                                  workers=8 if thorough and name == "free" else 4, simulate=sim, depth=depth,
                                  timeout=2400, dedupe_key=(lambda o: str(o["bom"]) + "".join(o["text"])) if sim else None)
    thunks = [tlc_run(*r) for r in runs]
    thunks.append(lambda: _mutants(files, wd, "mut", wd + "/cases_mut.jsonl", stride))
    results = _par(thunks)
    _log("TLC done: " + ", ".join("%s=%d cases/%.0fs" % (n[0], c, r.wall) for n, (r, c) in zip(runs + [("mut",)], results)))
    states = sum(r.distinct for r, _n in results[:-1])
    trans = sum(r.generated for r, _n in results[:-1])
    ncases = sum(n for _r, n in results[:-1])
    mut_r, nmut = results[-1]

    per_run = {}
    lock = threading.Lock()

    def replay_units(name, n):
        def go():
            acc = collections.Counter()
            v = vf.Verdict(pid)
            st = _units_replay(binary, "%s/cases_%s.jsonl" % (wd, name), v, acc, name)
            with lock:
                ust.update(acc)
                for x in v.violations:
                    verdict.disagree(x["class"], x["case"], x["detail"])
                for k, c in v.known_hits.items():
                    verdict.known_hits[k] = verdict.known_hits.get(k, 0) + c
                    verdict.known_example.setdefault(k, v.known_example.get(k))
                per_run[name] = {"cases": n, "checks": st["Checks"], "nodes": st["NodesChecked"]}
        return go
    _par([replay_units(name, n) for (name, _cfg, _s, _d), (_r, n) in zip(runs, results)] +
         [lambda: _spans_replay(binary, wd + "/cases_mut.jsonl", verdict, sst, "mut")])
    _log("replay done: %d unit cases, %d checks; %d mutants" % (ust["Cases"], ust["Checks"], sst["Cases"]))

    # the unit table itself (token extents, comment-ness) must agree with the lexer; a disagreement on otherwise
    # clean code means the spec's unit model is wrong (exit 2); next to position violations it is their consequence
    if ust["ModelMismatches"] and not verdict.violations and not verdict.known_hits:
        raise vf.MachineryError("MCSrcPos unit table disagrees with the lexer in %d places" % ust["ModelMismatches"])
    # vacuity guards (exit 2, not a verdict)
    if ust["Cases"] != ncases or ust["Checks"] == 0 or ust["ItemsMatched"] == 0 or ust["CasesWithLexError"] == 0 \
            or ust["CasesWithNodes"] == 0 or ust["ErrorsChecked"] == 0:
        raise vf.MachineryError("C13 replay vacuous: %s" % dict(ust))
    if ust["CasesWithBOM"] == 0 or sst["BOMCases"] == 0:
        raise vf.MachineryError("C13: no case with a byte order mark was replayed: %s %s" % (dict(ust), dict(sst)))
    if ust["ItemsMatched"] * 2 < ust["ExpectedStarts"]:
        raise vf.MachineryError("C13: fewer than half of the expected token starts were found: %s" % dict(ust))
    if sst["Cases"] != nmut or sst["MultiLineNodes"] == 0:
        raise vf.MachineryError("C13 span replay vacuous: %s" % dict(sst))

    # binding self-test: corrupt one exported expectation -> the driver must object
    selftest = None
    with open("%s/cases_free.jsonl" % wd) as fh:
        for line in fh:
            c = json.loads(line)
            if c["nlines"] >= 2 and any(u[3] == 1 for u in c["unit"][1:]):
                for b in c["bnd"][1:]:
                    b[1] += 1  # every line expectation after offset 0 off by one
                selftest = c
                break
    if selftest is None:
        raise vf.MachineryError("no case for the binding self-test")
    vf.jsonl_write(wd + "/selftest.jsonl", [selftest])
    sv = vf.Verdict(pid)
    sv.findings = []
    _units_replay(binary, wd + "/selftest.jsonl", sv, collections.Counter(), "selftest", extra=["-noref"])
    if not sv.violations:
        raise vf.MachineryError("binding self-test failed: corrupted expectation was accepted")

    verdict.violations.sort(key=lambda v: len(json.dumps(v["case"])))
    samples = []
    with open("%s/cases_skel.jsonl" % wd) as fh:
        for line in fh:
            c = json.loads(line)
            if c["nlines"] >= 2 and len(samples) < 2:
                samples.append(c)
    rc = verdict.finish()
    vf.write_evidence(pid, tier, "model_checking", {
        "states": states, "transitions": trans,
        "traces_validated_against_impl": ncases,
        "evaluations": ust["Checks"] + sst["Checks"],
        "distinct_nontrivial": ust["NonTrivial"],
        "rule": "a case = one unit sequence exported by TLC from MCSrcPos (distinct by text) with every boundary's "
                "expected offset/line/Col8; evaluations = single position comparisons (direct SourcePos, token / "
                "comment / error / node starts and ends) on the real code; non-trivial = case with a lexical error "
                "or with composite AST nodes",
        "samples": samples,
        "exhaustive": True,
        "bounds": [{"run": n, "cfg": {k: v for k, v in c.items() if k in ("maxlen", "shape")}, "simulate": s, "depth": d,
                    **per_run[n]} for n, c, s, d in runs],
        "unit_replay": dict(ust),
        "mutant_replay": {"level": "exploration", "mutants": nmut, "stride": stride, "tlc_states": mut_r.distinct, **dict(sst)},
        "binding_selftest": "corrupted line expectations rejected with %d mismatches" % len(sv.violations),
    }, ["SrcText.tla (Line, Col8) is the position oracle, written from the property statement",
        "columns after an invalid UTF-8 byte on the same line are not defined by the statement and not compared; "
        "positions whose reported Offset is inside a multi-byte character (Comment.End of a comment ending in one) are not compared",
        "NodeInfo.End() is compared as the exclusive end (documented), Comment.End() as the position of its last byte (by its Offset)",
        "a leading byte order mark is not part of the text: lines/columns are SrcText's for the text without it and offsets are "
        "compared relative to the first byte after it (the unchanged code's convention; the statement leaves the origin of offsets open)",
        "concretisation a->'a', 2->U+00E9, 3->U+20AC, 4->U+1F600, X->0x80 is representative of its class",
        "mutant replay compares with the driver's reference position function, which is checked against SrcText on every "
        "exported boundary of every unit case in the same run"],
        time.time() - t0, violations=len(verdict.violations), known=verdict.known_hits)
    return rc


# ------------------------------------------------------------------------------------------------
# C12

ALPHABET = ["Q", "'", "B", "/", "*", "{", "}", ";", "=", "0", "x", ".", "a", "N", "T", "Z", "X", "3"]

INPUTS_CFG = """SPECIFICATION Spec
CONSTANTS
  MaxLen = %(maxlen)d
  ExportMin = %(emin)d
  Alphabet = {%(alpha)s}
  Boms = {FALSE, TRUE}
  BomMaxLen = %(bommax)d
  Family = "bytes"
  TokBounds = {}
INVARIANTS TableSane Export
CHECK_DEADLOCK FALSE
"""

TOKENS_CFG = """SPECIFICATION Spec
CONSTANTS
  MaxLen = 0
  ExportMin = 0
  Alphabet = {}
  Boms = {FALSE}
  BomMaxLen = 0
  Family = "tokens"
  TokBounds <- TokBoundsDef
INVARIANTS Export
CHECK_DEADLOCK FALSE
"""

OPT_CONTEXTS = ["enumval", "extrange", "oneoffield"]
SYNTAXES = ["proto2", "proto3", "ed2023"]


def _token_bounds(thorough):
    """<<context, syntax, max tokens>> triples: compact options on a field exhaustive to 3 (4) tokens in every syntax; the
    larger families are bounded lower in the quick tier, with one seed-chosen syntax going one token deeper"""
    pick = SYNTAXES[vf.seed() % 3]
    b = []
    for sy in SYNTAXES:
        b.append(("fieldopt", sy, 4 if thorough else 3))
        for c in OPT_CONTEXTS:
            b.append((c, sy, 3 if thorough else 2))
        b.append(("msgbody", sy, (4 if sy == pick else 3) if thorough else (3 if sy == pick else 2)))
    b.append(("file", "none", 4 if thorough else 3))
    return b


def _token_cases(wd, thorough):
    bounds = _token_bounds(thorough)
    mod = ("MCTokGen", "---- MODULE MCTokGen ----\nEXTENDS MCParseInputs\nTokBoundsDef == {%s}\n====\n" %
           ", ".join('<<"%s", "%s", %d>>' % t for t in bounds))
    r, n = _tlc_cases("MCTokGen", TOKENS_CFG, wd, "tok", wd + "/cases_tok.jsonl", workers=4, extra_module=mod)
    return (r, n), bounds


TRACE_CFG = """SPECIFICATION TraceSpec
CONSTANTS
  TraceFile = "%s"
  Texts = {}
  MaxLine = 1
  MaxCol = 1
  ErrCap = 2
INVARIANT TraceInv
POSTCONDITION TraceAccepted
CHECK_DEADLOCK FALSE
"""


def _record_calls(binary, casefile, tracefile, inputsfile, label, modes="tolerant,abort"):
    rc, _out, err = vf.run_driver(binary, ["-mode=calls", "-testdata", TESTDATA, "-inputs", inputsfile, "-workers", "8",
                                           "-modes", modes],
                                  stdin_path=casefile, stdout_path=tracefile, timeout=3000)
    if rc != 0:
        raise vf.MachineryError("parsepos -mode=calls failed (%s): %s" % (label, err[-3000:]))
    return _driver_stats(err)


def _split_trace(tracefile, wd, prefix, max_events):
    """split a concatenated trace file at Reset boundaries into chunks of about max_events events"""
    chunks = []
    out = None
    n = 0
    with open(tracefile) as fh:
        for line in fh:
            if out is None:
                sub = os.path.join(wd, "%s%d" % (prefix, len(chunks)))
                os.makedirs(sub, exist_ok=True)
                path = os.path.join(sub, "trace.ndjson")
                out = open(path, "w")
                chunks.append([sub, 0])
                n = 0
            out.write(line)
            n += 1
            chunks[-1][1] = n
            if n >= max_events and '"ev":"Reset"' in line:
                out.close()
                out = None
    if out is not None:
        out.close()
    return chunks


def _validate(sub, nevents, timeout=2400):
    """TLC on sub/trace.ndjson; returns (TLCResult, [viol dicts])"""
    _write(os.path.join(sub, "trace.cfg"), TRACE_CFG % "trace.ndjson")
    r = vf.tlc("ParseCallTrace", "trace.cfg", sub, workers=1, timeout=timeout, heap="3g")
    viols = []
    rejected = None
    with open(r.stdout_path) as fh:
        for line in fh:
            s = line.strip()
            if s.startswith('"VIOL '):
                viols.append(json.loads(s[1:-1][5:].replace('\\"', '"').replace("\\\\", "\\")))
            if "TRACE-REJECTED" in s:
                rejected = s
    if r.violated:
        raise vf.MachineryError("trace invariant %s violated in %s (see %s)" % (r.violated, sub, r.stdout_path))
    if rejected is None and (r.postcondition_failed or r.distinct != nevents + 1):
        rejected = "postcondition failed / %d states for %d events" % (r.distinct, nevents)
    return r, viols, rejected


def _load_trace_index(tracefile, ids):
    ev = collections.defaultdict(list)
    with open(tracefile) as fh:
        for line in fh:
            m = re.search(r'"id":(\d+)', line)
            if m and int(m.group(1)) in ids:
                ev[int(m.group(1))].append(json.loads(line))
    return ev


def _load_inputs(inputsfile, ids):
    inp, cnt = {}, {}
    total = 0
    with open(inputsfile) as fh:
        for line in fh:
            if line.startswith('{"id":') and '"count"' in line and '"mode"' not in line:
                o = json.loads(line)
                total += o["count"]
                if o["id"] in ids:
                    cnt[o["id"]] = o["count"]
                continue
            m = re.search(r'"id":(\d+)', line)
            if m and int(m.group(1)) in ids:
                o = json.loads(line)
                inp[o["id"]] = o
    return inp, cnt, total


def _judge(family, tracefile, inputsfile, wd, verdict, max_events=12000):
    """validate one family's concatenated trace file with TLC (chunks in parallel); feed violations to the verdict"""
    chunks = _split_trace(tracefile, wd, "val_%s_" % family, max_events)
    if not chunks:
        raise vf.MachineryError("no trace recorded for " + family)
    results = []
    for i in range(0, len(chunks), 5):
        results += _par([(lambda c=c: _validate(c[0], c[1])) for c in chunks[i:i + 5]])
    states = sum(r.distinct for r, _v, _rej in results)
    for (sub, _n), (_r, _v, rej) in zip(chunks, results):
        if rej:
            raise vf.MachineryError("trace of family %s not accepted as a well-formed recording (%s): %s" % (family, sub, rej))
    viols = [v for _r, vs, _rej in results for v in vs]
    ids = {v["id"] for v in viols}
    ev = _load_trace_index(tracefile, ids) if ids else {}
    inp, cnt, _total = _load_inputs(inputsfile, ids) if ids else ({}, {}, 0)
    for v in viols:
        cls = v["prop"]
        events = ev.get(v["id"], [])
        site = None
        for e in events:
            if e["ev"] == "Panic" or (e["ev"] == "ToDescriptor" and e.get("panicked")):
                site = (e.get("site"), e.get("msg"))
        if cls.startswith("panic:") and site:
            cls += ":" + str(site[0])
        i = inp.get(v["id"], {})
        case = {"family": family, "mode": i.get("mode"), "input": i.get("quoted"), "input_b64": i.get("input"),
                "case": i.get("case"), "same_trace_inputs": cnt.get(v["id"]), "events": events[:12]}
        verdict.disagree(cls, case, "%s%s" % (v["prop"], (" " + str(site)) if site else ""))
    return states, len(chunks)


def _selftests(wd, tracefile):
    """the binding, demonstrated: (a) one corrupted field -> VIOL; (b) one dropped event -> trace rejected"""
    lines = []
    with open(tracefile) as fh:
        for line in fh:
            lines.append(line)
            if len(lines) > 400 and '"ev":"Reset"' in line:
                break
    idx = next((i for i, l in enumerate(lines) if '"ev":"ReportError"' in l), None)
    ridx = next((i for i, l in enumerate(lines) if '"ev":"Return"' in l), None)
    if idx is None or ridx is None:
        raise vf.MachineryError("self-test: no ReportError / Return event in the recorded traces")
    # (a)
    a = list(lines)
    e = json.loads(a[idx])
    e["col"] = e["col"] + 100000
    a[idx] = json.dumps(e, separators=(",", ":")) + "\n"
    suba = os.path.join(wd, "selftest_a")
    os.makedirs(suba, exist_ok=True)
    _write(os.path.join(suba, "trace.ndjson"), "".join(a))
    # (b)
    b = list(lines)
    del b[ridx]
    subb = os.path.join(wd, "selftest_b")
    os.makedirs(subb, exist_ok=True)
    _write(os.path.join(subb, "trace.ndjson"), "".join(b))
    (ra, va, reja), (rb, vb, rejb) = _par([lambda: _validate(suba, len(a)), lambda: _validate(subb, len(b))])
    if reja or not any(v["prop"] == "errpos:column-not-in-line" and v["id"] == e["id"] for v in va):
        raise vf.MachineryError("self-test (a): corrupted column was not reported (viols=%s rej=%s)" % (va[:3], reja))
    if not rejb:
        raise vf.MachineryError("self-test (b): trace with a dropped Return event was accepted")
    return {"corrupt_field": "column +100000 in one ReportError -> VIOL errpos:column-not-in-line",
            "drop_event": "dropped one Return -> " + rejb[:160]}


def run_c12(pid, tier, replay):
    t0 = time.time()
    _T0[0] = t0
    wd, binary = _setup(pid)
    _log("driver built")
    verdict = vf.Verdict(pid)
    if replay:
        rep = json.load(open(replay))
        cases = []
        for e in rep["examples"]:
            c = e["case"]
            if c.get("input_b64") is not None:
                cases.append({"raw": c["input_b64"]})
            elif isinstance(c.get("case"), dict):
                cases.append(c["case"])
        vf.jsonl_write(wd + "/replay.jsonl", cases)
        _record_calls(binary, wd + "/replay.jsonl", wd + "/trace_replay.ndjson", wd + "/inputs_replay.jsonl", "replay")
        _judge("replay", wd + "/trace_replay.ndjson", wd + "/inputs_replay.jsonl", wd, verdict)
        print("replayed %d inputs" % len(cases))
        return verdict.finish()

    thorough = tier == "thorough"
    files = _base_measures(binary, wd)
    maxlen = 5 if thorough else 4
    simn, simd = (3000, 12) if thorough else (150, 10)
    stride = 1 if thorough else 97
    chain_stride = 401 if thorough else 2999

    def mc_contract():
        sub = os.path.join(wd, "contract")
        os.makedirs(sub, exist_ok=True)
        r = vf.tlc("MCParseCall", "MCParseCall.cfg", sub, workers=2, timeout=600, coverage=thorough)
        if r.violated:
            raise vf.MachineryError("ParseCall contract model: %s violated" % r.violated)
        if thorough and r.coverage_zero:
            raise vf.MachineryError("ParseCall contract model: actions never taken: %s" % r.coverage_zero)
        return r

    alpha = _q(ALPHABET)
    names = ["exh", "sim", "mut", "tok"] + (["chain"] if thorough else [])
    tokbounds = []
    thunks = [
        lambda: _tlc_cases("MCParseInputs", INPUTS_CFG % dict(maxlen=maxlen, bommax=maxlen - 1, emin=0, alpha=alpha), wd, "exh",
                           wd + "/cases_exh.jsonl", workers=8 if thorough else 6, timeout=2400),
        lambda: _tlc_cases("MCParseInputs", INPUTS_CFG % dict(maxlen=simd, bommax=simd, emin=simd, alpha=alpha), wd, "sim",
                           wd + "/cases_sim.jsonl", simulate=simn, depth=simd + 1,
                           dedupe_key=lambda o: str(o["bom"]) + "".join(o["text"])),
        lambda: _mutants(files, wd, "mut", wd + "/cases_mut.jsonl", stride),
        lambda: _token_cases(wd, thorough),
    ]
    if thorough:   # the quick tier keeps the number of JVM starts down
        thunks.append(lambda: _mutants(files, wd, "chain", wd + "/cases_chain.jsonl", chain_stride, chain=2))
        thunks.append(mc_contract)
    res = _par(thunks)
    contract = res[-1] if thorough else None
    gen = list(res[:len(names)])
    gen[3], tokbounds = gen[3]
    _log("TLC done: " + ", ".join("%s=%d/%.0fs" % (n, c, r.wall) for n, (r, c) in zip(names, gen)))
    fam = collections.OrderedDict()
    for name, (r, n) in zip(names, gen):
        fam[name] = {"tlc_states": r.distinct, "tlc_transitions": r.generated, "inputs": n}
    if fam["exh"]["inputs"] != sum(len(ALPHABET) ** k for k in range(maxlen + 1)) + sum(len(ALPHABET) ** k for k in range(maxlen)):
        raise vf.MachineryError("exhaustive enumeration incomplete: %d" % fam["exh"]["inputs"])

    # record: text families together, mutant families together
    with open(wd + "/cases_text.jsonl", "w") as out:
        for n in ("exh", "sim", "tok"):
            shutil.copyfileobj(open("%s/cases_%s.jsonl" % (wd, n)), out)
    with open(wd + "/cases_mutall.jsonl", "w") as out:
        for n in [x for x in names if x in ("mut", "chain")]:
            shutil.copyfileobj(open("%s/cases_%s.jsonl" % (wd, n)), out)
    st_text, st_mut = _par([
        lambda: _record_calls(binary, wd + "/cases_text.jsonl", wd + "/trace_text.ndjson", wd + "/inputs_text.jsonl", "text"),
        lambda: _record_calls(binary, wd + "/cases_mutall.jsonl", wd + "/trace_mut.ndjson", wd + "/inputs_mut.jsonl", "mutants",
                              modes="tolerant" if thorough else "tolerant,abort"),
    ])
    _log("recorded: text %s; mutants %s" % (st_text["stats"], st_mut["stats"]))
    judged = _par([(lambda family=family, tr=tr, inp=inp: _judge(family, wd + "/" + tr, wd + "/" + inp, wd, verdict,
                                                                 max_events=60000 if thorough else 10 ** 9))
                   for family, tr, inp in (("text", "trace_text.ndjson", "inputs_text.jsonl"),
                                           ("mutants", "trace_mut.ndjson", "inputs_mut.jsonl"))])
    vstates = sum(s for s, _c in judged)
    nchunks = sum(c for _s, c in judged)
    _log("validated: %d TLC states in %d chunks" % (vstates, nchunks))
    calls = st_text["stats"]["Calls"] + st_mut["stats"]["Calls"]
    distinct = st_text["stats"]["Distinct"] + st_mut["stats"]["Distinct"]
    events = st_text["stats"]["Events"] + st_mut["stats"]["Events"]
    if st_text["stats"]["WithErrors"] == 0 or st_mut["stats"]["WithErrors"] == 0 or st_mut["stats"]["DescErrors"] == 0:
        raise vf.MachineryError("C12 vacuous: no call reported an error")
    if vstates != events + nchunks:
        raise vf.MachineryError("C12: TLC consumed %d states for %d events in %d chunks" % (vstates, events, nchunks))
    selftest = _selftests(wd, wd + "/trace_text.ndjson") if thorough else "thorough tier only"

    samples = []
    with open(wd + "/trace_mut.ndjson") as fh:
        cur = []
        for line in fh:
            cur.append(json.loads(line))
            if cur[-1]["ev"] == "Reset":
                if 4 <= len(cur) <= 8 and len(samples) < 2:
                    samples.append(cur)
                cur = []
                if len(samples) >= 2:
                    break
    feats = collections.Counter()
    for st in (st_text, st_mut):
        for k, v in st["features"].items():
            feats[k] += v
    rc = verdict.finish()
    vf.write_evidence(pid, tier, "model_checking", {
        "states": vstates + (contract.distinct if contract else 0) + sum(f["tlc_states"] for f in fam.values()),
        "transitions": vstates + (contract.generated if contract else 0) + sum(f["tlc_transitions"] for f in fam.values()),
        "traces_validated_against_impl": calls,
        "evaluations": calls,
        "distinct_nontrivial": distinct,
        "rule": "a trace = one parser.Parse call (+ ResultFromAST) on one input with one reporter mode; traces that are "
                "identical event for event (same line table entries, same positions, same outcome) are validated once "
                "by TLC and counted with their multiplicity; distinct_nontrivial = number of distinct traces, each "
                "validated by TLC against ParseCallTrace",
        "samples": samples,
        "exhaustive": True,
        "families": fam,
        "bounds": {"exhaustive_maxlen": maxlen, "exhaustive_maxlen_after_bom": maxlen - 1, "alphabet": ALPHABET, "simulate": [simn, simd],
                   "token_families": ["%s/%s<=%d" % t for t in tokbounds], "mutation_stride": stride, "mutation_chain2_stride": chain_stride if thorough else None, "base_files": [f["name"] for f in files]},
        "trace_validation": {"events": events, "tlc_states": vstates, "chunks": nchunks,
                             "contract_model_states": contract.distinct if contract else "thorough tier only"},
        "call_features": dict(feats),
        "max_errors_in_one_call": max(st_text["stats"]["MaxErrorsInOneCall"], st_mut["stats"]["MaxErrorsInOneCall"]),
        "binding_selftests": selftest,
        "levels": {"exhaustive strings + simulated strings": "model_checking", "mutants of real files": "exploration"},
    }, ["ParseCall.tla is the contract (written from the property statement); SrcLines.tla (on SrcText) defines which positions exist",
        "for TLC-enumerated strings the line table is computed by TLC and the driver's own table must equal it on every input; "
        "for mutants of real files the table is the driver's",
        "an invalid UTF-8 byte counts as one column when deciding whether a column exists (permissive)",
        "a leading byte order mark is not part of the text: the line table is that of the input without it",
        "inputs are read from an in-memory reader (no I/O errors); file name fixed",
        "both reporter modes are recorded for the enumerated strings (and for mutants in the quick tier); thorough records mutants with the tolerant reporter only",
        "ToDescriptor = parser.ResultFromAST(ast, validate=true) with an error tolerant reporter; its reported positions must also exist in the input"],
        time.time() - t0, violations=len(verdict.violations), known=verdict.known_hits)
    return rc


def run(pid, tier, replay=None):
    if pid == "C13":
        return run_c13(pid, tier, replay)
    if pid == "C12":
        return run_c12(pid, tier, replay)
    raise vf.MachineryError("parsepos engine serves C12 and C13, not " + pid)
