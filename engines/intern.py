"""C38: string interning is a bijection, also under concurrency.

Specs: Char6.tla (inline encoding, arithmetic), SyncLog.tla (syncx.Log, one action per atomic memory
operation), Intern.tla (intern.Table on top of both + the property as a call/return monitor),
InternTrace.tla (trace validation).  Driver: harness/intern.

  model checking   MCChar6 (round trip / injectivity), MCSyncLog (returned index loadable, unique,
                   every Append returns), MCIntern (ids unique, Value(Intern(s)) = s, monitor accepts
                   every return = linearizability + Query-iff-interned, every call returns)
  direction A      MCChar6 exports (string, inline?, id) -> real Query / Intern / Value;
                   MCIntern exports one schedule per distinct terminal state (+ -simulate for longer
                   ones); the gate controller releases one real goroutine per model step and compares
                   the event the code logs with the event the model predicted
  direction B      hooked concurrent runs (every atomic step logged, gate+trace serialised) and runs
                   without hooks (call/return only, race detector undisturbed) validated by TLC
                   against InternTrace.tla; many runs per TLC run via "reset"
  native           sweep of the whole inline domain (round trip, and the spec's Encode formula)
"""
import json, os, time, hashlib, threading
from concurrent.futures import ThreadPoolExecutor
import vf

PROCS16 = "{" + ", ".join(str(i) for i in range(1, 17)) + "}"

C6_CFG = """SPECIFICATION Spec
CONSTANTS
  MaxLen = %d
  Alphabet = {%s}
INVARIANTS RoundTrip Injective Export
CHECK_DEADLOCK FALSE
"""

SL_CFG = """SPECIFICATION Spec
CONSTANTS
  Procs = {%s}
  NoVal = NoVal
  MaxOps = %d
  MaxAppends = %d
INVARIANTS Safe
%s
"""

IN_CFG = """SPECIFICATION Spec
CONSTANTS
  Procs = {%(procs)s}
  NoVal = NoVal
  MaxOps = %(maxops)d
  MaxSpin = 1
  Strs <- %(pool)s
  OpKinds = {%(ops)s}
  CapSet = {%(capset)s}
  GoCaps = %(gocaps)s
  SigMax = %(sig)d
VIEW view
INVARIANTS ISafe %(export)s
%(props)s
"""

TR_CFG = """SPECIFICATION TSpec
CONSTANTS
  Procs = %s
  NoVal = NoVal
  MaxOps = 100000000
  MaxSpin = 1
INVARIANTS %s
POSTCONDITION TraceAccepted
CHECK_DEADLOCK FALSE
"""

ALL_OPS = '"intern", "query", "value"'


def _stats(err):
    for line in err.splitlines():
        if line.startswith("STATS "):
            return json.loads(line[6:])
    return {}


def _vacuous(r):
    """Actions with no distinct and no generated states in the LAST coverage dump (TLC also prints
    interim dumps, in which late actions are still 0:0)."""
    import re
    txt = open(r.stdout_path).read()
    i = txt.rfind("The coverage statistics at")
    if i < 0:
        return ["no coverage statistics in " + r.stdout_path]
    zero = []
    for m in re.finditer(r"^<(\w+) line (\d+), col \d+ to line \d+, col \d+ of module (\w+)( \([\d ]+\))?>: (\d+):(\d+)", txt[i:], re.M):
        if m.group(5) == "0" and m.group(6) == "0":
            zero.append("%s@%s:%s%s" % (m.group(1), m.group(3), m.group(2), m.group(4) or ""))
    return zero


class Ctx:
    def __init__(self, pid, tier):
        self.pid, self.tier = pid, tier
        self.wd = vf.workdir(pid)
        self.verdict = vf.Verdict(pid)
        self.states = self.trans = 0
        self.traces = 0
        self.evals = 0
        self.nontrivial = 0
        self.samples = []
        self.bounds = []
        self.notes = {}
        self.workers = 2 if tier == "quick" else 4
        self.lock = threading.Lock()

    def add(self, **kw):
        with self.lock:
            for k, v in kw.items():
                setattr(self, k, getattr(self, k) + v)

    def sub(self, name):
        d = os.path.join(self.wd, name)
        os.makedirs(d, exist_ok=True)
        return d

    def mc(self, r, what):
        self.add(states=r.distinct, trans=r.generated)
        self.bounds.append(dict(what, states=r.distinct, transitions=r.generated, wall_s=round(r.wall, 1)))

    def driver_out(self, rc, out, err, what, ok_rcs=(0,)):
        """Common handling of a driver run: race reports and crashes of the code under test are
        verdicts, everything else that is not rc 0 is machinery."""
        if "WARNING: DATA RACE" in err or rc == 66:
            i = err.find("WARNING: DATA RACE")
            self.verdict.disagree("race:" + what, {"mode": what}, err[i:i + 2500])
            return
        if rc != 0 and ("fatal error:" in err or "SIGSEGV" in err) and "harness:" not in err:
            self.verdict.disagree("crash:" + what, {"mode": what}, err[-2500:])
            return
        if rc not in ok_rcs:
            raise vf.MachineryError("intern driver (%s) failed rc=%s: %s" % (what, rc, err[-1500:]))
        for line in (out or "").splitlines():
            if line.strip():
                m = json.loads(line)
                self.verdict.disagree(m["class"], m["case"], m["detail"])


# ---------------------------------------------------------------------------------------------
def job_char6(cx, binary, maxlen, alphabet):
    wd = cx.sub("char6")
    with open(wd + "/c6.cfg", "w") as fh:
        fh.write(C6_CFG % (maxlen, alphabet))
    casefile = wd + "/cases.jsonl"
    n = inl = 0
    with open(casefile, "w") as cf:
        def sink(o):
            nonlocal n, inl
            cf.write(json.dumps(o, separators=(",", ":")) + "\n")
            n += 1
            inl += 1 if o["inl"] else 0
            if o["inl"] and len(o["bs"]) == 4 and len(cx.samples) < 1:
                cx.samples.append({"kind": "char6", "case": o})
        r = vf.tlc("MCChar6", "c6.cfg", wd, workers=cx.workers, case_sink=sink, timeout=1500)
    if r.violated:
        raise vf.MachineryError("Char6.tla does not satisfy its own round trip: " + r.violated)
    cx.mc(r, {"run": "MCChar6", "maxlen": maxlen, "alphabet": alphabet})
    rc, out, err = vf.run_driver(binary, ["char6"], stdin_path=casefile, timeout=1500)
    cx.driver_out(rc, out, err, "char6")
    st = _stats(err)
    if st.get("cases") != n:
        raise vf.MachineryError("char6 driver saw %s of %d cases" % (st.get("cases"), n))
    cx.add(evals=n, nontrivial=inl, traces=n)
    cx.notes["char6_cases"] = n
    cx.notes["char6_inline_cases"] = inl
    return casefile


def job_sweep(cx, binary, maxlen):
    rc, out, err = vf.run_driver(binary, ["sweep", "-maxlen", str(maxlen)], timeout=3000)
    cx.driver_out(rc, out, err, "sweep")
    st = _stats(err)
    cx.notes["sweep"] = st
    cx.add(evals=st.get("strings", 0))


def job_synclog(cx, name, procs, maxops, maxapp, liveness, coverage=False):
    wd = cx.sub(name)
    with open(wd + "/sl.cfg", "w") as fh:
        fh.write(SL_CFG % (procs, maxops, maxapp, "PROPERTIES Completes" if liveness else ""))
    r = vf.tlc("MCSyncLog", "sl.cfg", wd, workers=cx.workers, timeout=3000, coverage=coverage)
    if r.violated:
        raise vf.MachineryError("SyncLog.tla violates %s in the model (not reproduced on the code): see %s"
                                % (r.violated, r.stdout_path))
    if coverage and _vacuous(r):
        raise vf.MachineryError("MCSyncLog: vacuous actions " + str(_vacuous(r)))
    cx.mc(r, {"run": "MCSyncLog/" + name, "procs": procs, "maxops": maxops, "maxappends": maxapp, "liveness": liveness})


def job_intern_mc(cx, name, procs, maxops, pool, ops, capset, liveness, coverage=False):
    wd = cx.sub(name)
    with open(wd + "/in.cfg", "w") as fh:
        fh.write(IN_CFG % dict(procs=procs, maxops=maxops, pool=pool, ops=ops, capset=capset, gocaps="FALSE",
                               sig=0, export="", props="PROPERTIES Completes" if liveness else ""))
    r = vf.tlc("MCIntern", "in.cfg", wd, workers=cx.workers, timeout=3000, coverage=coverage)
    if r.violated:
        raise vf.MachineryError("Intern.tla violates %s in the model (not reproduced on the code): see %s"
                                % (r.violated, r.stdout_path))
    if coverage and _vacuous(r):
        raise vf.MachineryError("MCIntern: vacuous actions " + str(_vacuous(r)))
    cx.mc(r, {"run": "MCIntern/" + name, "procs": procs, "maxops": maxops, "pool": pool, "ops": ops,
              "capset": capset, "liveness": liveness})


def _sched_key(o):
    return hashlib.sha1(json.dumps(o["steps"], sort_keys=True).encode()).hexdigest()


def job_replay(cx, binary, name, procs, maxops, pool, ops, sig, simulate=None, depth=None, limit=None):
    """TLC exports one schedule per distinct terminal state (or per simulated behaviour); the gate
    controller drives the real goroutines through each of them."""
    wd = cx.sub(name)
    with open(wd + "/ex.cfg", "w") as fh:
        fh.write(IN_CFG % dict(procs=procs, maxops=maxops, pool=pool, ops=ops, capset="1", gocaps="TRUE",
                               sig=sig, export="Export", props=""))
    schedfile = wd + "/sched.jsonl"
    seen = set()
    scheds = []

    def sink(o):
        k = _sched_key(o)
        if k in seen:
            return
        seen.add(k)
        scheds.append(o)
    r = vf.tlc("MCIntern", "ex.cfg", wd, workers=1 if simulate else cx.workers, simulate=simulate, depth=depth,
               tseed=vf.seed() if simulate else None, timeout=3000, case_sink=sink)
    if r.violated:
        raise vf.MachineryError("Intern.tla violates %s in the model: see %s" % (r.violated, r.stdout_path))
    if not simulate:
        cx.mc(r, {"run": "MCIntern/" + name, "procs": procs, "maxops": maxops, "pool": pool, "ops": ops,
                  "gocaps": True, "sig": sig, "schedules": len(scheds)})
    if limit and len(scheds) > limit:
        scheds = vf.rng().sample(scheds, limit)
    if not scheds:
        raise vf.MachineryError("no schedules exported by " + name)
    vf.jsonl_write(schedfile, scheds)
    rc, out, err = vf.run_driver(binary, ["replay", "-stall", "10000"], stdin_path=schedfile, timeout=3000)
    cx.driver_out(rc, out, err, "replay")
    st = _stats(err)
    if not cx.verdict.violations and st.get("schedules") != len(scheds):
        raise vf.MachineryError("replay driver consumed %s of %d schedules" % (st.get("schedules"), len(scheds)))
    cx.add(traces=st.get("schedules", 0), evals=st.get("steps", 0))
    contested = sum(1 for s in scheds if any((e["ev"] in ("los.read", "q.read") and e["id"] == 0) or
                                             (e["ev"] == "los" and e["loaded"]) for e in s["steps"]))
    cx.add(nontrivial=contested)
    cx.notes.setdefault("replay", []).append({"run": name, "schedules": len(scheds), "steps": st.get("steps"),
                                              "contested": contested, "simulate": simulate})
    if len(cx.samples) < 3:
        pick = next((s for s in scheds if any(e["ev"] == "los.read" and e["id"] == 0 for e in s["steps"])), scheds[0])
        cx.samples.append({"kind": "schedule", "steps": [{k: e[k] for k in ("g", "ev", "s", "id", "loaded", "i")}
                                                          for e in pick["steps"]][:45]})
    return schedfile


def _split_trace(path, nchunks):
    """Split an ndjson trace at 'reset' events into nchunks files of similar size."""
    batches, cur = [], []
    with open(path) as fh:
        for line in fh:
            if '"ev":"reset"' in line and cur:
                batches.append(cur)
                cur = []
            cur.append(line)
    if cur:
        batches.append(cur)
    nchunks = max(1, min(nchunks, len(batches)))
    chunks = [[] for _ in range(nchunks)]
    sizes = [0] * nchunks
    for b in batches:
        k = sizes.index(min(sizes))
        chunks[k].append(b)
        sizes[k] += len(b)
    return chunks, len(batches)


def validate_trace(cx, wd, lines, mode, inv):
    """Run TLC on InternTrace with the given event lines.  Returns None if accepted, else a dict
    describing the first unmatched event."""
    os.makedirs(wd, exist_ok=True)
    with open(wd + "/intern_trace.ndjson", "w") as fh:
        fh.writelines(lines)
    with open(wd + "/tr.cfg", "w") as fh:
        fh.write(TR_CFG % (PROCS16, inv))
    r = vf.tlc("InternTrace", "tr.cfg", wd, workers=1, timeout=3000)
    n = len(lines)
    cx.add(trans=r.generated)
    if r.violated is None and not r.postcondition_failed and r.depth - 1 == n:
        return None
    d = r.depth if r.depth else 1
    k = min(max(d, 1), n)          # 1-based index of the first event that was not matched
    if r.violated:
        k = min(max(d - 1, 1), n)  # the invariant failed in the state after event d-1
    lo = k - 1
    while lo > 0 and '"ev":"reset"' not in lines[lo]:
        lo -= 1
    ev = json.loads(lines[k - 1])
    return {"mode": mode, "seed": vf.seed(), "event": ev, "index_in_run": k - lo, "invariant": r.violated,
            "run_prefix": [json.loads(x) for x in lines[lo:k]][-6000:], "tlc_out": r.stdout_path}


def job_trace(cx, binary, mode, batches, ops, ming, maxg, nchunks, seed):
    wd = cx.sub(mode)
    tr = wd + "/all.ndjson"
    rc, out, err = vf.run_driver(binary, [mode, "-out", tr, "-seed", str(seed), "-batches", str(batches),
                                          "-ops", str(ops), "-ming", str(ming), "-maxg", str(maxg)], timeout=1500)
    cx.driver_out(rc, out, err, mode)
    st = _stats(err)
    if not st:
        if cx.verdict.violations:
            return None
        raise vf.MachineryError("no STATS from %s run: %s" % (mode, err[-800:]))
    cx.notes.setdefault("runs", []).append(st)
    chunks, nb = _split_trace(tr, nchunks)
    inv = "ISafe" if mode == "record" else "MonSafe"

    def one(k):
        lines = [ln for b in chunks[k] for ln in b]
        return validate_trace(cx, "%s/chunk%d" % (wd, k), lines, mode, inv), len(lines)
    with ThreadPoolExecutor(max_workers=len(chunks)) as ex:
        results = list(ex.map(one, range(len(chunks))))
    for rej, n in results:
        cx.add(evals=n)
        if rej:
            what = ("invariant:" + rej["invariant"]) if rej["invariant"] else rej["event"]["ev"]
            cx.verdict.disagree("trace-reject:%s:%s" % (mode, what), rej,
                                "TLC could not match event #%d of a recorded run against InternTrace.tla" % rej["index_in_run"])
    cx.add(traces=nb)
    if mode == "record":
        cx.add(nontrivial=st.get("Retries", 0) + st.get("Reserved0", 0) + st.get("LosLoaded", 0))
    if mode == "record" and len(cx.samples) < 4 and chunks and chunks[0]:
        cx.samples.append({"kind": "hooked-trace-excerpt", "events": [json.loads(x) for x in chunks[0][0][:14]]})
    return chunks


def selftests(cx, binary, chunks, casefile, schedfile):
    """Demonstrate the binding: every corruption must be rejected, otherwise the machinery is broken."""
    done = {}
    # 1/2: trace - corrupt one field, drop one event
    lines = [ln for b in chunks[0][:6] for ln in b]
    idx = next((i for i, ln in enumerate(lines) if '"ev":"commit"' in ln), None)
    if idx is None:
        raise vf.MachineryError("selftest: no commit event in the first recorded runs")
    e = json.loads(lines[idx])
    e["id"] += 1
    bad = lines[:idx] + [json.dumps(e, separators=(",", ":")) + "\n"] + lines[idx + 1:]
    rej = validate_trace(cx, cx.sub("self_corrupt"), bad, "record", "ISafe")
    done["corrupt-commit-id"] = bool(rej)
    idx = next((i for i, ln in enumerate(lines) if '"ev":"los"' in ln and '"ok":false' in ln), None)
    if idx is None:
        raise vf.MachineryError("selftest: no los event")
    rej = validate_trace(cx, cx.sub("self_drop"), lines[:idx] + lines[idx + 1:], "record", "ISafe")
    done["drop-los-event"] = bool(rej)
    # 3: char6 expectation off by one
    cases = [c for c in vf.jsonl_read(casefile) if c["inl"] and c["bs"]][:5]
    for c in cases:
        c["id"] += 1
    p = cx.sub("self_c6") + "/cases.jsonl"
    vf.jsonl_write(p, cases)
    rc, out, err = vf.run_driver(binary, ["char6"], stdin_path=p, timeout=600)
    done["corrupt-char6-id"] = rc == 0 and out.count('"char6:encode"') == len(cases)
    # 4: schedule with a flipped LoadOrStore outcome
    scheds = vf.jsonl_read(schedfile)[:200]
    s = next((s for s in scheds if any(e["ev"] == "los" for e in s["steps"])), None)
    if s is None:
        raise vf.MachineryError("selftest: no schedule with a los step")
    for e in s["steps"]:
        if e["ev"] == "los":
            e["loaded"] = not e["loaded"]
            break
    p = cx.sub("self_replay") + "/sched.jsonl"
    vf.jsonl_write(p, [s])
    rc, out, err = vf.run_driver(binary, ["replay", "-stall", "3000"], stdin_path=p, timeout=600)
    done["corrupt-schedule-outcome"] = rc == 0 and "replay:event-mismatch:los" in out
    cx.notes["binding_selftests"] = done
    if not all(done.values()):
        raise vf.MachineryError("binding self-test not rejected: " + json.dumps(done))


def do_replay_file(cx, binary, path):
    rep = json.load(open(path))
    wd = cx.sub("replayfile")
    for ex in rep["examples"]:
        c = ex["case"]
        if rep["class"].startswith("sweep:"):
            job_sweep(cx, binary, 4)
            break
        elif "bs" in c:
            p = wd + "/c.jsonl"
            vf.jsonl_write(p, [c])
            rc, out, err = vf.run_driver(binary, ["char6"], stdin_path=p, timeout=600)
            cx.driver_out(rc, out, err, "char6")
        elif "steps" in c:
            p = wd + "/s.jsonl"
            vf.jsonl_write(p, [{"steps": c["steps"]}])
            rc, out, err = vf.run_driver(binary, ["replay", "-stall", "10000"], stdin_path=p, timeout=600)
            cx.driver_out(rc, out, err, "replay")
        elif "run_prefix" in c:
            # a recorded run cannot be re-executed: repeat the workload of that mode (same seed) on the
            # current code and validate the new traces
            os.environ["VERIF_SEED"] = str(c.get("seed", vf.seed()))
            job_trace(cx, binary, c["mode"], 60, 10, 2, 16, 2, c.get("seed", vf.seed()))
            break
        elif c.get("mode") in ("record", "api"):
            # race / crash reports have no input to replay: repeat the concurrent runs of that mode
            job_trace(cx, binary, c["mode"], 40, 10, 2, 16, 2, vf.seed())
        elif c.get("mode") == "replay":
            job_replay(cx, binary, "rp_2x2", "1, 2", 2, "Pool2", ALL_OPS, 2)
    return cx.verdict.finish()


# ---------------------------------------------------------------------------------------------
def run(pid, tier, replay=None):
    t0 = time.time()
    cx = Ctx(pid, tier)
    seed = vf.seed()
    race_bin = vf.build_driver("intern", race=True)
    if replay:
        return do_replay_file(cx, race_bin, replay)
    thorough = tier == "thorough"
    plain_bin = vf.build_driver("intern") if thorough else race_bin
    alpha6 = "48, 97, 90, 95, 46, 45"
    jobs = []
    holder = {}
    with ThreadPoolExecutor(max_workers=5 if thorough else 7) as ex:
        def submit(name, fn, *a, **kw):
            jobs.append((name, ex.submit(fn, *a, **kw)))
        if thorough:
            submit("char6", lambda: holder.__setitem__("casefile", job_char6(cx, race_bin, 6, alpha6 + ", 255")))
            submit("sweep", job_sweep, cx, plain_bin, 5)
            submit("synclog", job_synclog, cx, "synclog", "1, 2, 3", 2, 3, False)
            submit("synclog-live", job_synclog, cx, "synclog_live", "1, 2", 3, 4, True, True)
            submit("mc22", job_intern_mc, cx, "mc_2x2", "1, 2", 2, "Pool2e", ALL_OPS, "1, 3", False)
            submit("mc31", job_intern_mc, cx, "mc_3x1", "1, 2, 3", 1, "Pool3", '"intern"', "1, 3", False)
            submit("mc32", job_intern_mc, cx, "mc_3x2", "1, 2, 3", 2, "Pool1", '"intern", "query"', "1, 3", False)
            submit("mclive2", job_intern_mc, cx, "mc_live2", "1, 2", 2, "Pool1", ALL_OPS, "1, 3", True, True)
            submit("mclive3", job_intern_mc, cx, "mc_live3", "1, 2, 3", 1, "Pool1", '"intern"', "1, 3", True)
            submit("replay22", lambda: holder.__setitem__("schedfile", job_replay(
                cx, race_bin, "rp_2x2", "1, 2", 2, "Pool2", ALL_OPS, 2)))
            submit("replay31", job_replay, cx, race_bin, "rp_3x1", "1, 2, 3", 1, "Pool2", '"intern"', 3)
            submit("replay23", job_replay, cx, race_bin, "rp_2x3", "1, 2", 3, "Pool1", ALL_OPS, 2)
            submit("replaysim", job_replay, cx, race_bin, "rp_sim", "1, 2, 3", 3, "Pool3", ALL_OPS, 0,
                   simulate=600, depth=110)
            submit("record", lambda: holder.__setitem__("chunks", job_trace(
                cx, race_bin, "record", 260, 10, 2, 16, 4, seed)))
            submit("api", job_trace, cx, race_bin, "api", 1500, 12, 2, 16, 4, seed)
        else:
            submit("char6", lambda: holder.__setitem__("casefile", job_char6(cx, race_bin, 5, alpha6)))
            submit("sweep", job_sweep, cx, race_bin, 3)
            submit("synclog", job_synclog, cx, "synclog", "1, 2", 3, 4, False)
            submit("mc", job_intern_mc, cx, "mc_2x2", "1, 2", 2, "Pool1", ALL_OPS, "1, 3", False)
            submit("replay", lambda: holder.__setitem__("schedfile", job_replay(
                cx, race_bin, "rp_2x2", "1, 2", 2, "Pool1", ALL_OPS, 2)))
            submit("replaysim", job_replay, cx, race_bin, "rp_sim", "1, 2, 3", 2, "Pool3", ALL_OPS, 0,
                   simulate=150, depth=80)
            submit("record", lambda: holder.__setitem__("chunks", job_trace(
                cx, race_bin, "record", 24, 8, 2, 16, 1, seed)))
            submit("api", job_trace, cx, race_bin, "api", 120, 10, 2, 16, 1, seed)
        errors = []
        for name, fut in jobs:
            try:
                fut.result()
            except vf.MachineryError as e:
                errors.append("%s: %s" % (name, e))
    if errors and not cx.verdict.violations:
        raise vf.MachineryError("; ".join(errors)[:4000])
    for e in errors:
        print("NOTE: machinery error next to the violations below: " + e[:600], flush=True)
    if thorough and not cx.verdict.violations:
        selftests(cx, race_bin, holder["chunks"], holder["casefile"], holder["schedfile"])
    rc = cx.verdict.finish()
    vf.write_evidence(pid, tier, "model_checking", {
        "states": cx.states, "transitions": cx.trans,
        "traces_validated_against_impl": cx.traces,
        "evaluations": cx.evals, "distinct_nontrivial": cx.nontrivial,
        "rule": "traces = TLC-exported char6 cases replayed + TLC-exported schedules driven through the gates + "
                "recorded concurrent runs (hooked and unhooked) accepted by TLC against InternTrace.tla; "
                "evaluations = char6 cases + natively swept strings + replayed schedule steps + validated trace "
                "events; non-trivial = inline-encodable char6 cases + schedules containing a contested outcome "
                "(slot found reserved / already taken) + contested outcomes observed in hooked runs",
        "samples": cx.samples or [{"note": "see .work"}],
        "exhaustive": True,
        "bounds": cx.bounds,
        "details": cx.notes,
    }, ["Char6.tla is written from the ID doc comment (alphabet order, 077 padding, no trailing '.'), not from char6.go",
        "Intern.tla / SyncLog.tla follow the code's atomic operations; the properties (monitor, Loadable) come from the statement",
        "id exhaustion (2^31 entries, poisoned keys) is not modelled",
        "hooked runs serialise each gate..trace-point pair with a harness lock hidden from the race detector "
        "(runtime.RaceDisable), so logged order = order of effect and the detector still judges the table's own synchronisation",
        "sync.Map and sync/atomic are trusted to be linearizable",
        "the native sweep compares with a Go transcription of Char6!Encode in addition to the round trip"],
        time.time() - t0, violations=len(cx.verdict.violations), known=cx.verdict.known_hits)
    return rc
