"""C36 (diagnostics are deterministic) and C37 (diagnostic reports survive serialization).

Specifications (spec/):
  Report.tla           the report data model through its public constructors, the protobuf form and
                       the round trip (C37), Canonicalize as documented + order-independence and
                       idempotence (C36 part ii)
  ReportUniverse.tla   diagnostics that tie on every prefix of the sort key and on the whole key
  MCReportRT.tla       C37: every report within a budget of elements -> expected proto form + round trip
  MCReportCanon.tla    C36: every multiset of <= n diagnostics x every permutation -> expected canonical list
  MCReportOps.tla      both: Push / Permute / Canonicalize / RoundTrip as actions, behaviours replayed
                       step by step (tlc -simulate)
  DiagWorkspace.tla, MCDiagWorkspace.tla
                       C36 part (i): invalid multi-file workspaces (import graphs x per-file defects);
                       the real experimental compiler is run on each at parallelism 1..16, repeatedly,
                       and the canonicalized reports must be identical
Driver: harness/reportdrv (modes rt, canon, ops, ws)."""
import json, os, time, collections, random
import vf

WORKERS = int(os.environ.get("VERIF_TLC_WORKERS", "4"))


# ------------------------------------------------------------------------------------------------
# helpers

def _tlc_to_file(module, cfg_name, cfg_text, wd, casefile, simulate=None, depth=None, coverage=False,
                 timeout=1500, keep=None, workers=None):
    """Run TLC, stream CASE lines into casefile (optionally filtered by keep(obj)).
    Returns (TLCResult, number written, number exported)."""
    with open(os.path.join(wd, cfg_name), "w") as fh:
        fh.write(cfg_text)
    n = [0, 0]
    with open(casefile, "w") as cf:
        def sink(o):
            n[1] += 1
            if keep is not None and not keep(o):
                return
            cf.write(json.dumps(o, separators=(",", ":")) + "\n")
            n[0] += 1
        r = vf.tlc(module, cfg_name, wd, workers=1 if simulate else (workers or WORKERS), simulate=simulate,
                   depth=depth, tseed=vf.seed() if simulate else None, case_sink=sink, timeout=timeout,
                   coverage=coverage and not simulate)
    if r.violated:
        raise vf.MachineryError("spec-level check failed in %s/%s: %s (see %s)" %
                                (module, cfg_name, r.violated, r.stdout_path))
    if coverage and not simulate and r.coverage_zero:
        raise vf.MachineryError("vacuous: actions never taken in %s/%s: %s" % (module, cfg_name, r.coverage_zero))
    return r, n[0], n[1]


def _drive(binary, mode, casefile, args=(), timeout=3000):
    """Run the driver on a case file; returns (list of mismatch dicts, stats dict)."""
    rc, out, err = vf.run_driver(binary, [mode] + list(args), stdin_path=casefile, timeout=timeout)
    if rc != 0:
        raise vf.MachineryError("reportdrv %s failed (rc=%s): %s" % (mode, rc, err[-2000:]))
    stats = {}
    for line in err.splitlines():
        if line.startswith("STATS "):
            stats = json.loads(line[6:])
    if not stats:
        raise vf.MachineryError("reportdrv %s printed no STATS: %s" % (mode, err[-1000:]))
    mism = [json.loads(l) for l in out.splitlines() if l.strip()]
    # exhaustive exports reach hundreds of MB: keep only the head of the file once it has been replayed
    if os.path.getsize(casefile) > 64 << 20:
        with open(casefile) as fh:
            head = [next(fh) for _ in range(2000)]
        with open(casefile, "w") as fh:
            fh.writelines(head)
            fh.write(json.dumps({"kind": "note", "note": "file truncated after replay (first 2000 cases kept)"}) + "\n")
    return mism, stats


def _feed(verdict, mism, accept=None):
    """Hand mismatches to the verdict.  build:/expectation: classes mean the harness and the spec
    disagree about what was constructed: machinery, not a verdict about the property."""
    for m in mism:
        cls = m["class"]
        if cls.startswith("build:") or cls.startswith("expectation:"):
            raise vf.MachineryError("harness/spec disagreement %s: %s case=%s" %
                                    (cls, m.get("detail"), json.dumps(m.get("case"))[:600]))
        if accept is not None and not accept(cls):
            continue
        verdict.disagree(cls, m.get("case"), m.get("detail", ""))


def _selftest(binary, wd, mode, case, mutate, expect_prefix):
    """Binding demonstration: corrupt one exported expectation, the driver must reject it."""
    good = os.path.join(wd, "selftest_%s_good.jsonl" % mode)
    bad = os.path.join(wd, "selftest_%s_bad.jsonl" % mode)
    vf.jsonl_write(good, [case])
    c2 = json.loads(json.dumps(case))
    mutate(c2)
    vf.jsonl_write(bad, [c2])
    m_good, _ = _drive(binary, mode, good)
    m_bad, _ = _drive(binary, mode, bad)
    if m_good:
        return  # the untouched case already disagrees (a finding); nothing to demonstrate on it
    if not any(m["class"].startswith(expect_prefix) for m in m_bad):
        raise vf.MachineryError("binding self-test failed: corrupted %s expectation was not rejected (%s)" %
                                (mode, [m["class"] for m in m_bad]))


def _first(path, pred):
    with open(path) as fh:
        for line in fh:
            o = json.loads(line)
            if pred(o):
                return o
    return None


def _replay(pid, replay, binary, wd):
    rep = json.load(open(replay))
    verdict = vf.Verdict(pid)
    by_kind = collections.defaultdict(list)
    for e in rep.get("examples", []):
        c = e.get("case")
        if c:
            by_kind[c.get("kind")].append(c)
    total = 0
    for kind, cases in by_kind.items():
        f = os.path.join(wd, "replay_%s.jsonl" % kind)
        vf.jsonl_write(f, cases)
        args = ["-pars", ",".join(str(i) for i in range(1, 17)), "-reps", "4", "-holdpars", "2,4,16",
                "-seed", str(vf.seed())] if kind == "ws" else []
        mism, _ = _drive(binary, kind, f, args)
        total += len(cases)
        _feed(verdict, mism, accept=_ACCEPT[pid])
    print("replayed %d case(s) from %s" % (total, replay))
    return verdict.finish()


_ACCEPT = {
    # ops cases serve both properties; each property only judges its own operations
    "C37": lambda cls: not cls.startswith("ops:canon"),
    "C36": lambda cls: not cls.startswith("ops:roundtrip"),
}


# ------------------------------------------------------------------------------------------------
# C37

RT_CFG = """SPECIFICATION Spec
CONSTANTS
  Files <- %(files)s
  MaxDiags = %(maxdiags)d
  Budget = %(budget)d
  MaxAnns = %(maxanns)d
  MaxEdits = %(maxedits)d
  MaxTexts = %(maxtexts)d
  LevelSet = {"ice", "error", "warning", "remark"}
  MsgSet = {%(msgs)s}
  StageSet = {%(stages)s}
  TagSet = {"t"}
  InFileSet = {"a.proto", "z.proto"}
  AnnMsgSet = {%(annmsgs)s}
  ReplaceSet = {%(repl)s}
  TextSet = {%(texts)s}
  ExportMin = %(exportmin)d
INVARIANTS SpecRoundTrip Export
CHECK_DEADLOCK FALSE
"""

OPS_CFG = """SPECIFICATION Spec
CONSTANTS
  MaxDiags = %(maxdiags)d
  MaxOps = %(maxops)d
  Dist = %(dist)d
  BaseTag = "%(basetag)s"
  ExtraDim <- %(extras)s
INVARIANTS StepProps Export
CHECK_DEADLOCK FALSE
"""


def _rt_features(c):
    """abstract feature vector of an rt case (for distinct_nontrivial)"""
    f = set()
    ftext = {x["path"]: x["text"] for x in c["files"]}
    f.add("diags=%d" % len(c["diags"]))
    for d in c["diags"]:
        f.add("level:" + d["level"])
        if d["tag"]:
            f.add("tag")
        if d["inFile"]:
            f.add("infile")
        if d["stage"]:
            f.add("stage")
        for k in ("notes", "help", "debug"):
            if d[k]:
                f.add(k + "=%d" % len(d[k]))
        f.add("anns=%d" % len(d["anns"]))
        for a in d["anns"]:
            n = len(ftext[a["path"]])
            if n == 0:
                f.add("span-in-empty-file")
            elif a["start"] == n:
                f.add("zero-width-at-eof")
            elif a["start"] == a["end"]:
                f.add("zero-width-inside")
            elif a["start"] == 0 and a["end"] == n:
                f.add("whole-file")
            else:
                f.add("proper-subspan")
            if a["msg"]:
                f.add("ann-msg")
            if a["pb"]:
                f.add("page-break")
            if a["edits"]:
                f.add("edits=%d" % len(a["edits"]))
            if not a["primary"]:
                f.add("secondary")
    if len({a["path"] for d in c["diags"] for a in d["anns"]}) > 1:
        f.add("two-files")
    return tuple(sorted(f))


def run_c37(pid, tier, replay):
    t0 = time.time()
    wd = vf.workdir(pid)
    binary = vf.build_driver("reportdrv")
    if replay:
        return _replay(pid, replay, binary, wd)
    rich = dict(msgs='"m", "mu", "ml"', annmsgs='"", "am", "au"', repl='"", "r", "ru"', texts='"x1", "x2"')
    plain = dict(msgs='"m"', annmsgs='"", "am"', repl='"", "r"', texts='"x1"')
    if tier == "thorough":
        runs = [
            ("exh23", "MCReportRT", RT_CFG % dict(plain, files="FilesAE", maxdiags=2, budget=3, maxanns=2, maxedits=1,
                                                    maxtexts=1, stages="0", exportmin=1), None, None),
            ("exh14", "MCReportRT", RT_CFG % dict(plain, files="FilesAE", maxdiags=1, budget=4, maxanns=2, maxedits=2,
                                                    maxtexts=2, stages="0", exportmin=1), None, None),
            ("sim", "MCReportRT", RT_CFG % dict(rich, files="FilesABE", maxdiags=4, budget=14, maxanns=3, maxedits=2,
                                                  maxtexts=2, stages="0, 1", exportmin=2), 1500, 24),
        ]
        ops = dict(maxdiags=3, maxops=7, dist=2, basetag="t", num=400, extras="ExtrasBasic")
    else:
        runs = [
            ("exh22", "MCReportRT", RT_CFG % dict(plain, files="FilesAE", maxdiags=2, budget=2, maxanns=2, maxedits=1,
                                                    maxtexts=1, stages="0", exportmin=1), None, None),
            ("sim", "MCReportRT", RT_CFG % dict(rich, files="FilesABE", maxdiags=4, budget=14, maxanns=3, maxedits=2,
                                                  maxtexts=2, stages="0, 1", exportmin=2), 150, 24),
        ]
        ops = dict(maxdiags=3, maxops=6, dist=1, basetag="t", num=40, extras="ExtrasFull")
    verdict = vf.Verdict(pid)
    states = trans = ncases = checks = 0
    feats = set()
    samples = []
    bounds = []
    selftested = False
    for name, module, cfg, sim, depth in runs:
        casefile = os.path.join(wd, "cases_%s.jsonl" % name)
        seen = set()

        def keep(o, seen=seen):
            if o.get("kind") == "meta":
                if "meta" in seen:
                    return False
                seen.add("meta")
                return True
            if sim:  # simulation revisits states; exhaustive runs never export a state twice
                key = json.dumps(o["diags"], sort_keys=True)
                if key in seen:
                    return False
                seen.add(key)
            feats.add(_rt_features(o))
            if len(samples) < 3 and len(o["diags"]) >= 2 and any(d["anns"] for d in o["diags"]) and len(_rt_features(o)) >= 8:
                samples.append(o)
            return True
        r, n, _ = _tlc_to_file(module, "MCReportRT_%s.cfg" % name, cfg, wd, casefile, simulate=sim, depth=depth,
                               coverage=(tier == "thorough"), keep=keep)
        states += r.distinct
        trans += r.generated
        mism, st = _drive(binary, "rt", casefile)
        ncases += st["cases"]
        checks += st["checks"]
        _feed(verdict, mism, accept=_ACCEPT[pid])
        bounds.append({"run": name, "module": module, "simulate": sim, "states": r.distinct, "cases": st["cases"]})
        if not selftested:
            c = _first(casefile, lambda o: o.get("kind") == "rt" and any(d["anns"] for d in o["diags"]))
            if c:
                def mutate(c2):
                    c2["expect"][0]["msg"] = "n" if c2["expect"][0]["msg"] != "n" else "m"
                _selftest(binary, wd, "rt", c, mutate, "")
                selftested = True
    # operation sequences (Push / Permute / Canonicalize / RoundTrip), step by step
    ops_cases = ops_steps = 0
    if ops:
        casefile = os.path.join(wd, "cases_ops.jsonl")
        r, n, _ = _tlc_to_file("MCReportOps", "MCReportOps_sim.cfg", OPS_CFG % ops, wd, casefile,
                               simulate=ops["num"], depth=ops["maxops"] + 1)
        trans += r.generated
        mism, st = _drive(binary, "ops", casefile)
        _feed(verdict, mism, accept=_ACCEPT[pid])
        ops_cases, ops_steps = st["cases"], st["steps"]
        bounds.append({"run": "ops", "module": "MCReportOps", "simulate": ops["num"], "cases": ops_cases, "steps": ops_steps})
    rc = verdict.finish()
    vf.write_evidence(pid, tier, "model_checking", {
        "states": states, "transitions": trans,
        "traces_validated_against_impl": ncases + ops_cases,
        "evaluations": checks + ops_steps, "distinct_nontrivial": len(feats),
        "rule": "a case = one report built through the public constructors (every report within the element budget, "
                "exhaustively; larger random ones from tlc -simulate); evaluations = per case: ToProto vs the expected "
                "protobuf form, AppendFromProto of the expected form, the full ToProto->bytes->AppendFromProto chain, "
                "plus every step of the operation-sequence cases; distinct_nontrivial = distinct abstract feature "
                "vectors (levels, tag, in-file, stage, #annotations, span position class incl. zero-width at EOF and "
                "empty file, edits, page break, notes/help/debug, one/two files)",
        "samples": samples or [{"note": "see .work/%s/cases_*.jsonl" % pid}],
        "exhaustive": True, "bounds": bounds,
    }, ["Report.tla (data model, protobuf form, round trip) is written from the property statement, report.proto "
        "and the doc comments, not from report.go",
        "unexported fields of report.Diagnostic are read by reflection (cross-checked against the public accessors "
        "and the rendering); the sort order (stage) is not part of the protobuf form and is not compared",
        "message / tag / path strings are concretised from a small token set (ASCII, multi-byte, multi-line, %-verbs); "
        "file texts over the byte classes letter / LF / 0xFF"],
        time.time() - t0, violations=len(verdict.violations), known=verdict.known_hits)
    return rc


# ------------------------------------------------------------------------------------------------
# C36

CANON_CFG = """SPECIFICATION Spec
CONSTANTS
  MaxDiags = %(maxdiags)d
  Dist = %(dist)d
  ExportMin = %(exportmin)d
  BaseTag = "%(basetag)s"
  ExtraDim <- %(extras)s
  CoreExtras <- %(core)s
INVARIANTS SpecCanon Export
CHECK_DEADLOCK FALSE
"""

WS_CFG = """SPECIFICATION Spec
CONSTANTS
  NFilesSet = {%(n)s}
  Kinds = {%(kinds)s}
  MaxImports = %(maximports)d
  AllowSelf = %(allowself)s
  MissingChoices = {%(missing)s}
  RevChoices = {%(rev)s}
  InWsChoices = {TRUE, FALSE}
  OnlyPinned = %(pinned)s
INVARIANTS Export
CHECK_DEADLOCK FALSE
"""

ALL_KINDS = '"ok", "unknown", "dup", "syntax", "shared", "extclash"'
# the shape in which only the ORDER of lowering two imports can differ between schedules: a workspace
# file importing two files that are not in the workspace and clash (symbol name / extension number)
PINNED = dict(n="3", kinds='"ok", "shared", "extclash"', maximports=2, allowself="FALSE", missing="FALSE", pinned="TRUE")
GENERAL = dict(kinds=ALL_KINDS, maximports=2, allowself="TRUE", missing="TRUE, FALSE", pinned="FALSE")


def _ws_select(path_in, path_out, rng, n_acyclic, n_cyclic):
    """Seed-selected sample of workspace cases, all acyclic ones first (that is where the property
    must hold; cyclic ones are the known finding)."""
    cases = vf.jsonl_read(path_in)
    seen = set()
    uniq = []
    for c in cases:
        k = json.dumps([c["files"], c["rev"]], sort_keys=True)
        if k not in seen:
            seen.add(k)
            uniq.append(c)
    acyc = [c for c in uniq if not c["cyclic"]]
    cyc = [c for c in uniq if c["cyclic"]]
    sel = vf.sample(rng, acyc, n_acyclic) + vf.sample(rng, cyc, n_cyclic)
    vf.jsonl_write(path_out, sel)
    return sel


def run_c36(pid, tier, replay):
    t0 = time.time()
    wd = vf.workdir(pid)
    binary = vf.build_driver("reportdrv")
    if replay:
        return _replay(pid, replay, binary, wd)
    rng = vf.rng()
    thorough = tier == "thorough"
    verdict = vf.Verdict(pid)
    states = trans = 0
    bounds = []
    samples = []

    # ---- part (ii): Canonicalize, every permutation -------------------------------------------
    if thorough:
        canon_runs = [("d2n3", dict(maxdiags=3, dist=2, exportmin=1, basetag="", extras="ExtrasBasic", core="ExtrasBasic")),
                      ("d1n3full", dict(maxdiags=3, dist=1, exportmin=1, basetag="t", extras="ExtrasFull", core="ExtrasFull")),
                      ("d1n4", dict(maxdiags=4, dist=1, exportmin=4, basetag="t", extras="ExtrasBasic", core="ExtrasBasic"))]
    else:
        # every pair over the full universe (for every field of a diagnostic two members differ only in it),
        # triples over the basic one
        canon_runs = [("d1n3", dict(maxdiags=3, dist=1, exportmin=1, basetag="t", extras="ExtrasFull", core="ExtrasBasic"))]
    canon_cases = canon_calls = tie_cases = 0
    selftested = False
    for name, p in canon_runs:
        casefile = os.path.join(wd, "cases_canon_%s.jsonl" % name)
        # no -coverage here: TLC's cost accounting of the constant tables (ReportUniverse, the 40-component
        # tie keys) does not terminate in reasonable time; the model has a single action (Push) and vacuity
        # is checked on the replayed cases instead
        r, n, _ = _tlc_to_file("MCReportCanon", "MCReportCanon_%s.cfg" % name, CANON_CFG % p, wd, casefile,
                               coverage=False, timeout=2400)
        if n < 2 or r.distinct < 2:
            raise vf.MachineryError("MCReportCanon/%s exported no cases" % name)
        states += r.distinct
        trans += r.generated
        mism, st = _drive(binary, "canon", casefile)
        _feed(verdict, mism, accept=_ACCEPT[pid])
        canon_cases += st["cases"]
        canon_calls += st["canonicalize_calls"]
        tie_cases += st["tie_cases"]
        if st["tie_cases"] == 0:
            raise vf.MachineryError("vacuous: MCReportCanon/%s produced no list with a full-key tie" % name)
        bounds.append(dict(p, run="canon:" + name, states=r.distinct, cases=st["cases"], tie_cases=st["tie_cases"]))
        if not samples:
            c = _first(casefile, lambda o: o.get("kind") == "canon" and o["tie"] and len(o["list"]) >= 2)
            if c:
                samples.append({"kind": "canon", "list": c["list"], "tie": True, "perms": c["perms"]})
        if not selftested:
            c = _first(casefile, lambda o: o.get("kind") == "canon" and not o["tie"] and not o["splitdup"]
                       and len(o["expect_keep"]) >= 2 and o["expect_keep"][0] != o["expect_keep"][1])
            if c:
                def mutate(c2):
                    e = c2["expect_keep"]
                    e[0], e[1] = e[1], e[0]
                _selftest(binary, wd, "canon", c, mutate, "canon-doc:")
                selftested = True

    # ---- operation sequences --------------------------------------------------------------------
    # (thorough tier only: the quick tier spends its TLC start-ups on the canon, pinned-workspace and
    # sampled-workspace runs; C37's quick tier runs the operation sequences)
    ops_cases = ops_steps = 0
    if thorough:
        ops = dict(maxdiags=3, maxops=7, dist=2, basetag="t", num=400, extras="ExtrasBasic")
        casefile = os.path.join(wd, "cases_ops.jsonl")
        r, n, _ = _tlc_to_file("MCReportOps", "MCReportOps_sim.cfg", OPS_CFG % ops, wd, casefile,
                               simulate=ops["num"], depth=ops["maxops"] + 1)
        trans += r.generated
        mism, st = _drive(binary, "ops", casefile)
        _feed(verdict, mism, accept=_ACCEPT[pid])
        ops_cases, ops_steps = st["cases"], st["steps"]
        bounds.append({"run": "ops", "simulate": ops["num"], "cases": ops_cases, "steps": ops_steps})

    # ---- part (i): the real compiler on invalid workspaces, parallelism 1..16, repeated ---------
    if thorough:
        ws_runs = [
            # (name, cfg params, simulate, depth, #acyclic, #cyclic)
            ("pinned", dict(PINNED, rev="FALSE, TRUE"), None, None, 10 ** 6, 0),
            ("n2", dict(GENERAL, n="2", rev="FALSE, TRUE"), None, None, 300, 60),
            ("n34", dict(GENERAL, n="3, 4", rev="FALSE, TRUE"), 500, 6, 200, 40),
        ]
        pars = ",".join(str(i) for i in range(1, 17))
        holdpars = "2,4,16"
        reps, wsworkers = 2, 12
    else:
        ws_runs = [
            ("pinned", dict(PINNED, rev="FALSE"), None, None, 10 ** 6, 0),
            ("n234", dict(GENERAL, n="2, 3, 4", rev="FALSE, TRUE"), 40, 6, 50, 10),
        ]
        pars = "1,2,4,8,16"
        holdpars = "4,16"
        reps, wsworkers = 2, 8
    ws_cases = ws_compiles = ws_cyclic = ws_diff = ws_hold = ws_warm = ws_pinned = 0
    shapes = set()
    for name, p, sim, depth, na, nc in ws_runs:
        allfile = os.path.join(wd, "cases_ws_%s_all.jsonl" % name)
        selfile = os.path.join(wd, "cases_ws_%s.jsonl" % name)
        r, n, _ = _tlc_to_file("MCDiagWorkspace", "MCDiagWorkspace_%s.cfg" % name, WS_CFG % p, wd, allfile,
                               simulate=sim, depth=depth, coverage=thorough and not sim, workers=2)
        if not sim:
            states += r.distinct
        trans += r.generated
        sel = _ws_select(allfile, selfile, rng, na, nc)
        for c in sel:
            shapes.add(json.dumps(c["shape"], sort_keys=True))
        mism, st = _drive(binary, "ws", selfile, ["-pars", pars, "-reps", str(reps), "-holdpars", holdpars,
                                                  "-workers", str(wsworkers), "-seed", str(vf.seed())], timeout=3000)
        ws_hold += st["hold_runs"]
        ws_warm += st["warm_runs"]
        ws_pinned += st["imported_only_clash_cases"]
        if st["hold_runs"] and st["hold_timeouts"] * 2 > st["hold_runs"]:
            raise vf.MachineryError("schedule control ineffective: %d of %d held-back opens timed out" %
                                    (st["hold_timeouts"], st["hold_runs"]))
        _feed(verdict, mism, accept=_ACCEPT[pid])
        ws_cases += st["cases"]
        ws_compiles += st["compiles"]
        ws_cyclic += st["cyclic_cases"]
        ws_diff += st["cases_with_differences"]
        bounds.append({"run": "ws:" + name, "files": p["n"], "kinds": p["kinds"], "simulate": sim, "exported": n,
                       "replayed": st["cases"], "cyclic": st["cyclic_cases"], "compiles": st["compiles"],
                       "pars": pars, "reps": reps})
        if len(samples) < 3 and sel:
            c = next((x for x in sel if not x["cyclic"] and len(x["expect"]) >= 2), sel[0])
            samples.append({"kind": "ws", "files": c["files"], "rev": c["rev"], "cyclic": c["cyclic"], "expect": c["expect"]})
    rc = verdict.finish()
    vf.write_evidence(pid, tier, "model_checking", {
        "states": states, "transitions": trans,
        "traces_validated_against_impl": canon_cases + ops_cases + ws_cases,
        "evaluations": canon_calls + ops_steps + ws_compiles,
        "distinct_nontrivial": tie_cases + len(shapes),
        "rule": "part (ii): a case = one multiset of diagnostics (every multiset up to the bound over a universe with "
                "ties on every prefix of the documented key and on the full key) with ALL its permutations, each "
                "built through the public constructors, canonicalized twice, with and without KeepDuplicates "
                "(evaluations = Canonicalize calls); non-trivial = lists with a full-key tie.  part (i): a case = one "
                "invalid workspace (import graph x per-file defect), compiled with the real compiler at every listed "
                "parallelism x repetitions (evaluations = compiles), reports compared after rendering and by "
                "projection; non-trivial = distinct workspace shapes.  ops: behaviours of MCReportOps replayed step "
                "by step",
        "samples": samples, "exhaustive": True, "bounds": bounds,
        "schedule_half": {"workspaces": ws_cases, "cyclic": ws_cyclic, "compiles": ws_compiles,
                          "workspaces_with_differing_reports": ws_diff,
                          "imported_only_clash_workspaces": ws_pinned,
                          "compiles_with_one_file_lowered_last": ws_hold, "compiles_on_warm_cache": ws_warm},
    }, ["Report.tla's Canonicalize is the documented contract (six sort keys, tagged duplicates on the same primary "
        "span dropped keeping the greatest); where the documentation leaves the order open (full-key ties) only "
        "order-independence, idempotence and the sequence of documented keys are required",
        "schedule half: schedules are whatever the Go runtime produces at parallelism 1..16 plus seed-controlled "
        "delays in the Opener on odd repetitions, plus, for acyclic workspaces, for every compiled file X: runs in "
        "which X is lowered last (the Opener holds back X's private helper import until Executor.Keys shows the IR "
        "queries of all files that do not depend on X as completed) and warm-cache runs (Run(IR X) first, then the "
        "workspace, same executor and session); no executor model here (IncExec.tla belongs to C33/C34)",
        "workspace sample is seed-selected from the TLC-enumerated / -simulated universe; all acyclic 2-file "
        "workspaces are replayed in the thorough tier"],
        time.time() - t0, violations=len(verdict.violations), known=verdict.known_hits)
    return rc


def run(pid, tier, replay=None):
    if pid == "C37":
        return run_c37(pid, tier, replay)
    if pid == "C36":
        return run_c36(pid, tier, replay)
    raise vf.MachineryError("engine report does not serve " + pid)
