#!/usr/bin/env python3
"""saveseed.py <seed-dir> <caught_by> <note>: copies a confirmed seeded change into /verif/seeded/<name>/ and records what detects it."""
import json, os, shutil, sys
src, caught, note = sys.argv[1], sys.argv[2], sys.argv[3]
name = os.path.basename(src.rstrip('/')).replace('seed-', '')
dst = os.path.join('/verif/seeded', name)
os.makedirs(dst, exist_ok=True)
for f in os.listdir(src):
    if os.path.isfile(os.path.join(src, f)):
        shutil.copy(os.path.join(src, f), dst)
mp = os.path.join(dst, 'meta.json')
m = json.load(open(mp)) if os.path.exists(mp) else {}
m['checked_by'] = caught
m['check_result'] = note
json.dump(m, open(mp, 'w'), indent=1)
print('saved', dst)
