#!/bin/bash
# sweep.sh [tier] [ids...]: run every registered check sequentially on /repo, print rc and wall time
TIER=${1:-quick}; shift
cd "$(dirname "$0")/.."; IDS=${@:-$(python3 -c "import json; print(' '.join(sorted(json.load(open('engines/registry.json')))))")}
cd "$(dirname "$0")/.."
for p in $IDS; do
  s=$(date +%s); bin/check $p --tier $TIER > /tmp/sweep-$p-$TIER.log 2>&1; rc=$?; e=$(date +%s)
  echo "$p tier=$TIER seed=${VERIF_SEED:-1} rc=$rc wall=$((e-s))s $(grep -c '^KNOWN-FINDING' /tmp/sweep-$p-$TIER.log) known $(grep -E '^VIOLATION|MACHINERY' /tmp/sweep-$p-$TIER.log | head -2 | cut -c1-120)"
done
