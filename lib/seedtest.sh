#!/bin/bash
# usage: seedtest.sh <seed-dir> <pid> [tier]   -- applies the seed's patch.diff in a scratch worktree and runs the check against it
set -u
SEED=$1; PID=$2; TIER=${3:-quick}
WT=/tmp/wt-seedtest-$PID-$$
git -C /repo worktree add --detach $WT HEAD >/dev/null 2>&1 || exit 2
cd $WT && { git apply $SEED/patch.diff 2>/dev/null || git apply -C1 $SEED/patch.diff 2>/dev/null || patch -p1 -F3 -s < $SEED/patch.diff; } || { echo "PATCH-DOES-NOT-APPLY"; git -C /repo worktree remove --force $WT; exit 2; }
env -u GOSUMDB -u GOTOOLCHAIN GOFLAGS= GOPROXY=off go build ./... || { echo "DOES-NOT-BUILD"; git -C /repo worktree remove --force $WT; exit 2; }
cd /verif && VERIF_WORK=/verif/.work/seedtest-$PID-$$ VERIF_REPO=$WT timeout 3000 bin/check $PID --tier $TIER > /tmp/seedtest-$PID-$(basename $SEED).log 2>&1
rc=$?
echo "seed=$(basename $SEED) pid=$PID tier=$TIER rc=$rc"
grep -E "^VIOLATION|^  class|MACHINERY" /tmp/seedtest-$PID-$(basename $SEED).log | cut -c1-260 | head -6
git -C /repo worktree remove --force $WT
rm -rf /verif/.work/seedtest-$PID-$$
exit $rc
