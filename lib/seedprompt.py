#!/usr/bin/env python3
"""prints the prompt for a fresh mutation-seeding sub-agent for property <id> (only the property text)."""
import json, sys
pid = sys.argv[1]
for l in open('/verif/properties.jsonl'):
    p = json.loads(l)
    if p['id'] == pid:
        break
wt = "/tmp/seedwt-%s" % pid
print(f"""You are helping to evaluate a verification effort on the Go repository bufbuild/protocompile (a pure-Go Protocol Buffers compiler). The sandbox is OFFLINE. Work ONLY inside your own scratch git worktree at {wt} (create it with: git -C /repo worktree add --detach {wt} HEAD). Do NOT read, list or use anything under /verif, and do not modify /repo itself. Never use `git stash` (it is shared across worktrees and other people are working in sibling worktrees); to take a change off and on use `git diff > x.diff; git checkout .; git apply x.diff`. Never `pkill` by a generic name.

Go usage: run go from the worktree root as `env -u GOSUMDB -u GOTOOLCHAIN GOFLAGS= GOPROXY=off go test ./...` (go.work workspace; toolchain auto-selected; -race works). Some packages (parser, linker, experimental/benchmark) have tests that FAIL offline even on the unchanged tree because they need the `protoc` binary; judge "passes the existing tests" per test: every test that passes on the unchanged tree must still pass with your change (compare `go test -json` pass lists before/after for the packages you touch and their dependents; the whole suite takes about 2 minutes on an idle machine, but this machine is heavily shared: to save CPU compare the pass lists of the packages you touch and the packages that depend on them, and run the whole workspace at most once per change at the end). Calls named vTrace/vGate/verifhook in the source are inert instrumentation (build tag `verif`); ignore them and do not rely on them.

The semantic property under study:
  Title: {p['title']}
  Statement: {p['statement']}
  Scope: {p['quantifier']['text']}

YOUR TASK: produce TWO independent, realistic changes (bugs) to the repository, each of which breaks this property while the code still compiles and ALL previously-passing existing tests still pass. They should look like plausible regressions a maintainer could introduce (a refactoring slip, a wrong condition, a lock taken too late, an early return, an off-by-one, a missed case), not sabotage. Prefer changes that need something SPECIFIC to manifest — a particular interleaving or schedule, a fault or cancellation at a particular point, a multi-step sequence of operations, an unusual input shape, or two cooperating sites that each look fine alone — rather than ones that ordinary use would expose at once. The two changes must differ in mechanism (different code sites / different failure modes).

For each change i in {{a, b}} deliver a directory /tmp/seed-{pid}-<i>/ containing:
  - patch.diff        (git diff against the worktree's HEAD; applies with `git apply`)
  - a demonstration: a Go test file or small program (say where it must be placed / how to run it) that FAILS (or hangs/deadlocks with a timeout, or reports a race under -race) with the change applied and PASSES without it; if the failure needs a rare schedule, make the demo force or amplify it (e.g. barriers in a custom resolver/reporter, many iterations, GOMAXPROCS settings) so that it fails reliably
  - meta.json         {{"property": "{pid}", "summary": "...", "needs": "what specific input / schedule / fault / sequence is needed for it to manifest", "files_changed": [...], "demo_cmd": "...", "tests_run": "which existing tests you ran before/after and the result"}}
Verify all of it yourself: patch applies on a clean worktree, builds, existing tests unchanged, demo fails with and passes without. When done, reset your worktree, remove it (git -C /repo worktree remove --force {wt}) and report briefly what each change is and how it manifests.""")
