#!/usr/bin/env python3
"""helper: integrate.py add <pid> <engine> <level> <technique> --text ... --note ...   (edits registry + manifest_src)"""
import json, sys, argparse
ap = argparse.ArgumentParser()
ap.add_argument("pid"); ap.add_argument("engine"); ap.add_argument("level"); ap.add_argument("technique")
ap.add_argument("--text", required=True); ap.add_argument("--note", required=True); ap.add_argument("--path", default=None)
a = ap.parse_args()
r = json.load(open('/verif/engines/registry.json')); r[a.pid] = a.engine
json.dump(r, open('/verif/engines/registry.json', 'w'), indent=1)
p = '/verif/lib/manifest_src.json'; m = json.load(open(p))
found = False
for e in m['engines']:
    if e['name'] == a.engine:
        if a.pid not in e['serves_properties']:
            e['serves_properties'].append(a.pid)
        found = True
if not found:
    m['engines'].append({"name": a.engine, "path": a.path or "engines/%s.py" % a.engine, "serves_properties": [a.pid], "kind_free_text": a.technique})
m['checks'][a.pid] = {"engine": a.engine, "level": a.level, "text": a.text, "note": a.note, "technique": a.technique}
json.dump(m, open(p, 'w'), indent=1)
print("ok", a.pid)
