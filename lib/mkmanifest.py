#!/usr/bin/env python3
"""Regenerates MANIFEST.json from lib/manifest_src.json (checks) + properties.jsonl (not_applicable for the rest)."""
import json, os, sys
ROOT = os.path.dirname(os.path.dirname(os.path.abspath(__file__)))
src = json.load(open(os.path.join(ROOT, "lib", "manifest_src.json")))
props = [json.loads(l)["id"] for l in open(os.path.join(ROOT, "properties.jsonl"))]
checks = []
for pid in props:
    c = src["checks"].get(pid)
    if not c:
        continue
    checks.append({
        "property_id": pid,
        "quick_cmd": "bin/check %s --tier quick" % pid,
        "thorough_cmd": "bin/check %s --tier thorough" % pid,
        "evidence_file": "/verif/evidence/%s.json" % pid,
        "replay_cmd_template": "bin/check %s --replay {path}" % pid,
        "engine": c["engine"],
        "level_claimed": {"category": c["level"], "text": c["text"], "design_ref": c.get("design_ref", "DESIGN.md 4 " + pid)},
        "level_note": c["note"],
        "technique": c["technique"],
    })
na = []
for pid in props:
    if pid in src["checks"]:
        continue
    na.append({"property_id": pid, "reason": src["not_applicable"].get(pid, "not yet built: planned in DESIGN.md 4 " + pid + "; no check is claimed until its specification and conformance harness exist")})
# hook commits are read from the repository's history (subjects starting with "verif hooks")
import subprocess
try:
    log = subprocess.run(["git", "-C", "/repo", "log", "--reverse", "--format=%h %s"], capture_output=True, text=True).stdout.splitlines()
    hooks = [l for l in log if l.split(" ", 1)[1].startswith("verif hooks")]
    if hooks:
        src["hooks"]["source_commits"] = hooks
except Exception:
    pass
m = {"version": 1, "setup_cmd": "bin/setup", "hooks": src["hooks"], "engines": src["engines"], "checks": checks,
     "notes": src["notes"], "not_applicable": na}
json.dump(m, open(os.path.join(ROOT, "MANIFEST.json"), "w"), indent=1)
print("checks:", len(checks), "not_applicable:", len(na))
