#!/usr/bin/env python3
"""Runs the repository's suite with the verif tag OFF and compares the per-test pass set with BASELINE.json stable_pass.
usage: baseline.py [repo]   exit 0 iff every stable_pass test passed."""
import json, os, subprocess, sys
repo = sys.argv[1] if len(sys.argv) > 1 else "/repo"
base = json.load(open('/root/.vp/BASELINE.json'))
env = dict(os.environ); env["GOFLAGS"] = ""; env["GOPROXY"] = "off"
for k in ("GOSUMDB", "GOTOOLCHAIN"): env.pop(k, None)
passed, failed = set(), set()
for mod in (".", "internal/benchmarks"):
    d = os.path.join(repo, mod)
    if not os.path.isdir(d): continue
    p = subprocess.run(["go", "test", "-json", "-vet=off", "-count=1", "-timeout", "25m", "./..."], cwd=d, env=env, capture_output=True, text=True)
    for line in p.stdout.splitlines():
        try: o = json.loads(line)
        except Exception: continue
        if o.get("Test") and o.get("Action") in ("pass", "fail"):
            (passed if o["Action"] == "pass" else failed).add("%s::%s" % (o["Package"], o["Test"]))
missing = [t for t in base["stable_pass"] if t not in passed]
# wall-clock / load sensitive tests (e.g. parser::TestPathological, the synctestx hammer in internal/intern) can
# fail on a loaded machine: re-run the packages of missing tests alone, up to twice, before judging
for _attempt in range(2):
    if not missing:
        break
    pkgs = sorted({t.split("::")[0] for t in missing})
    for pkg in pkgs:
        rel = "./" + pkg[len("github.com/bufbuild/protocompile/"):] if pkg != "github.com/bufbuild/protocompile" else "."
        p = subprocess.run(["go", "test", "-json", "-vet=off", "-count=1", "-timeout", "25m", rel], cwd=repo, env=env, capture_output=True, text=True)
        for line in p.stdout.splitlines():
            try: o = json.loads(line)
            except Exception: continue
            if o.get("Test") and o.get("Action") == "pass":
                passed.add("%s::%s" % (o["Package"], o["Test"]))
    missing = [t for t in base["stable_pass"] if t not in passed]
print("stable_pass=%d passed_now=%d missing=%d" % (len(base["stable_pass"]), len(passed), len(missing)))
for t in missing[:40]: print("  MISSING", t, "(failed)" if t in failed else "(not run)")
sys.exit(1 if missing else 0)
