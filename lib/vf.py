"""Common machinery for /verif checks: TLC runner, Go driver builder (overlay into /repo's module),
evidence writer, known-findings matcher, exit-code discipline.

Exit codes (DESIGN.md 2.6):  0 held / 1 violation reproduced on the real code / 2 machinery failed.
"""
import json, os, re, shutil, subprocess, sys, time, hashlib, random

ROOT = os.path.dirname(os.path.dirname(os.path.abspath(__file__)))
REPO = os.environ.get("VERIF_REPO", "/repo")
SPEC = os.path.join(ROOT, "spec")
HARNESS = os.path.join(ROOT, "harness")
BUILD = os.path.join(ROOT, ".build")
WORK = os.environ.get("VERIF_WORK") or os.path.join(ROOT, ".work")
EVID = os.path.join(ROOT, "evidence")
REPLAY = os.path.join(ROOT, "replay")
TLA_JAR = "/opt/veriftools/tla/tla2tools.jar:/opt/veriftools/tla/CommunityModules-deps.jar"


class MachineryError(Exception):
    """Anything that is not a verdict about the code: exit 2."""


def die2(msg):
    print("MACHINERY-ERROR: " + msg, flush=True)
    sys.exit(2)


def seed():
    try:
        return int(os.environ.get("VERIF_SEED", "1"))
    except ValueError:
        return 1


def workdir(pid, sub=None, clean=True):
    d = os.path.join(WORK, pid if sub is None else os.path.join(pid, sub))
    if clean and os.path.isdir(d):
        shutil.rmtree(d, ignore_errors=True)
    os.makedirs(d, exist_ok=True)
    return d


# ----------------------------------------------------------------------------------------------
# Go

def go_env():
    e = dict(os.environ)
    e["GOFLAGS"] = ""
    e["GOPROXY"] = "off"
    for k in ("GOSUMDB", "GOTOOLCHAIN", "GOWORK"):
        e.pop(k, None)
    e.setdefault("GOCACHE", os.path.expanduser("~/.cache/go-build"))
    return e


def build_driver(name, race=False, tags="verif", extra_overlay=None, timeout=900):
    """Compile /verif/harness/<name>/*.go as package /repo/internal/zzverif/<name> via -overlay.
    Every real source file comes from /repo's working tree."""
    src = os.path.join(HARNESS, name)
    if not os.path.isdir(src):
        raise MachineryError("no harness " + name)
    bdir = BUILD
    if os.path.realpath(REPO) != "/repo" or os.environ.get("VERIF_WORK"):
        bdir = os.path.join(WORK, "build")      # scratch-worktree / private runs never share binaries with /repo runs
    os.makedirs(bdir, exist_ok=True)
    repl = {}
    for root, _dirs, files in os.walk(src):
        for f in files:
            if f.endswith(".go") or f.endswith(".s"):
                rel = os.path.relpath(os.path.join(root, f), src)
                repl[os.path.join(REPO, "internal", "zzverif", name, rel)] = os.path.join(root, f)
    # shared helper package(s)
    common = os.path.join(HARNESS, "_common")
    if os.path.isdir(common):
        for root, _dirs, files in os.walk(common):
            for f in files:
                if f.endswith(".go"):
                    rel = os.path.relpath(os.path.join(root, f), common)
                    repl[os.path.join(REPO, "internal", "zzverif", "common", rel)] = os.path.join(root, f)
    if extra_overlay:
        repl.update(extra_overlay)
    ov = os.path.join(bdir, name + (".race" if race else "") + ".overlay.json")
    with open(ov, "w") as fh:
        json.dump({"Replace": repl}, fh)
    out = os.path.join(bdir, name + (".race" if race else ""))
    cmd = ["go", "build", "-overlay", ov, "-o", out]
    if tags:
        cmd += ["-tags", tags]
    if race:
        cmd += ["-race"]
    cmd += ["./internal/zzverif/" + name]
    p = subprocess.run(cmd, cwd=REPO, env=go_env(), capture_output=True, text=True, timeout=timeout)
    if p.returncode != 0:
        raise MachineryError("go build %s failed:\n%s\n%s" % (name, p.stdout[-4000:], p.stderr[-4000:]))
    return out


def run_driver(binary, args=(), stdin_path=None, stdout_path=None, timeout=3600, env=None, cwd=None):
    """Run a driver; returns (rc, stdout_text_or_None, stderr_tail)."""
    e = go_env()
    if env:
        e.update(env)
    fin = open(stdin_path, "rb") if stdin_path else subprocess.DEVNULL
    fout = open(stdout_path, "wb") if stdout_path else subprocess.PIPE
    try:
        p = subprocess.run([binary] + list(args), stdin=fin, stdout=fout, stderr=subprocess.PIPE,
                           timeout=timeout, env=e, cwd=cwd or REPO)
    except subprocess.TimeoutExpired:
        raise MachineryError("driver %s timed out after %ss" % (binary, timeout))
    finally:
        if stdin_path:
            fin.close()
        if stdout_path:
            fout.close()
    out = None if stdout_path else p.stdout.decode("utf-8", "replace")
    return p.returncode, out, p.stderr.decode("utf-8", "replace")[-8000:]


# ----------------------------------------------------------------------------------------------
# TLC

class TLCResult:
    def __init__(self):
        self.rc = None
        self.generated = 0
        self.distinct = 0
        self.depth = 0
        self.cases = []          # parsed "CASE {json}" lines
        self.violated = None     # name of violated invariant/property, or "deadlock"
        self.error = None        # TLC-level error text (not a property violation)
        self.stdout_path = None
        self.wall = 0.0
        self.coverage_zero = []  # actions never taken (with -coverage)
        self.postcondition_failed = False


_CASE_RE = re.compile(r'^"?CASE (.*?)"?$')


def _unquote_tla_string(s):
    # PrintT of a string prints it with surrounding quotes and TLA+ escapes (\" and \\)
    return s.replace('\\"', '"').replace("\\\\", "\\")


def tlc(module, cfg, wd, workers=8, simulate=None, depth=None, tseed=None, timeout=1800,
        coverage=False, deadlock=True, extra_files=(), heap="8g", java_props=(), case_sink=None,
        extra_args=()):
    """Run TLC on spec/<module>.tla with spec/<cfg> inside scratch dir wd (all spec/*.tla copied).
    case_sink: optional callable(dict) to stream CASE lines instead of collecting them."""
    os.makedirs(wd, exist_ok=True)
    for f in os.listdir(SPEC):
        if f.endswith(".tla") or f.endswith(".cfg"):
            shutil.copy(os.path.join(SPEC, f), wd)
    for f in extra_files:
        shutil.copy(f, wd)
    meta = os.path.join(wd, "meta_" + os.path.splitext(os.path.basename(cfg))[0])
    shutil.rmtree(meta, ignore_errors=True)
    cmd = ["java", "-XX:+UseParallelGC", "-Xss512m", "-Xmx" + heap]
    for jp in java_props:
        cmd.append("-D" + jp)
    cmd += ["-cp", TLA_JAR, "tlc2.TLC", "-workers", str(workers), "-metadir", meta,
            "-config", cfg]
    if not deadlock:
        cmd += ["-deadlock"]
    if coverage:
        cmd += ["-coverage", "1"]
    if simulate is not None:
        s = "num=%d" % simulate
        cmd += ["-simulate", s]
        if depth:
            cmd += ["-depth", str(depth)]
    if tseed is not None:
        cmd += ["-seed", str(tseed)]
    cmd += list(extra_args)
    cmd += [module + ".tla"]
    res = TLCResult()
    res.stdout_path = os.path.join(wd, os.path.splitext(os.path.basename(cfg))[0] + ".tlc.out")
    t0 = time.time()
    env = dict(os.environ)
    env.pop("JAVA_TOOL_OPTIONS", None)
    with open(res.stdout_path, "w") as logf:
        p = subprocess.Popen(cmd, cwd=wd, stdout=subprocess.PIPE, stderr=subprocess.STDOUT, text=True,
                             env=env, bufsize=1 << 20)
        try:
            import threading
            timer = threading.Timer(timeout, p.kill)
            timer.start()
            in_err = False
            errbuf = []
            for line in p.stdout:
                s = line.rstrip("\n")
                if s.startswith('"CASE ') or s.startswith("CASE "):
                    body = s[1:-1] if s.startswith('"') else s
                    body = body[5:]
                    if s.startswith('"'):
                        body = _unquote_tla_string(body)
                    try:
                        obj = json.loads(body)
                    except Exception as ex:  # noqa
                        raise MachineryError("bad CASE line: %r (%s)" % (s[:300], ex))
                    if case_sink:
                        case_sink(obj)
                    else:
                        res.cases.append(obj)
                    continue
                logf.write(line)
                m = re.search(r"(\d+) states generated, (\d+) distinct states found", s)
                if m:
                    res.generated, res.distinct = int(m.group(1)), int(m.group(2))
                m = re.search(r"The depth of the complete state graph search is (\d+)", s)
                if m:
                    res.depth = int(m.group(1))
                m = re.search(r"Error: Invariant (\S+) is violated", s)
                if m:
                    res.violated = m.group(1)
                if "Error: Deadlock reached" in s:
                    res.violated = "deadlock"
                m = re.search(r"Error: Action property (\S+) is violated", s)
                if m:
                    res.violated = m.group(1)
                if "Temporal properties were violated" in s:
                    res.violated = res.violated or "temporal"
                if s.startswith("Error: Postcondition") or "Error: The postcondition" in s:
                    res.postcondition_failed = True
                if s.startswith("Error:") and not res.violated and not res.postcondition_failed:
                    errbuf.append(s)
                if s.startswith("The coverage statistics at"):
                    res.coverage_zero = []      # interim dumps are superseded by the final one
                m = re.match(r"<(\w+) line .* of module .*>: (\d+):(\d+)", s)
                if m and coverage and m.group(2) == "0" and m.group(3) == "0":
                    res.coverage_zero.append(m.group(1))
            p.wait()
            timer.cancel()
        finally:
            try:
                timer.cancel()
            except Exception:
                pass
            if p.poll() is None:
                p.kill()
    res.rc = p.returncode
    res.wall = time.time() - t0
    res.rejected_at = None
    if res.postcondition_failed:
        m = re.search(r'TRACE-REJECTED matched",\s*(\d+)', open(res.stdout_path).read())
        if m:
            res.rejected_at = int(m.group(1))
    if res.rc in (-9, 137):
        raise MachineryError("TLC timed out/killed (%s, %s)" % (module, cfg))
    if res.violated is None and not res.postcondition_failed and res.rc != 0:
        tail = open(res.stdout_path).read()[-3000:]
        raise MachineryError("TLC failed rc=%s on %s/%s:\n%s" % (res.rc, module, cfg, tail))
    shutil.rmtree(meta, ignore_errors=True)
    return res


def sany(module, wd):
    p = subprocess.run(["java", "-cp", TLA_JAR, "tla2sany.SANY", module + ".tla"], cwd=wd,
                       capture_output=True, text=True)
    return p.returncode == 0 and "Semantic errors" not in p.stdout, p.stdout


# ----------------------------------------------------------------------------------------------
# Known findings

def load_findings(pid):
    path = os.path.join(ROOT, "known_findings.json")
    if not os.path.exists(path):
        return []
    with open(path) as fh:
        data = json.load(fh)
    return [f for f in data.get("findings", []) if f.get("property") == pid and f.get("status") == "finding"]


class Verdict:
    """Collect disagreements (each with a 'cls' classification string), match against known findings,
    print KNOWN-FINDING / VIOLATION lines, decide exit code."""

    def __init__(self, pid):
        self.pid = pid
        self.findings = load_findings(pid)
        self.known_hits = {}   # finding id -> count
        self.known_example = {}
        self.violations = []   # dicts

    def disagree(self, cls, case, detail=""):
        for f in self.findings:
            if cls == f["class"] or (f.get("class_prefix") and cls.startswith(f["class_prefix"])):
                self.known_hits[f["class"]] = self.known_hits.get(f["class"], 0) + 1
                self.known_example.setdefault(f["class"], case)
                return False
        self.violations.append({"class": cls, "case": case, "detail": detail})
        return True

    def finish(self):
        for f in self.findings:
            n = self.known_hits.get(f["class"], 0)
            if n:
                print("KNOWN-FINDING: property=%s %s [%s] (%d case(s) this run)" %
                      (self.pid, f["what"], f["class"], n), flush=True)
        if self.violations:
            d = os.path.join(REPLAY, self.pid)
            os.makedirs(d, exist_ok=True)
            bycls = {}
            for v in self.violations:
                bycls.setdefault(v["class"], []).append(v)
            first = None
            for cls, vs in sorted(bycls.items()):
                h = hashlib.sha1(cls.encode()).hexdigest()[:10]
                path = os.path.join(d, "%s.json" % h)
                with open(path, "w") as fh:
                    json.dump({"property": self.pid, "class": cls, "count": len(vs),
                               "examples": vs[:20]}, fh, indent=1, default=str)
                first = first or path
                print("VIOLATION property=%s replay=%s" % (self.pid, path), flush=True)
                print("  class=%s count=%d first=%s" % (cls, len(vs), json.dumps(vs[0], default=str)[:600]),
                      flush=True)
            return 1
        return 0


# ----------------------------------------------------------------------------------------------
# Evidence

def write_evidence(pid, tier, level, coverage, assumptions, wall_s, violations=0, known=None):
    evdir = EVID
    if os.path.realpath(REPO) != "/repo":
        # runs against a scratch worktree (seed tests, development) must not overwrite committed evidence
        evdir = os.path.join(WORK, "evidence-scratch")
    os.makedirs(evdir, exist_ok=True)
    ev = {"property_id": pid, "tier": tier, "seed": seed(), "level": level, "coverage": coverage,
          "assumptions": assumptions, "wall_s": round(wall_s, 2), "violations": violations}
    if known:
        ev["coverage"]["known_findings_hit"] = known
    with open(os.path.join(evdir, pid + ".json"), "w") as fh:
        json.dump(ev, fh, indent=1, default=str)


def sample(rng, items, k):
    items = list(items)
    if len(items) <= k:
        return items
    return rng.sample(items, k)


def rng():
    return random.Random(seed())


def jsonl_write(path, objs):
    with open(path, "w") as fh:
        for o in objs:
            fh.write(json.dumps(o, separators=(",", ":")))
            fh.write("\n")


def jsonl_read(path):
    out = []
    with open(path) as fh:
        for line in fh:
            line = line.strip()
            if line:
                out.append(json.loads(line))
    return out
