---------------------------- MODULE SrcInfoPaths ----------------------------
(* C23, part (a) and (b): what it means for a SourceCodeInfo location to be well formed.

   PATHS.  "Each location's path names an element or field that exists in the descriptor."
   A path is a sequence of integers interpreted, from the FileDescriptorProto down, against the
   schema of google/protobuf/descriptor.proto (table Fields below, transcribed from the published
   descriptor.proto; the engine cross-checks it against descriptorpb's own reflection data on every
   run):
     * a field-number step must name a field DECLARED in the current message type.  It need not be
       set: protoc itself emits a location for `syntax` in a proto2 file (field 12 unset) and for a
       field's `options` container holding only pseudo-options.
     * after a repeated field the path may end (the whole statement, e.g. `reserved 1, 2;`), or
       continue with an index step.  Outside options the index must be smaller than the number of
       elements the compiled descriptor has at that place (the SHAPE of the descriptor).
     * after a scalar field the path ends.
     * once the path has gone through an `options` field it is inside an option value: field steps
       must be declared fields of the options message or extensions of it known to the case
       (custom options), indexes are only required to be non-negative.

   SHAPE of a compiled FileDescriptorProto: a tree that records, for every repeated field outside
   options that has elements, how many there are (and, for message-typed ones, their shapes):
       node == [k |-> <<field numbers, ascending>>, c |-> <<for each: the sequence of child nodes>>]

   SPANS.  "Each span is a well-formed range (start no later than end) inside the file":
   three or four zero-based integers [line, col, (endline,) endcol]; `widths` is the file's line
   table (SrcLines!LineTable: Col8 width of every line).                                        *)
EXTENDS Naturals, Integers, Sequences, FiniteSets

Fields(m) ==
  CASE m = "FileDescriptorSet" ->
         {<<1, "FileDescriptorProto", TRUE, "file">>}
    [] m = "FileDescriptorProto" ->
         {<<1, "scalar", FALSE, "name">>,
          <<2, "scalar", FALSE, "package">>,
          <<3, "scalar", TRUE, "dependency">>,
          <<4, "DescriptorProto", TRUE, "message_type">>,
          <<5, "EnumDescriptorProto", TRUE, "enum_type">>,
          <<6, "ServiceDescriptorProto", TRUE, "service">>,
          <<7, "FieldDescriptorProto", TRUE, "extension">>,
          <<8, "FileOptions", FALSE, "options">>,
          <<9, "SourceCodeInfo", FALSE, "source_code_info">>,
          <<10, "scalar", TRUE, "public_dependency">>,
          <<11, "scalar", TRUE, "weak_dependency">>,
          <<12, "scalar", FALSE, "syntax">>,
          <<14, "scalar", FALSE, "edition">>,
          <<15, "scalar", TRUE, "option_dependency">>}
    [] m = "DescriptorProto" ->
         {<<1, "scalar", FALSE, "name">>,
          <<2, "FieldDescriptorProto", TRUE, "field">>,
          <<3, "DescriptorProto", TRUE, "nested_type">>,
          <<4, "EnumDescriptorProto", TRUE, "enum_type">>,
          <<5, "DescriptorProto.ExtensionRange", TRUE, "extension_range">>,
          <<6, "FieldDescriptorProto", TRUE, "extension">>,
          <<7, "MessageOptions", FALSE, "options">>,
          <<8, "OneofDescriptorProto", TRUE, "oneof_decl">>,
          <<9, "DescriptorProto.ReservedRange", TRUE, "reserved_range">>,
          <<10, "scalar", TRUE, "reserved_name">>,
          <<11, "scalar", FALSE, "visibility">>}
    [] m = "DescriptorProto.ExtensionRange" ->
         {<<1, "scalar", FALSE, "start">>,
          <<2, "scalar", FALSE, "end">>,
          <<3, "ExtensionRangeOptions", FALSE, "options">>}
    [] m = "DescriptorProto.ReservedRange" ->
         {<<1, "scalar", FALSE, "start">>,
          <<2, "scalar", FALSE, "end">>}
    [] m = "ExtensionRangeOptions" ->
         {<<2, "ExtensionRangeOptions.Declaration", TRUE, "declaration">>,
          <<3, "scalar", FALSE, "verification">>,
          <<50, "FeatureSet", FALSE, "features">>,
          <<999, "UninterpretedOption", TRUE, "uninterpreted_option">>}
    [] m = "ExtensionRangeOptions.Declaration" ->
         {<<1, "scalar", FALSE, "number">>,
          <<2, "scalar", FALSE, "full_name">>,
          <<3, "scalar", FALSE, "type">>,
          <<5, "scalar", FALSE, "reserved">>,
          <<6, "scalar", FALSE, "repeated">>}
    [] m = "FieldDescriptorProto" ->
         {<<1, "scalar", FALSE, "name">>,
          <<2, "scalar", FALSE, "extendee">>,
          <<3, "scalar", FALSE, "number">>,
          <<4, "scalar", FALSE, "label">>,
          <<5, "scalar", FALSE, "type">>,
          <<6, "scalar", FALSE, "type_name">>,
          <<7, "scalar", FALSE, "default_value">>,
          <<8, "FieldOptions", FALSE, "options">>,
          <<9, "scalar", FALSE, "oneof_index">>,
          <<10, "scalar", FALSE, "json_name">>,
          <<17, "scalar", FALSE, "proto3_optional">>}
    [] m = "OneofDescriptorProto" ->
         {<<1, "scalar", FALSE, "name">>,
          <<2, "OneofOptions", FALSE, "options">>}
    [] m = "EnumDescriptorProto" ->
         {<<1, "scalar", FALSE, "name">>,
          <<2, "EnumValueDescriptorProto", TRUE, "value">>,
          <<3, "EnumOptions", FALSE, "options">>,
          <<4, "EnumDescriptorProto.EnumReservedRange", TRUE, "reserved_range">>,
          <<5, "scalar", TRUE, "reserved_name">>,
          <<6, "scalar", FALSE, "visibility">>}
    [] m = "EnumDescriptorProto.EnumReservedRange" ->
         {<<1, "scalar", FALSE, "start">>,
          <<2, "scalar", FALSE, "end">>}
    [] m = "EnumValueDescriptorProto" ->
         {<<1, "scalar", FALSE, "name">>,
          <<2, "scalar", FALSE, "number">>,
          <<3, "EnumValueOptions", FALSE, "options">>}
    [] m = "ServiceDescriptorProto" ->
         {<<1, "scalar", FALSE, "name">>,
          <<2, "MethodDescriptorProto", TRUE, "method">>,
          <<3, "ServiceOptions", FALSE, "options">>}
    [] m = "MethodDescriptorProto" ->
         {<<1, "scalar", FALSE, "name">>,
          <<2, "scalar", FALSE, "input_type">>,
          <<3, "scalar", FALSE, "output_type">>,
          <<4, "MethodOptions", FALSE, "options">>,
          <<5, "scalar", FALSE, "client_streaming">>,
          <<6, "scalar", FALSE, "server_streaming">>}
    [] m = "FileOptions" ->
         {<<1, "scalar", FALSE, "java_package">>,
          <<8, "scalar", FALSE, "java_outer_classname">>,
          <<9, "scalar", FALSE, "optimize_for">>,
          <<10, "scalar", FALSE, "java_multiple_files">>,
          <<11, "scalar", FALSE, "go_package">>,
          <<16, "scalar", FALSE, "cc_generic_services">>,
          <<17, "scalar", FALSE, "java_generic_services">>,
          <<18, "scalar", FALSE, "py_generic_services">>,
          <<20, "scalar", FALSE, "java_generate_equals_and_hash">>,
          <<23, "scalar", FALSE, "deprecated">>,
          <<27, "scalar", FALSE, "java_string_check_utf8">>,
          <<31, "scalar", FALSE, "cc_enable_arenas">>,
          <<36, "scalar", FALSE, "objc_class_prefix">>,
          <<37, "scalar", FALSE, "csharp_namespace">>,
          <<39, "scalar", FALSE, "swift_prefix">>,
          <<40, "scalar", FALSE, "php_class_prefix">>,
          <<41, "scalar", FALSE, "php_namespace">>,
          <<44, "scalar", FALSE, "php_metadata_namespace">>,
          <<45, "scalar", FALSE, "ruby_package">>,
          <<50, "FeatureSet", FALSE, "features">>,
          <<999, "UninterpretedOption", TRUE, "uninterpreted_option">>}
    [] m = "MessageOptions" ->
         {<<1, "scalar", FALSE, "message_set_wire_format">>,
          <<2, "scalar", FALSE, "no_standard_descriptor_accessor">>,
          <<3, "scalar", FALSE, "deprecated">>,
          <<7, "scalar", FALSE, "map_entry">>,
          <<11, "scalar", FALSE, "deprecated_legacy_json_field_conflicts">>,
          <<12, "FeatureSet", FALSE, "features">>,
          <<999, "UninterpretedOption", TRUE, "uninterpreted_option">>}
    [] m = "FieldOptions" ->
         {<<1, "scalar", FALSE, "ctype">>,
          <<2, "scalar", FALSE, "packed">>,
          <<3, "scalar", FALSE, "deprecated">>,
          <<5, "scalar", FALSE, "lazy">>,
          <<6, "scalar", FALSE, "jstype">>,
          <<10, "scalar", FALSE, "weak">>,
          <<15, "scalar", FALSE, "unverified_lazy">>,
          <<16, "scalar", FALSE, "debug_redact">>,
          <<17, "scalar", FALSE, "retention">>,
          <<19, "scalar", TRUE, "targets">>,
          <<20, "FieldOptions.EditionDefault", TRUE, "edition_defaults">>,
          <<21, "FeatureSet", FALSE, "features">>,
          <<22, "FieldOptions.FeatureSupport", FALSE, "feature_support">>,
          <<999, "UninterpretedOption", TRUE, "uninterpreted_option">>}
    [] m = "FieldOptions.EditionDefault" ->
         {<<2, "scalar", FALSE, "value">>,
          <<3, "scalar", FALSE, "edition">>}
    [] m = "FieldOptions.FeatureSupport" ->
         {<<1, "scalar", FALSE, "edition_introduced">>,
          <<2, "scalar", FALSE, "edition_deprecated">>,
          <<3, "scalar", FALSE, "deprecation_warning">>,
          <<4, "scalar", FALSE, "edition_removed">>}
    [] m = "OneofOptions" ->
         {<<1, "FeatureSet", FALSE, "features">>,
          <<999, "UninterpretedOption", TRUE, "uninterpreted_option">>}
    [] m = "EnumOptions" ->
         {<<2, "scalar", FALSE, "allow_alias">>,
          <<3, "scalar", FALSE, "deprecated">>,
          <<6, "scalar", FALSE, "deprecated_legacy_json_field_conflicts">>,
          <<7, "FeatureSet", FALSE, "features">>,
          <<999, "UninterpretedOption", TRUE, "uninterpreted_option">>}
    [] m = "EnumValueOptions" ->
         {<<1, "scalar", FALSE, "deprecated">>,
          <<2, "FeatureSet", FALSE, "features">>,
          <<3, "scalar", FALSE, "debug_redact">>,
          <<4, "FieldOptions.FeatureSupport", FALSE, "feature_support">>,
          <<999, "UninterpretedOption", TRUE, "uninterpreted_option">>}
    [] m = "ServiceOptions" ->
         {<<33, "scalar", FALSE, "deprecated">>,
          <<34, "FeatureSet", FALSE, "features">>,
          <<999, "UninterpretedOption", TRUE, "uninterpreted_option">>}
    [] m = "MethodOptions" ->
         {<<33, "scalar", FALSE, "deprecated">>,
          <<34, "scalar", FALSE, "idempotency_level">>,
          <<35, "FeatureSet", FALSE, "features">>,
          <<999, "UninterpretedOption", TRUE, "uninterpreted_option">>}
    [] m = "UninterpretedOption" ->
         {<<2, "UninterpretedOption.NamePart", TRUE, "name">>,
          <<3, "scalar", FALSE, "identifier_value">>,
          <<4, "scalar", FALSE, "positive_int_value">>,
          <<5, "scalar", FALSE, "negative_int_value">>,
          <<6, "scalar", FALSE, "double_value">>,
          <<7, "scalar", FALSE, "string_value">>,
          <<8, "scalar", FALSE, "aggregate_value">>}
    [] m = "UninterpretedOption.NamePart" ->
         {<<1, "scalar", FALSE, "name_part">>,
          <<2, "scalar", FALSE, "is_extension">>}
    [] m = "FeatureSet" ->
         {<<1, "scalar", FALSE, "field_presence">>,
          <<2, "scalar", FALSE, "enum_type">>,
          <<3, "scalar", FALSE, "repeated_field_encoding">>,
          <<4, "scalar", FALSE, "utf8_validation">>,
          <<5, "scalar", FALSE, "message_encoding">>,
          <<6, "scalar", FALSE, "json_format">>,
          <<7, "scalar", FALSE, "enforce_naming_style">>,
          <<8, "scalar", FALSE, "default_symbol_visibility">>}
    [] m = "FeatureSet.VisibilityFeature" ->
         {}
    [] m = "FeatureSetDefaults" ->
         {<<1, "FeatureSetDefaults.FeatureSetEditionDefault", TRUE, "defaults">>,
          <<4, "scalar", FALSE, "minimum_edition">>,
          <<5, "scalar", FALSE, "maximum_edition">>}
    [] m = "FeatureSetDefaults.FeatureSetEditionDefault" ->
         {<<3, "scalar", FALSE, "edition">>,
          <<4, "FeatureSet", FALSE, "overridable_features">>,
          <<5, "FeatureSet", FALSE, "fixed_features">>}
    [] m = "SourceCodeInfo" ->
         {<<1, "SourceCodeInfo.Location", TRUE, "location">>}
    [] m = "SourceCodeInfo.Location" ->
         {<<1, "scalar", TRUE, "path">>,
          <<2, "scalar", TRUE, "span">>,
          <<3, "scalar", FALSE, "leading_comments">>,
          <<4, "scalar", FALSE, "trailing_comments">>,
          <<6, "scalar", TRUE, "leading_detached_comments">>}
    [] m = "GeneratedCodeInfo" ->
         {<<1, "GeneratedCodeInfo.Annotation", TRUE, "annotation">>}
    [] m = "GeneratedCodeInfo.Annotation" ->
         {<<1, "scalar", TRUE, "path">>,
          <<2, "scalar", FALSE, "source_file">>,
          <<3, "scalar", FALSE, "begin">>,
          <<4, "scalar", FALSE, "end">>,
          <<5, "scalar", FALSE, "semantic">>}
    [] OTHER -> {}

(* the messages of descriptor.proto; FieldTab is the table as one constant value (evaluated once) *)
SchemaMessages ==
  {"FileDescriptorSet", "FileDescriptorProto", "DescriptorProto", "DescriptorProto.ExtensionRange",
   "DescriptorProto.ReservedRange", "ExtensionRangeOptions", "ExtensionRangeOptions.Declaration",
   "FieldDescriptorProto", "OneofDescriptorProto", "EnumDescriptorProto",
   "EnumDescriptorProto.EnumReservedRange", "EnumValueDescriptorProto", "ServiceDescriptorProto",
   "MethodDescriptorProto", "FileOptions", "MessageOptions", "FieldOptions", "FieldOptions.EditionDefault",
   "FieldOptions.FeatureSupport", "OneofOptions", "EnumOptions", "EnumValueOptions", "ServiceOptions",
   "MethodOptions", "UninterpretedOption", "UninterpretedOption.NamePart", "FeatureSet",
   "FeatureSet.VisibilityFeature", "FeatureSetDefaults", "FeatureSetDefaults.FeatureSetEditionDefault",
   "SourceCodeInfo", "SourceCodeInfo.Location", "GeneratedCodeInfo", "GeneratedCodeInfo.Annotation"}
FieldTab == [m \in SchemaMessages |-> Fields(m)]

(* <<num, type, repeated, name>> of field `num` of message m, with the case's extensions `exts`
   (a set of <<extendee, num, type, repeated>>) and custom message types `custom`
   (a set of <<message, num, type, repeated>>); <<>> when there is none *)
FieldsOf(m, custom) == IF m \in SchemaMessages THEN FieldTab[m]
                       ELSE {<<f[2], f[3], f[4], "custom">> : f \in {g \in custom : g[1] = m}}
Lookup(m, num, inOpt, exts, custom) ==
  LET own == {f \in FieldsOf(m, custom) : f[1] = num}
      ext == IF inOpt THEN {<<e[2], e[3], e[4], "ext">> : e \in {x \in exts : x[1] = m /\ x[2] = num}} ELSE {}
  IN IF own # {} THEN CHOOSE f \in own : TRUE
     ELSE IF ext # {} THEN CHOOSE f \in ext : TRUE ELSE <<>>

IsOptionsField(f) == f[4] = "options"

Leaf == [k |-> <<>>, c |-> <<>>]
(* children of `node` under field number num (empty when the field has no elements) *)
Kids(node, num) ==
  LET at == {i \in DOMAIN node.k : node.k[i] = num}
  IN IF at = {} THEN <<>> ELSE node.c[CHOOSE i \in at : TRUE]

RECURSIVE Interp(_, _, _, _, _, _, _)
(* reasons why path[i..] cannot be interpreted starting in message type m at shape node `node` *)
Interp(path, i, m, node, inOpt, exts, custom) ==
  IF i > Len(path) THEN {}
  ELSE IF path[i] < 0 THEN {"negative_step"}
  ELSE LET f == Lookup(m, path[i], inOpt, exts, custom)
       IN IF f = <<>> THEN {IF inOpt THEN "undeclared_option_field" ELSE "undeclared_field"}
          ELSE IF f[3]      \* repeated
            THEN IF i = Len(path) THEN {}
                 ELSE LET idx  == path[i + 1]
                          kids == Kids(node, path[i])
                      IN IF idx < 0 THEN {"negative_index"}
                         ELSE IF ~inOpt /\ idx >= Len(kids) THEN {"index_out_of_range"}
                         ELSE IF f[2] = "scalar"
                           THEN IF i + 1 = Len(path) THEN {} ELSE {"step_below_scalar"}
                           ELSE Interp(path, i + 2, f[2], IF inOpt THEN Leaf ELSE kids[idx + 1], inOpt, exts, custom)
            ELSE IF f[2] = "scalar"
              THEN IF i = Len(path) THEN {} ELSE {"step_below_scalar"}
              ELSE Interp(path, i + 1, f[2], Leaf, inOpt \/ IsOptionsField(f), exts, custom)

PathProblems(path, shape, exts, custom) == Interp(path, 1, "FileDescriptorProto", shape, FALSE, exts, custom)
Interpretable(path, shape, exts, custom) == PathProblems(path, shape, exts, custom) = {}

RECURSIVE Under(_, _, _, _, _)
(* the path goes through an `options` field and continues below it: "inside an option value" *)
Under(path, i, m, exts, custom) ==
  IF i >= Len(path) THEN FALSE
  ELSE LET f == Lookup(m, path[i], FALSE, exts, custom)
       IN IF f = <<>> THEN FALSE
          ELSE IF IsOptionsField(f) THEN TRUE
          ELSE IF f[2] = "scalar" THEN FALSE
          ELSE IF f[3] THEN (i + 1 < Len(path) /\ Under(path, i + 2, f[2], exts, custom))
          ELSE Under(path, i + 1, f[2], exts, custom)
UnderOptions(path, exts, custom) == Under(path, 1, "FileDescriptorProto", exts, custom)

(* spans *)
SpanProblems(s, widths) ==
  IF Len(s) \notin {3, 4} THEN {"span_arity"}
  ELSE LET sl == s[1]  sc == s[2]
           el == IF Len(s) = 3 THEN s[1] ELSE s[3]
           ec == s[Len(s)]
           n  == Len(widths)
       IN (IF sl < 0 \/ sc < 0 \/ el < 0 \/ ec < 0 THEN {"span_negative"} ELSE {})
          \cup (IF sl >= 0 /\ sl < n /\ el >= 0 /\ el < n THEN
                  (IF sc > widths[sl + 1] THEN {"span_start_col_outside_line"} ELSE {})
                  \cup (IF ec > widths[el + 1] THEN {"span_end_col_outside_line"} ELSE {})
                ELSE {"span_line_outside_file"})
          \cup (IF el < sl \/ (el = sl /\ ec < sc) THEN {"span_start_after_end"} ELSE {})

=============================================================================
