----------------------------- MODULE ExpParseCallTrace -----------------------------
(* Direction B for C28: validates a file of recorded Parse calls (each introduced by its Call
   event = TraceReset) against ExpParseCall.tla.  Same scheme as TokenTileTrace: the action of the
   specification is taken when enabled; otherwise the trace is rejected, the failed checks are
   recorded, the effect is applied so that validation continues, and one REJECT line is printed
   when the call returns. *)
EXTENDS ExpParseCall, TLC, Json

Trace == ndJsonDeserialize("expparse_trace.ndjson")

VARIABLES i, cur, fails, at, info
vars == <<i, cur, fails, at, info, pvars>>

TInit == Init /\ i = 1 /\ cur = [id |-> 0] /\ fails = {} /\ at = 0 /\ info = << >>

Ev == Trace[i]

VerdictI(f, inf) ==
  IF f = {} THEN TRUE
  ELSE PrintT("CASE " \o ToJson([reject |-> cur.id, why |-> f, at |-> at, len |-> len, worst |-> worst,
                                 ndiag |-> ndiag, info |-> inf]))
Verdict(f) == VerdictI(f, info)

TCall ==
  /\ Ev.e = "Call"
  /\ (phase \notin {"idle", "returned"} => Verdict(fails \cup {"truncated_trace"}))
  /\ CallEffect(Ev.len)
  /\ cur' = Ev /\ fails' = {} /\ at' = 0 /\ info' = << >>

TDiag ==
  /\ Ev.e = "Diag"
  /\ LET f == Failed(DiagChecks(Ev.lvl, Ev.spans, Ev.edits))
     IN /\ fails' = fails \cup f
        /\ at' = IF at = 0 /\ f # {} THEN i ELSE at
        /\ info' = IF f # {} /\ Len(info) < 4 THEN Append(info, Ev) ELSE info
  /\ DiagEffect(Ev.lvl, Ev.spans, Ev.edits)
  /\ UNCHANGED cur

TReturn ==
  /\ Ev.e = "Return"
  /\ LET f == Failed(ReturnChecks(Ev.ok, Ev.file))
     IN /\ Verdict(fails \cup f)
        /\ fails' = fails \cup f /\ UNCHANGED <<at, info>>     \* kept until the next Call
  /\ ReturnEffect(Ev.ok, Ev.file)
  /\ UNCHANGED cur

TAbort ==
  /\ Ev.e \in {"Panic", "Hang"}
  /\ VerdictI(fails \cup {IF Ev.e = "Panic" THEN "panic" ELSE "hang"}, Append(info, Ev))
  /\ fails' = fails \cup {"abort"} /\ UNCHANGED <<at, info>> /\ phase' = "returned"
  /\ UNCHANGED <<cur, len, worst, ndiag>>

TNext == /\ i <= Len(Trace) /\ i' = i + 1
         /\ (TCall \/ TDiag \/ TReturn \/ TAbort)
TSpec == TInit /\ [][TNext]_vars

TraceInv == fails = {} => (TypeOK /\ NeverICE)

Consumed == /\ TLCGet("stats").diameter - 1 = Len(Trace)
            /\ Len(Trace) > 0
=============================================================================
