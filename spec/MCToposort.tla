------------------------------- MODULE MCToposort -------------------------------
(* C41: every digraph on the nodes 1..N (with or without self loops) x every root sequence up to
   MaxRoots.  Each state is one replay case for harness/toposort; the expected observable is the
   reachable set, whether a cycle is reachable, and the child-before-parent pairs. *)
EXTENDS Toposort, TLC, Json, SequencesExt
CONSTANTS N, MaxRoots, SelfLoops, MinEdges,
          Only        \* {} = explore everything; else a set of <<edge set, roots>> to replay
VARIABLES edges, roots
vars == <<edges, roots>>

Nodes == 1..N
Pairs == {p \in Nodes \X Nodes : SelfLoops \/ p[1] # p[2]}
Asc(S) == SetToSortSeq(S, LAMBDA a, b : a < b)

Allowed(E, r) == Only = {} \/ \E o \in Only : o[1] = E /\ Len(r) <= Len(o[2]) /\ SubSeq(o[2], 1, Len(r)) = r
Wanted == Only = {} \/ <<edges, roots>> \in Only

Init == /\ edges \in (IF Only = {} THEN {E \in SUBSET Pairs : Cardinality(E) >= MinEdges}
                                   ELSE {o[1] : o \in Only})
        /\ roots = <<>>
Next == /\ Len(roots) < MaxRoots
        /\ \E n \in Nodes : roots' = Append(roots, n)
        /\ UNCHANGED edges
        /\ Allowed(edges, roots')
Spec == Init /\ [][Next]_vars

Case == [n      |-> N,
         kids   |-> [p \in Nodes |-> Asc(Children(edges, p))],
         roots  |-> roots,
         reach  |-> Asc(Reach(edges, roots)),
         cyclic |-> Cyclic(edges, roots),
         before |-> SetToSeq(MustPrecede(edges, roots))]

(* guards the oracle: on an acyclic reachable part a valid order exists (reverse-DFS independent
   argument: ordering the reachable nodes by the size of their own closure is one) *)
Rank(n) == Cardinality(Closure(edges, {n}))
Witness == SetToSortSeq(Reach(edges, roots), LAMBDA a, b : Rank(a) < Rank(b) \/ (Rank(a) = Rank(b) /\ a < b))
OracleSane == (Wanted /\ ~Cyclic(edges, roots)) => ValidOrder(edges, roots, Witness)

Export == Wanted => PrintT("CASE " \o ToJson(Case))
=============================================================================
