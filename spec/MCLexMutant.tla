------------------------------- MODULE MCLexMutant -------------------------------
(* Mutation relation for C28 / C29: a mutant is (file, operator, position, argument) over a fixed
   list of valid base files.  ExpLexFiles (generated per run from the real files: byte length and
   the byte lengths of the leaf tokens of each unmutated file) supplies the position ranges, and
   the specification computes the byte length every mutant must have; the driver applies the
   operator and refuses to run when its result has a different length.

     deltok i   delete leaf token i            duptok i   duplicate leaf token i in place
     swaptok i  swap leaf tokens i and i+1      trunc k    keep the first k bytes
     nul p / inv p / dquote p / squote p / bslash p        insert 0x00 / 0x80 / " / ' / \ at byte p
     blockc p   insert "/*" at byte p           closer p a insert the a-th kind of closing bracket
     nestopen p N   insert N opening brackets   nestpair p N   insert N openers and their N closers
     cr p       insert 0x0D at byte p           crlfall    every LF of the file becomes CR LF (position 0 only)

   Byte positions are sampled on the lattice  p % Stride = Phase  plus both ends of the file (the
   engine derives Phase from VERIF_SEED; Stride = 1 is every position).                         *)
EXTENDS Naturals, Sequences, FiniteSets, TLC, Json, ExpLexFiles
CONSTANTS Files,        \* set of file indexes to mutate
          Stride, Phase, Depths
VARIABLE m
vars == <<m>>

TokOps  == {"deltok", "duptok", "swaptok"}
ByteOps == {"trunc", "nul", "inv", "dquote", "squote", "bslash", "blockc", "closer", "nestopen", "nestpair", "cr", "crlfall"}

NTok(f) == Len(FileTokLens[f])
Positions(f, op) ==
  IF op \in TokOps
    THEN {p \in 1..NTok(f) : (op = "swaptok" => p < NTok(f)) /\ (p % Stride = Phase % Stride \/ p = 1 \/ p = NTok(f))}
    ELSE IF op = "crlfall" THEN {0}
    ELSE {p \in 0..FileBytes[f] : p % Stride = Phase % Stride \/ p = 0 \/ p = FileBytes[f]}
Args(op) == CASE op \in {"nestopen", "nestpair"} -> Depths
              [] op = "closer" -> 0..2
              [] OTHER -> {0}

ExpectedLen(f, op, p, a) ==
  CASE op = "deltok"   -> FileBytes[f] - FileTokLens[f][p]
    [] op = "duptok"   -> FileBytes[f] + FileTokLens[f][p]
    [] op = "swaptok"  -> FileBytes[f]
    [] op = "trunc"    -> p
    [] op = "blockc"   -> FileBytes[f] + 2
    [] op = "nestopen" -> FileBytes[f] + a
    [] op = "nestpair" -> FileBytes[f] + 2 * a
    [] op = "crlfall"  -> FileBytes[f] + FileLFs[f]
    [] OTHER           -> FileBytes[f] + 1

Init == m = [kind |-> "none"]
Next == /\ m.kind = "none"
        /\ \E f \in Files, op \in TokOps \cup ByteOps :
             \E p \in Positions(f, op), a \in Args(op) :
               m' = [kind |-> "mut", file |-> f, op |-> op, pos |-> p, arg |-> a, len |-> ExpectedLen(f, op, p, a)]
Spec == Init /\ [][Next]_vars

Export == m.kind = "mut" => PrintT("CASE " \o ToJson(m))
=============================================================================
