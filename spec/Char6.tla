------------------------------- MODULE Char6 -------------------------------
(* C38: the inline ("char6") representation of short strings in intern.ID, specified
   arithmetically from the documented representation (intern.ID doc comment):

     - an ID is a signed 32-bit integer; the empty string is ID 0;
     - a string of up to five characters drawn from the 64-character alphabet
         0-9 a-z A-Z _ .        (sextet values 0..63 in that order; '.' is 077)
       that does not end in '.' is stored in-line: five sextets, first character in the
       least significant sextet, unused trailing sextets filled with 077, top two bits set;
     - everything else is not inline-encodable.

   A string is a sequence of byte values.  The arithmetic is written from that description, not
   from encodeChar6 / decodeChar6.  The numbering of the alphabet (digits, lower case, upper
   case, '_', '.') is the data constant char6ToByte of char6.go: the statement of C38 only asks
   for a one-to-one encoding, so a disagreement on an exact id (class char6:encode / sweep:encode)
   means "the numbering differs from this specification"; round trip, domain and injectivity
   (char6:decode, char6:inline-domain, sweep:roundtrip) are the property itself. *)
EXTENDS Integers, Sequences

MaxInlined == 5
Dot == 46

(* byte -> sextet, -1 when the byte is not in the alphabet *)
Sx(b) == CASE b >= 48 /\ b <= 57  -> b - 48            \* 0-9  ->  0..9
           [] b >= 97 /\ b <= 122 -> b - 97 + 10       \* a-z  -> 10..35
           [] b >= 65 /\ b <= 90  -> b - 65 + 36       \* A-Z  -> 36..61
           [] b = 95              -> 62                \* _
           [] b = Dot             -> 63                \* .
           [] OTHER               -> -1

(* sextet -> byte *)
Ch(x) == CASE x <= 9  -> 48 + x
           [] x <= 35 -> 97 + (x - 10)
           [] x <= 61 -> 65 + (x - 36)
           [] x = 62  -> 95
           [] OTHER   -> Dot

Inlineable(bs) ==
  \/ bs = <<>>
  \/ /\ Len(bs) <= MaxInlined
     /\ \A k \in 1..Len(bs) : Sx(bs[k]) >= 0
     /\ bs[Len(bs)] # Dot

(* value of the 32-bit pattern 11 s5 s4 s3 s2 s1 read as two's complement:
   -2^30 + sum s_k * 64^(k-1), with s_k = 63 beyond the end of the string *)
RECURSIVE Pow64(_)
Pow64(n) == IF n = 0 THEN 1 ELSE 64 * Pow64(n - 1)
SxAt(bs, k) == IF k <= Len(bs) THEN Sx(bs[k]) ELSE 63
RECURSIVE SumSx(_, _)
SumSx(bs, k) == IF k > MaxInlined THEN 0 ELSE SxAt(bs, k) * Pow64(k - 1) + SumSx(bs, k + 1)

Encode(bs) == IF bs = <<>> THEN 0 ELSE SumSx(bs, 1) - Pow64(MaxInlined)

(* inverse: the five sextets of id + 2^30, with the maximal run of trailing '.' removed *)
Sextet(id, k) == ((id + Pow64(MaxInlined)) \div Pow64(k - 1)) % 64
RECURSIVE Strip(_)
Strip(bs) == IF bs # <<>> /\ bs[Len(bs)] = Dot THEN Strip(SubSeq(bs, 1, Len(bs) - 1)) ELSE bs
Decode(id) == IF id = 0 THEN <<>> ELSE Strip([k \in 1..MaxInlined |-> Ch(Sextet(id, k))])

IsInlineId(id) == id = 0 \/ (id < 0 /\ id >= 0 - Pow64(MaxInlined))
=============================================================================
