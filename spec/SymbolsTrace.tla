----------------------------- MODULE SymbolsTrace -----------------------------
(* Direction B for C16: validate recorded executions of the real linker.Symbols against the
   lock-granularity model of Symbols.tla.  The trace (symtrace.ndjson, one JSON object per line, in the
   order of the tracer's sequence numbers) holds many runs; each run is
       init(parts)  { step | end | lookup | lookupExt }*  final(table)
   step     ev in {pkgR, pkgW, already, xchk, commit, addExt}: emitted under the lock of the critical
            section; must be exactly the next step of process e.p (StepP), with the same observation
   end      return of a top-level Import: must be the next unreported result of the model's process
   lookup   answer of Lookup / LookupExtension: must be what the model's table holds at that point
   final    the table at quiescence through the public API: must equal the model's table, every process
            must be finished, and the statement of C16 must hold for the REAL results.
   Every event advances i by one, so the trace was accepted iff the search reaches depth Len(TraceLog)+1. *)
EXTENDS Symbols, Json

TraceLog == ndJsonDeserialize("symtrace.ndjson")

VARIABLES i, tbl, procs, ends, parts, lk
vars == <<i, tbl, procs, ends, parts, lk>>

Ev == TraceLog[i]

Init == /\ i = 1
        /\ tbl = EmptyTable
        /\ procs = <<>>
        /\ ends = <<>>
        /\ parts = <<>>
        /\ lk = <<>>

StepEvents == {"pkgR", "pkgW", "already", "xchk", "commit", "addExt"}

AllDone == \A p \in DOMAIN procs : Done(procs[p])
SomeFail == \E p \in DOMAIN procs : \E k \in 1..Len(procs[p].res) : ~procs[p].res[k].ok
AllFiles == UNION {{parts[p][k] : k \in 1..Len(parts[p])} : p \in DOMAIN parts}

Reset == /\ Ev.ev = "init"
         /\ \A p \in DOMAIN Ev.parts : \A k \in 1..Len(Ev.parts[p]) : Ev.parts[p][k] \in FileIds
         /\ tbl' = EmptyTable
         /\ parts' = Ev.parts
         /\ procs' = [p \in DOMAIN Ev.parts |-> NewProc(Ev.parts[p])]
         /\ ends' = [p \in DOMAIN Ev.parts |-> 0]
         /\ lk' = <<>>

LabelMatches(lab, e) ==
  /\ lab.a = e.ev
  /\ lab.r = e.r
  /\ CASE e.ev \in {"already", "commit"} -> lab.f = e.f
       [] e.ev \in {"pkgR", "pkgW"} -> lab.name = e.name
       [] OTHER -> lab.name = e.name /\ lab.tag = e.tag

(* fixed variant: Import first looks the package up without registering it, and reads nothing else
   when it is not there -- a step without a lock of its own and so without an event.  The trace shows it
   only by the process's next event not being "already".  The look-up may be stale by the time of that
   event, so the skip is accepted whatever the table holds now (the code re-checks under the write lock
   in "commit"); this accepts more than the code can do, never less.  *)
RECURSIVE SkipCands(_, _)
SkipCands(P, n) ==
  {P} \cup (IF /\ n > 0 /\ Variant = "fixed" /\ P.stack # <<>>
                /\ Top(P.stack).pc \in {"already", "recheck"} /\ NPkg(Top(P.stack).f) > 0
             THEN SkipCands(IF Top(P.stack).pc = "already"
                            THEN Goto(P, Frame(Top(P.stack).f, "deps", 1))
                            ELSE FailP(P), n - 1)
             ELSE {})

Step == /\ Ev.ev \in StepEvents
        /\ Ev.p \in DOMAIN procs
        /\ ~Done(procs[Ev.p])
        /\ \E P \in {Q \in SkipCands(procs[Ev.p], 4) : ~Done(Q)} :
             LET r == StepP(tbl, P)
             IN /\ LabelMatches(r.lab, Ev)
                /\ tbl' = r.t
                /\ procs' = [procs EXCEPT ![Ev.p] = r.p]
        /\ UNCHANGED <<ends, parts, lk>>

End == /\ Ev.ev = "end"
       /\ Ev.p \in DOMAIN procs
       /\ \E P \in SkipCands(procs[Ev.p], 4) :
            /\ ends[Ev.p] < Len(P.res)
            /\ P.res[ends[Ev.p] + 1] = [f |-> Ev.f, ok |-> Ev.ok]
            /\ (P # procs[Ev.p] => ends[Ev.p] + 1 = Len(P.res))   \* a silent step only for the newest result
            /\ procs' = [procs EXCEPT ![Ev.p] = P]
       /\ ends' = [ends EXCEPT ![Ev.p] = @ + 1]
       /\ UNCHANGED <<tbl, parts, lk>>

(* Lookup / LookupExtension are two critical sections: the walk down the package trie (read locks of
   the nodes on the way) chooses the node, then that node's map is read under its read lock, where the
   event is emitted.  A location is read from the map at the event, so "found" must hold in the table now.
   A nil answer may have been decided by the walk (the package of the name was not registered yet) and is
   linearised there: it is accepted if the name was not in the table at the previous event of the same
   goroutine (the table only grows, and the walk came after that event).  lk remembers that table.
   The answer for a name that is a registered PACKAGE is left open: the statements speak of the symbols
   of files.  (Observed: Lookup("p") is nil before and long after package p is registered, but answers
   with the package's location when the registration falls between the walk and the read.)  *)
Prev(p) == IF p \in DOMAIN lk THEN lk[p] ELSE [syms |-> {}, exts |-> {}]
Remember(p) == lk' = (p :> [syms |-> DOMAIN tbl.syms, exts |-> DOMAIN tbl.exts]) @@ lk

Lookup == /\ Ev.ev = "lookup"
          /\ \/ Ev.name \in tbl.pkgs
             \/ Ev.r = "found" /\ Ev.name \in DOMAIN tbl.syms
             \/ Ev.r = "nil" /\ Ev.name \notin Prev(Ev.p).syms
          /\ Remember(Ev.p)
          /\ UNCHANGED <<tbl, procs, ends, parts>>

LookupExt == /\ Ev.ev = "lookupExt"
             /\ \/ Ev.r = "found" /\ <<Ev.name, Ev.tag>> \in DOMAIN tbl.exts
                \/ Ev.r = "nil" /\ <<Ev.name, Ev.tag>> \notin Prev(Ev.p).exts
             /\ Remember(Ev.p)
             /\ UNCHANGED <<tbl, procs, ends, parts>>

Final == /\ Ev.ev = "final"
         /\ AllDone
         /\ \A p \in DOMAIN procs : ends[p] = Len(procs[p].res)
         /\ {<<Ev.syms[k][1], Ev.syms[k][2]>> : k \in 1..Len(Ev.syms)}
              = {<<n, tbl.syms[n].f>> : n \in DOMAIN tbl.syms}
         /\ {<<Ev.exts[k][1], Ev.exts[k][2], Ev.exts[k][3]>> : k \in 1..Len(Ev.exts)}
              = {<<x[1], x[2], tbl.exts[x]>> : x \in DOMAIN tbl.exts}
         /\ Ev.somefail = SomeFail
         (* C16 on the real verdicts *)
         /\ Ev.somefail <=> UnionHasCollision(AllFiles)
         /\ UNCHANGED <<tbl, procs, ends, parts, lk>>

Next == /\ i <= Len(TraceLog)
        /\ i' = i + 1
        /\ (Reset \/ Step \/ End \/ Lookup \/ LookupExt \/ Final)
Spec == Init /\ [][Next]_vars

(* invariants of the model, evaluated along the real executions *)
TableSound ==
  LET F == Closure(AllFiles)
  IN /\ \A n \in DOMAIN tbl.syms : tbl.syms[n].f \in F /\ n \in SymNames(tbl.syms[n].f)
     /\ \A k \in DOMAIN tbl.exts : tbl.exts[k] \in F /\ k \in ExtKeys(tbl.exts[k])
     /\ DOMAIN tbl.syms \cap tbl.pkgs = {}

TraceAccepted ==
  LET d == TLCGet("stats").diameter
  IN IF d - 1 = Len(TraceLog) THEN TRUE
     ELSE Print(<<"TRACE-REJECTED at event", d, TraceLog[d]>>, FALSE)
=============================================================================
