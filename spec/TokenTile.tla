------------------------------- MODULE TokenTile -------------------------------
(* C29 -- "the experimental lexer's tokens are contiguous and cover the whole input with no gaps
   or overlaps; concatenating their text reproduces the input exactly; bracket tokens are matched
   or reported as errors."

   One lexer run is observed at call return as:   Begin(input) ; Diag* ; Emit* ; End
   (the report first, then the LEAF token stream in stream order).  Written from the property
   statement, not from the lexer: the conditions below are what the statement demands of any
   tokeniser with bracket fusion.  Every action is  "all of its named checks hold"  /\  effect;
   the named checks are exposed (XChecks) so that a trace validator can say which one a real
   trace broke.

   Emit(id, s, t, kind, role, mate, br, fk, txt, text)
     s, t    leaf byte offsets [s, t)            kind   token kind
     role    "leaf" | "open" | "close"  (fused with token `mate`)
     br      "(" ")" "[" "]" "{" "}" when the token is that bracket keyword, "" otherwise
     fk      for a fused token the bracket pair its fused keyword names: "()", "[]", "{}" or ""
     txt     the token's own text is the input slice [s, t)   (projection computed at the API)
     text    the token's bytes (only when the input's bytes are carried: hasbytes)            *)
EXTENDS Naturals, Sequences, FiniteSets

Kinds    == {"Unrecognized", "Space", "Comment", "Ident", "String", "Number", "Keyword"}
Openers  == {"(", "[", "{"}
Closers  == {")", "]", "}"}
Match(o) == CASE o = "(" -> ")" [] o = "[" -> "]" [] o = "{" -> "}" [] OTHER -> "?"
PairName(o) == CASE o = "(" -> "()" [] o = "[" -> "[]" [] o = "{" -> "{}" [] OTHER -> "?"

(* report levels: ICE < Error < Warning < Remark numerically; "error or worse" is <= Error *)
ICE == 1   Error == 2   Warning == 3   Remark == 4
IsError(level) == level <= Error

VARIABLES
  len,       \* byte length of the input
  bytes,     \* the input's bytes when carried (short inputs), else << >>
  hasbytes,
  phase,     \* "idle" | "report" | "tokens" | "done"
  errs,      \* spans <<s, t>> annotated by diagnostics of level Error or worse
  nerr,      \* number of diagnostics of level Error or worse
  pos,       \* end offset of the last emitted token
  n,         \* number of tokens emitted
  stack,     \* fused openers awaiting their closer: [id, br, mate, s, t]
  strrun     \* 0, or the id of the String token that closes the current fused run of adjacent strings
tvars == <<len, bytes, hasbytes, phase, errs, nerr, pos, n, stack, strrun>>

Init == /\ len = 0 /\ bytes = << >> /\ hasbytes = FALSE /\ phase = "idle" /\ errs = {} /\ nerr = 0
        /\ pos = 0 /\ n = 0 /\ stack = << >> /\ strrun = 0

Failed(checks) == {c \in DOMAIN checks : ~checks[c]}

(* a span <<s, t>> reported by an Error-level diagnostic covers the token [s, t) *)
Reported(s, t) == \E sp \in errs : sp[1] <= s /\ t <= sp[2]

Top == stack[Len(stack)]

----------------------------------------------------------------------------------------------
BeginChecks(l, bs, hb) ==
  [ begin_when_idle |-> phase \in {"idle", "done"},
    begin_bytes     |-> hb => Len(bs) = l ]
Begin(l, bs, hb) ==
  /\ Failed(BeginChecks(l, bs, hb)) = {}
  /\ len' = l /\ bytes' = bs /\ hasbytes' = hb /\ phase' = "report" /\ errs' = {} /\ nerr' = 0
  /\ pos' = 0 /\ n' = 0 /\ stack' = << >> /\ strrun' = 0

DiagChecks(level, spans) ==
  [ diag_in_report_phase |-> phase = "report",
    diag_level_valid     |-> level \in ICE..Remark ]
DiagEffect(level, spans) ==
  /\ errs' = IF IsError(level) THEN errs \cup {spans[i] : i \in DOMAIN spans} ELSE errs
  /\ nerr' = IF IsError(level) THEN nerr + 1 ELSE nerr
  /\ UNCHANGED <<len, bytes, hasbytes, phase, pos, n, stack, strrun>>
Diag(level, spans) == Failed(DiagChecks(level, spans)) = {} /\ DiagEffect(level, spans)

(* what kind of bracket event this token is *)
IsBracket(br)         == br \in Openers \cup Closers
ImplicitClose(s, t, kind, role, br) == role = "close" /\ br = "" /\ kind = "Unrecognized" /\ s = t

EmitChecks(id, s, t, kind, role, mate, br, fk, txt, text) ==
  [ emit_in_token_phase |-> phase \in {"report", "tokens"},
    id_sequential       |-> id = n + 1,
    kind_known          |-> kind \in Kinds,
    (* --- tiling --- *)
    contiguous          |-> s = pos,                       \* starts where the previous ended (first: 0)
    ordered             |-> s <= t,
    inside_input        |-> t <= len,
    text_is_slice       |-> txt /\ (hasbytes /\ s <= t /\ t <= len => text = SubSeq(bytes, s + 1, t)),
    (* an empty token carries no text; the statement tolerates it only as the stand-in closer of an
       unclosed bracket, which must have been reported *)
    empty_only_implicit_close |-> s < t \/ ImplicitClose(s, t, kind, role, br),
    (* --- brackets: matched, or reported as errors --- *)
    bracket_is_keyword  |-> IsBracket(br) => kind = "Keyword",
    role_known          |-> role \in {"leaf", "open", "close"},
    unmatched_reported  |-> (IsBracket(br) /\ role = "leaf") => Reported(s, t),
    opener_opens        |-> (br \in Openers /\ role # "leaf") =>
                               /\ role = "open" /\ mate > id /\ fk = PairName(br)
                               /\ (Len(stack) > 0 => mate < Top.mate),       \* closes inside the enclosing pair
    closer_closes       |-> (br \in Closers /\ role # "leaf") =>
                               /\ role = "close" /\ Len(stack) > 0
                               /\ Top.id = mate /\ Top.mate = id            \* pops exactly its own opener: proper nesting
                               /\ Match(Top.br) = br /\ fk = PairName(Top.br),
    implicit_close_ok   |-> ImplicitClose(s, t, kind, role, br) =>
                               /\ Len(stack) > 0 /\ Top.id = mate /\ Top.mate = id
                               /\ Reported(Top.s, Top.t),                    \* the unclosed opener was reported
    (* fused tokens are brackets, implicit closers, or runs of adjacent strings *)
    fusion_kind         |-> role # "leaf" =>
                               \/ IsBracket(br) \/ ImplicitClose(s, t, kind, role, br) \/ kind = "String",
    string_run          |-> /\ (kind = "String" /\ role = "open")  => (strrun = 0 /\ mate > id)
                            /\ (kind = "String" /\ role = "close") => (strrun = id)
                            /\ (strrun # 0 /\ ~(kind = "String" /\ role = "close")) =>
                                  (role = "leaf" /\ kind \in {"Space", "Comment", "String"})
  ]
EmitEffect(id, s, t, kind, role, mate, br, fk, txt, text) ==
  /\ phase' = "tokens" /\ pos' = t /\ n' = n + 1
  /\ stack' = IF role = "open" /\ br \in Openers
                THEN Append(stack, [id |-> id, br |-> br, mate |-> mate, s |-> s, t |-> t])
              ELSE IF role = "close" /\ kind # "String" /\ Len(stack) > 0
                THEN SubSeq(stack, 1, Len(stack) - 1)
              ELSE stack
  /\ strrun' = IF kind = "String" /\ role = "open" THEN mate
               ELSE IF kind = "String" /\ role = "close" THEN 0 ELSE strrun
  /\ UNCHANGED <<len, bytes, hasbytes, errs, nerr>>
Emit(id, s, t, kind, role, mate, br, fk, txt, text) ==
  /\ Failed(EmitChecks(id, s, t, kind, role, mate, br, fk, txt, text)) = {}
  /\ EmitEffect(id, s, t, kind, role, mate, br, fk, txt, text)

(* End(cnt, cat, walk): cnt tokens were listed; cat: the concatenation of the token texts is the input;
   walk: a recursive cursor walk (into fused pairs) visits exactly the listed tokens in order *)
EndChecks(cnt, cat, walk) ==
  [ end_after_begin    |-> phase \in {"report", "tokens"},
    covers_input       |-> pos = len,                      \* the last token ends at Len(input)
    count_agrees       |-> cnt = n,
    concat_is_input    |-> cat,
    openers_all_closed |-> stack = << >> /\ strrun = 0,
    tree_walk_agrees   |-> walk ]
EndEffect(cnt, cat, walk) ==
  /\ phase' = "done" /\ UNCHANGED <<len, bytes, hasbytes, errs, nerr, pos, n, stack, strrun>>
End(cnt, cat, walk) == Failed(EndChecks(cnt, cat, walk)) = {} /\ EndEffect(cnt, cat, walk)

----------------------------------------------------------------------------------------------
(* The property, as state invariants of every behaviour built from the actions above. *)
TypeOK == /\ len \in Nat /\ pos \in Nat /\ n \in Nat /\ nerr \in Nat
          /\ phase \in {"idle", "report", "tokens", "done"}
NoOverrun   == pos <= len
Tiled       == phase = "done" => pos = len /\ stack = << >> /\ strrun = 0
WellNested  == \A i \in 1..Len(stack) : /\ stack[i].br \in Openers /\ stack[i].mate > stack[i].id
                                        /\ (i > 1 => stack[i].mate < stack[i - 1].mate)
=============================================================================
