----------------------------- MODULE FileFeatures -----------------------------
(* A generator-level specification of "accepted source sets that contain every element kind"
   (quantifier of C09 C10 C11 C21 C22 C23 C24 C27 C30 C31): a workspace is a syntax plus a set of
   language features; Valid says which combinations the language admits; Kinds says which
   descriptor element kinds the compiled main file must then contain, and Deps its import list
   in order.  The concrete text of each feature lives in the Go renderer
   (harness/_common/featgen); the renderer is cross-checked against Kinds/Deps on every case.  *)
EXTENDS Naturals, Sequences, FiniteSets

Syntaxes == {"proto2", "proto3", "editions"}

Features == {"pkg", "import", "public", "nested", "enum", "map", "group", "oneof", "p3opt", "extrange",
             "extend", "service", "customopt", "msglit", "srcret", "stdopt", "default", "reserved",
             "jsonname", "required", "features", "comments", "weird_layout",
             "jsoncollide",   \* two fields whose DEFAULT json names collide (foo_bar / fooBar): only a warning outside proto3
             "extgroup",      \* proto2: a group declared inside an extend block (top level and nested in a message)
             "mapfeatures"}   \* editions: feature overrides on a map field (copied to the synthetic entry's key/value)

(* what the language admits *)
SyntaxOK(s, f) ==
  CASE f = "p3opt"    -> s = "proto3"
    [] f = "group"    -> s # "proto3"        \* editions: rendered as DELIMITED message encoding
    [] f = "extrange" -> s # "proto3"
    [] f = "extend"   -> s # "proto3"
    [] f = "required" -> s # "proto3"        \* editions: LEGACY_REQUIRED
    [] f = "default"  -> s # "proto3"
    [] f = "features" -> s = "editions"
    [] f = "mapfeatures" -> s = "editions"
    [] f = "jsoncollide" -> s = "proto2"
    [] f = "extgroup" -> s = "proto2"
    [] OTHER -> TRUE

Needs(f) == CASE f = "extend" -> {"extrange"} [] f = "extgroup" -> {"extrange"} [] f = "public" -> {"import"} [] f = "msglit" -> {"customopt"}
              [] f = "srcret" -> {"customopt"} [] OTHER -> {}

Valid(s, fs) == /\ s \in Syntaxes /\ fs \subseteq Features
                /\ \A f \in fs : SyntaxOK(s, f) /\ Needs(f) \subseteq fs

(* expected import list of main.proto, in order *)
Deps(fs) == (IF "customopt" \in fs THEN <<"google/protobuf/descriptor.proto">> ELSE <<>>)
            \o (IF "import" \in fs THEN <<"dep.proto">> ELSE <<>>)
            \o (IF "public" \in fs THEN <<"mid.proto">> ELSE <<>>)

(* element kinds the compiled descriptor of main.proto must contain *)
Kinds(s, fs) ==
  {"message", "field"}
  \cup (IF "nested" \in fs THEN {"nested_message", "nested_enum"} ELSE {})
  \cup (IF "enum" \in fs THEN {"enum", "enum_alias"} ELSE {})
  \cup (IF "map" \in fs THEN {"map_entry"} ELSE {})
  \cup (IF "group" \in fs THEN (IF s = "proto2" THEN {"group"} ELSE {"delimited"}) ELSE {})
  \cup (IF "oneof" \in fs THEN {"oneof"} ELSE {})
  \cup (IF "p3opt" \in fs THEN {"synthetic_oneof"} ELSE {})
  \cup (IF "extrange" \in fs THEN {"extension_range"} ELSE {})
  \cup (IF "extend" \in fs \/ "customopt" \in fs \/ "extgroup" \in fs THEN {"extension"} ELSE {})
  \cup (IF "extgroup" \in fs THEN {"group", "group_in_extend", "nested_message"} ELSE {})
  \cup (IF "service" \in fs THEN {"service", "streaming_method"} ELSE {})
  \cup (IF "customopt" \in fs THEN {"custom_option_set"} ELSE {})
  \cup (IF "default" \in fs THEN {"default_value"} ELSE {})
  \cup (IF "reserved" \in fs THEN {"reserved_range", "reserved_name"} ELSE {})
  \cup (IF "jsonname" \in fs THEN {"json_name"} ELSE {})
  \cup (IF "required" \in fs THEN (IF s = "proto2" THEN {"required"} ELSE {"legacy_required"}) ELSE {})
  \cup (IF "srcret" \in fs THEN {"source_retention_option"} ELSE {})
  \cup (IF "jsoncollide" \in fs THEN {"json_default_collision"} ELSE {})
  \cup (IF "mapfeatures" \in fs THEN {"map_entry", "map_field_features"} ELSE {})
=============================================================================
