------------------------------- MODULE SyncLog -------------------------------
(* internal/ext/syncx.Log: the append-only log under intern.Table (C38).

   One action per atomic memory operation of Append / Load, in program order:

     Append(v):  ticket   i := next.Add(1) - 1
                 cap      c := cap.Load(), repeated until i <= c            (spin = stuttering)
       i < c :   fptr     p := ptr.Load()
                 write    p[i] := v          (plain store, bounds-checked against c)
                 flen     len.Add(1)
                 fdone    wait until len.Load() > i ; return i
       i = c :   gready   wait until len.Load() = c
                 gcopy    p := ptr.Load(); allocate a larger array; copy p[0..c) ; new[c] := v
                 gptr     ptr.Store(new)
                 gcap     cap.Store(cap(new))
                 glen     len.Add(1) ; return i
     Load(idx):  llen     n := len.Load()
                 lptr     p := ptr.Load()
                 lread    return p[0..n)[idx]      (panics when idx >= n)

   The heap is a sequence of arrays; ptr is an index into it (1 = the initial nil slice).
   The property (DESIGN C38): an index returned by Append is loadable from then on, by
   anybody, and holds the appended value; indices are unique.  It is stated over the set
   `ret` of completed appends that the client module (MCSyncLog / Intern) maintains. *)
EXTENDS Integers, Sequences, FiniteSets

CONSTANTS Procs, NoVal

VARIABLES lnext, llen, lcap, lptr, heap, lpc, lreg
lshared == <<lnext, llen, lcap, lptr, heap>>
lvars == <<lnext, llen, lcap, lptr, heap, lpc, lreg>>

LReg0 == [v |-> NoVal, i |-> 0, c |-> 0, p |-> 1, ln |-> 0, idx |-> 0, ret |-> NoVal]

LInit == /\ lnext = 0 /\ llen = 0 /\ lcap = 0 /\ lptr = 1
         /\ heap = << <<>> >>
         /\ lpc = [g \in Procs |-> "idle"]
         /\ lreg = [g \in Procs |-> LReg0]

LGoto(g, to) == lpc' = [lpc EXCEPT ![g] = to]

(* ---- call / return interface used by client modules (conjoined into their own actions) ---- *)
AppendBegin(g, v) == /\ lpc[g] = "idle"
                     /\ LGoto(g, "ticket")
                     /\ lreg' = [lreg EXCEPT ![g] = [LReg0 EXCEPT !.v = v]]
                     /\ UNCHANGED lshared
AppendReturned(g) == lpc[g] = "adone"
LoadBegin(g, idx) == /\ lpc[g] = "idle"
                     /\ LGoto(g, "llen")
                     /\ lreg' = [lreg EXCEPT ![g] = [LReg0 EXCEPT !.idx = idx]]
                     /\ UNCHANGED lshared
LoadAtRead(g)     == lpc[g] = "lread"
LogEnd(g)         == LGoto(g, "idle") /\ UNCHANGED <<lshared, lreg>>
LogIdle(g)        == lpc[g] = "idle"

(* ---- Append ---- *)
LTicket(g) == /\ lpc[g] = "ticket"
              /\ lnext' = lnext + 1
              /\ lreg' = [lreg EXCEPT ![g].i = lnext]
              /\ LGoto(g, "capwait")
              /\ UNCHANGED <<llen, lcap, lptr, heap>>

LCap(g) == /\ lpc[g] = "capwait"
           /\ lreg[g].i <= lcap
           /\ lreg' = [lreg EXCEPT ![g].c = lcap]
           /\ LGoto(g, IF lreg[g].i < lcap THEN "fptr" ELSE "gwait")
           /\ UNCHANGED lshared

LFPtr(g) == /\ lpc[g] = "fptr"
            /\ lreg' = [lreg EXCEPT ![g].p = lptr]
            /\ LGoto(g, "write")
            /\ UNCHANGED lshared

LWrite(g) == /\ lpc[g] = "write"
             /\ LET r == lreg[g] IN
                IF r.i < r.c /\ r.c <= Len(heap[r.p])
                THEN /\ heap' = [heap EXCEPT ![r.p][r.i + 1] = r.v]
                     /\ LGoto(g, "flen")
                ELSE /\ LGoto(g, "panic") /\ UNCHANGED heap
             /\ UNCHANGED <<lnext, llen, lcap, lptr, lreg>>

LFLen(g) == /\ lpc[g] = "flen"
            /\ llen' = llen + 1
            /\ LGoto(g, "fwait")
            /\ UNCHANGED <<lnext, lcap, lptr, heap, lreg>>

LFDone(g) == /\ lpc[g] = "fwait"
             /\ llen > lreg[g].i
             /\ LGoto(g, "adone")
             /\ UNCHANGED <<lshared, lreg>>

LGReady(g) == /\ lpc[g] = "gwait"
              /\ llen = lreg[g].c
              /\ LGoto(g, "gcopy")
              /\ UNCHANGED <<lshared, lreg>>

(* nc: the capacity the allocator picks (append() guarantees nc > c) *)
LGCopy(g, nc) == /\ lpc[g] = "gcopy"
                 /\ nc > lreg[g].c
                 /\ LET r == lreg[g]
                        old == heap[lptr]
                        new == [k \in 1..nc |->
                                 IF k <= r.c THEN (IF k <= Len(old) THEN old[k] ELSE NoVal)
                                 ELSE IF k = r.c + 1 THEN r.v ELSE NoVal]
                    IN /\ heap' = Append(heap, new)
                       /\ lreg' = [lreg EXCEPT ![g].p = Len(heap) + 1]
                 /\ LGoto(g, "gptr")
                 /\ UNCHANGED <<lnext, llen, lcap, lptr>>

LGPtr(g) == /\ lpc[g] = "gptr"
            /\ lptr' = lreg[g].p
            /\ LGoto(g, "gcap")
            /\ UNCHANGED <<lnext, llen, lcap, heap, lreg>>

LGCap(g) == /\ lpc[g] = "gcap"
            /\ lcap' = Len(heap[lreg[g].p])
            /\ LGoto(g, "glen")
            /\ UNCHANGED <<lnext, llen, lptr, heap, lreg>>

LGLen(g) == /\ lpc[g] = "glen"
            /\ llen' = llen + 1
            /\ LGoto(g, "adone")
            /\ UNCHANGED <<lnext, lcap, lptr, heap, lreg>>

(* ---- Load ---- *)
LLLen(g) == /\ lpc[g] = "llen"
            /\ lreg' = [lreg EXCEPT ![g].ln = llen]
            /\ LGoto(g, "lptr")
            /\ UNCHANGED lshared

LLPtr(g) == /\ lpc[g] = "lptr"
            /\ lreg' = [lreg EXCEPT ![g].p = lptr]
            /\ LGoto(g, "lread")
            /\ UNCHANGED lshared

(* the slot read; a slice of length ln over an array shorter than ln is memory-unsafe, and an
   index outside the slice panics: both end in "panic" *)
LLRead(g) == /\ lpc[g] = "lread"
             /\ LET r == lreg[g] IN
                IF r.idx >= 0 /\ r.idx < r.ln /\ r.ln <= Len(heap[r.p])
                THEN /\ lreg' = [lreg EXCEPT ![g].ret = heap[r.p][r.idx + 1]]
                     /\ LGoto(g, "ldone")
                ELSE /\ LGoto(g, "panic") /\ UNCHANGED lreg
             /\ UNCHANGED lshared

LStepFixed(g) == \/ LTicket(g) \/ LCap(g) \/ LFPtr(g) \/ LWrite(g) \/ LFLen(g) \/ LFDone(g)
                 \/ LGReady(g) \/ LGPtr(g) \/ LGCap(g) \/ LGLen(g)
                 \/ LLLen(g) \/ LLPtr(g) \/ LLRead(g)

(* ---- the property, over a function ret : returned index -> appended value ---- *)
NoLogPanic == \A g \in Procs : lpc[g] # "panic"
Loadable(ret) == \A i \in DOMAIN ret : /\ i < llen
                                       /\ i + 1 <= Len(heap[lptr])
                                       /\ heap[lptr][i + 1] = ret[i]
LoadReturns(ret) == \A g \in Procs : lpc[g] = "ldone" /\ lreg[g].idx \in DOMAIN ret
                                       => lreg[g].ret = ret[lreg[g].idx]
TicketsDense == /\ llen <= lnext
                /\ Cardinality({g \in Procs : lpc[g] \in {"capwait", "fptr", "write", "flen", "gwait",
                                                          "gcopy", "gptr", "gcap", "glen"}}) = lnext - llen

(* ---- binding of one recorded hook event (ev, i, x) of goroutine g to the action it logs ---- *)
IsLogEvent(e) == e.ev \in {"log.ticket", "log.cap", "log.fptr", "log.write", "log.flen", "log.fdone",
                           "log.gready", "log.gcopy", "log.gptr", "log.gcap", "log.glen",
                           "log.llen", "log.lptr"}
LogEvent(e, g) ==
  CASE e.ev = "log.ticket" -> LTicket(g) /\ lreg'[g].i = e.i
    [] e.ev = "log.cap"    -> LCap(g) /\ lreg[g].i = e.i /\ ((e.x > e.i) <=> (lpc'[g] = "fptr"))
    [] e.ev = "log.fptr"   -> LFPtr(g) /\ lreg[g].i = e.i
    [] e.ev = "log.write"  -> LWrite(g) /\ lreg[g].i = e.i /\ lpc'[g] = "flen"
    [] e.ev = "log.flen"   -> LFLen(g) /\ lreg[g].i = e.i
    [] e.ev = "log.fdone"  -> LFDone(g) /\ lreg[g].i = e.i
    [] e.ev = "log.gready" -> LGReady(g) /\ lreg[g].i = e.i
    [] e.ev = "log.gcopy"  -> LGCopy(g, e.x) /\ lreg[g].i = e.i
    [] e.ev = "log.gptr"   -> LGPtr(g) /\ lreg[g].i = e.i
    [] e.ev = "log.gcap"   -> LGCap(g) /\ lreg[g].i = e.i
    [] e.ev = "log.glen"   -> LGLen(g) /\ lreg[g].i = e.i
    [] e.ev = "log.llen"   -> LLLen(g) /\ lreg[g].idx = e.i /\ lreg'[g].ln = e.x
    [] e.ev = "log.lptr"   -> LLPtr(g) /\ lreg[g].idx = e.i
=============================================================================
