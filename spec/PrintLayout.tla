----------------------------- MODULE PrintLayout -----------------------------
(* C30 / C31: what a LAYOUT of a source file is, independent of any printer.

   A file is a token skeleton t1 .. tn (the values of PrintLayoutSkel!Skel) plus one trivia string per GAP:
        gap 0 = before t1 (start of file), gap i = after ti, gap n = between the last token and end of file.
   The text of the file is  trivia(0) t1 trivia(1) t2 ... tn trivia(n)   (Items), nothing else: whatever a printer
   in round-trip mode emits has to be exactly this concatenation (C30), and whatever a formatter emits has to
   compile to the descriptors of t1 .. tn (C31) whatever the trivia were.

   A layout is the skeleton's default layout (plain canonical: one statement per line, two-space indentation)
   with PLACEMENTS <<gap, trivia kind>> overriding the default at some gaps.  Admissible says which trivia a gap
   may carry without changing the token sequence (two word-like tokens need a separator; a comment without a
   line end only at the very end of the file; a byte order mark only at the very start).

   Every gap has a CLASS computed from the tokens alone:   <scope>:<token before>|<token after>
   with scope = innermost open bracket (file, body = declaration braces, lit = message-literal braces,
   alit = message-literal angle brackets, opts = compact-option brackets, arr = list brackets inside a
   literal, paren, angle = map type parameters).  The FEATURE VECTOR of a layout is the set of Feature strings
   "<trivia category>@<zone>(<class>)=<trivia kind>" of its placements.  Known findings are keyed by (minimal)
   feature sets. *)
EXTENDS Naturals, Sequences, FiniteSets, PrintLayoutSkel

(* ---- trivia kinds.  "<U+XXXX>" stands for that code point (TLA+ strings are ASCII here). ---- *)
TriviaText == [
  none    |-> "",
  sp      |-> " ",
  sp2     |-> "  ",
  tab     |-> "\t",
  lf      |-> "\n",
  lf2     |-> "\n  ",
  lf4     |-> "\n    ",
  lf6     |-> "\n      ",
  lf3     |-> "\n   ",                  \* a line break with an indentation no pretty-printer would choose
  blank   |-> "\n\n",
  crlf    |-> "\r\n",
  ff      |-> "\f",
  lcom    |-> "// c\n",                 \* line comment glued to the previous token, then LF
  trail   |-> " // t\n",                \* trailing comment after the token: space, comment, LF
  ownlcom |-> "\n// o\n",               \* comment on a line of its own
  detach  |-> "\n\n// d\n\n",           \* detached comment paragraph
  bcom    |-> "/* b */",                \* block comment glued on both sides
  spbcom  |-> " /* b<U+00E9> */ ",      \* block comment with spaces around it, multi-byte text
  mlbcom  |-> "\n/* m\n   m */\n",      \* multi-line block comment on lines of its own
  wsbcom  |-> "\n/* w\n \n      w\n    */\n",   \* ... with a whitespace-only line indented less than all other lines
  eofcom  |-> "// e",                   \* line comment without line end (only at end of file)
  bom     |-> "<U+FEFF>"                \* byte order mark (only at start of file)
]
Kinds == DOMAIN TriviaText

Separates(k) == k \notin {"none", "bom"}          \* the trivia keeps two word-like tokens apart
EndsLine(k)  == k \in {"lf", "blank", "crlf", "lcom", "trail", "ownlcom", "detach", "mlbcom", "wsbcom"}
HasComment(k) == k \in {"lcom", "trail", "ownlcom", "detach", "bcom", "spbcom", "mlbcom", "wsbcom", "eofcom"}

(* kinds offered at an ordinary gap / at the two ends of the file *)
GapKinds == {"none", "sp", "sp2", "tab", "ff", "lf", "lf3", "blank", "crlf", "lcom", "trail", "ownlcom", "detach",
             "bcom", "spbcom", "mlbcom", "wsbcom"}
BOFKinds == {"bom", "lf", "blank", "ownlcom", "detach", "lcom", "bcom", "sp", "crlf", "wsbcom"}
EOFKinds == {"none", "blank", "crlf", "sp", "eofcom", "lcom", "trail", "ownlcom", "detach", "bcom", "mlbcom", "wsbcom", "lf3"}

(* ---- skeleton accessors: s is a token skeleton, i.e. a sequence of <<text, category, default gap kind>> ---- *)
NTok(s) == Len(s)
Gaps(s) == 0..NTok(s)
TokText(s, i) == s[i][1]
TokCat(s, i) == s[i][2]
DefaultKind(s, g) == IF g = 0 THEN "none" ELSE s[g][3]

(* a layout: pl is a set of <<gap, kind>> with at most one kind per gap *)
IsLayout(s, pl) == /\ \A p \in pl : p[1] \in Gaps(s) /\ p[2] \in Kinds
                   /\ \A p, q \in pl : p[1] = q[1] => p = q
KindAt(s, pl, g) == IF \E p \in pl : p[1] = g THEN (CHOOSE p \in pl : p[1] = g)[2] ELSE DefaultKind(s, g)

(* ---- which trivia a gap admits ---- *)
WordLike(c) == c \in {"w", "n"}
NeedsSeparator(s, g) ==
  /\ g > 0 /\ g < NTok(s)
  /\ LET a == TokCat(s, g) b == TokCat(s, g + 1)
     IN \/ WordLike(a) /\ WordLike(b)
        \/ WordLike(a) /\ b = "s"
        \/ a = "s" /\ WordLike(b)
        \/ a = "n" /\ TokText(s, g + 1) = "."          \* "1." would lex as a float
        \/ TokText(s, g) = "." /\ b = "n"
        \/ WordLike(a) /\ TokText(s, g + 1) = "." /\ DefaultKind(s, g) # "none"   \* a leading dot stays apart
Admissible(s, g, k) ==
  /\ g \in Gaps(s)
  /\ IF NTok(s) = 0 THEN k \in BOFKinds \cup EOFKinds \cup {"sp2", "tab", "ff"}    \* no token at all: the one gap is the whole file
     ELSE IF g = 0 THEN k \in BOFKinds ELSE IF g = NTok(s) THEN k \in EOFKinds ELSE k \in GapKinds
  /\ NeedsSeparator(s, g) => Separates(k)
  /\ k # DefaultKind(s, g)

(* ---- gap classes ---- *)
PunctName == [ semi |-> ";", lbrace |-> "{", rbrace |-> "}", lbrack |-> "[", rbrack |-> "]", lparen |-> "(",
               rparen |-> ")", langle |-> "<", rangle |-> ">", comma |-> ",", dot |-> ".", eq |-> "=",
               colon |-> ":", minus |-> "-" ]
TokName(s, i) ==
  IF i = 0 THEN "BOF" ELSE IF i > NTok(s) THEN "EOF"
  ELSE CASE TokCat(s, i) = "w" -> "word" [] TokCat(s, i) = "n" -> "num" [] TokCat(s, i) = "s" -> "str"
         [] OTHER -> CHOOSE n \in DOMAIN PunctName : PunctName[n] = TokText(s, i)

Top(stack) == stack[Len(stack)]
Pop(stack) == SubSeq(stack, 1, Len(stack) - 1)
InLiteral(stack) == Top(stack) \in {"lit", "alit", "arr"}
(* the scope a bracket token opens, given the token before it and the scope it sits in *)
Opens(s, i, stack) ==
  LET t == TokText(s, i) prev == IF i > 1 THEN TokText(s, i - 1) ELSE ""
  IN CASE t = "{" -> IF InLiteral(stack) \/ prev \in {"=", ":"} THEN "lit" ELSE "body"
       [] t = "[" -> IF InLiteral(stack) THEN "arr" ELSE "opts"
       [] t = "(" -> "paren"
       [] t = "<" -> IF prev = "map" /\ ~InLiteral(stack) THEN "angle" ELSE "alit"
       [] OTHER -> "none"
RECURSIVE ScopeWalk(_, _, _, _)
(* acc[i] = scope of gap i (the gap after token i), i = 1..n *)
ScopeWalk(s, i, stack, acc) ==
  IF i > NTok(s) THEN acc
  ELSE LET t == TokText(s, i)
           st == IF TokCat(s, i) # "p" THEN stack
                 ELSE IF t \in {"{", "[", "(", "<"} THEN Append(stack, Opens(s, i, stack))
                 ELSE IF t \in {"}", "]", ")", ">"} THEN Pop(stack)
                 ELSE stack
       IN ScopeWalk(s, i + 1, st, Append(acc, Top(st)))
ScopeSeq(s) == ScopeWalk(s, 1, <<"file">>, <<>>)
Balanced(s) == LET q == ScopeSeq(s) IN \A i \in 1..Len(q) : q[i] # "none"      \* sanity of the skeleton data
GapScope(s, g) == IF g = 0 THEN "file" ELSE ScopeSeq(s)[g]
Class(s, g) == GapScope(s, g) \o ":" \o TokName(s, g) \o "|" \o TokName(s, g + 1)

(* ---- coarse coordinates of a placement: trivia CATEGORY and ZONE of the gap ---- *)
KindCat(k) ==
  CASE k = "none" -> "none"
    [] k \in {"sp", "sp2", "tab"} -> "hspace"
    [] k \in {"lf", "lf2", "lf3", "lf4", "lf6"} -> "newline"
    [] k = "crlf" -> "crlf"
    [] k = "ff" -> "formfeed"
    [] k = "blank" -> "blankline"
    [] k \in {"lcom", "trail"} -> "trailing-line"        \* line comment on the line of the token before it
    [] k = "ownlcom" -> "own-line"                        \* line comment on a line of its own
    [] k = "detach" -> "detached"                         \* ... with blank lines around it
    [] k \in {"bcom", "spbcom"} -> "inline-block"         \* block comment inside a line
    [] k \in {"mlbcom", "wsbcom"} -> "own-block"                        \* multi-line block comment on lines of its own
    [] k = "eofcom" -> "eof-line"
    [] k = "bom" -> "bom"
(* between: the gap separates two declarations of a file or of a declaration body (after `;`, after the `{` that
   opens a body, after the `}` that closes one) - where comments conventionally live;  inside: anywhere else,
   i.e. in the middle of a statement or inside an option value *)
ZoneOf(s, g, scope, scopeBefore) ==      \* scope of gap g, scope of gap g-1
  LET t == TokText(s, g)
      boundary == t \in {";", "{"} \/ (t = "}" /\ scopeBefore = "body")
  IN IF g = NTok(s) THEN "eof" ELSE IF g = 0 THEN "bof"
     ELSE IF scope \in {"file", "body"} /\ boundary THEN "between" ELSE "inside"
Zone(s, g) == ZoneOf(s, g, GapScope(s, g), IF g > 0 THEN GapScope(s, g - 1) ELSE "file")

(* feature of a placement:  <category>@<zone>(<gap class>)=<kind>   (coarse coordinates first, so that a known
   finding can be stated for a whole family with a prefix) *)
Feature(s, p) == KindCat(p[2]) \o "@" \o Zone(s, p[1]) \o "(" \o Class(s, p[1]) \o ")=" \o p[2]
Features(s, pl) == {Feature(s, p) : p \in pl}

(* ---- the text of a layout, as the sequence of strings to concatenate ---- *)
RECURSIVE ItemsFrom(_, _, _)
ItemsFrom(s, pl, i) ==
  IF i > NTok(s) THEN <<>>
  ELSE <<TokText(s, i), TriviaText[KindAt(s, pl, i)]>> \o ItemsFrom(s, pl, i + 1)
Items(s, pl) == <<TriviaText[KindAt(s, pl, 0)]>> \o ItemsFrom(s, pl, 1)
(* what C30 demands of round-trip mode: output = Items concatenated;  per-declaration printing: the same minus
   (a suffix of) the last item, the file's trailing trivia.  What C31 demands: the formatted text compiles to the
   descriptors of the skeleton (they do not depend on pl), and formatting it again returns it unchanged. *)
=============================================================================
