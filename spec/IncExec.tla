------------------------------- MODULE IncExec -------------------------------
(* Model of experimental/incremental (Executor, Run, Resolve, task.run, waitUntilDone,
   EvictWithCleanup) at the granularity of its critical sections, DESIGN.md 3.4.

   The ACTIONS follow the code (one action per atomic step on shared state: result pointer
   load / CAS / reset, done-channel close, semaphore acquire / release, edge stores, the
   cycle BFS, context cancel, the dirty RW lock).  The PROPERTIES (section "Properties") and
   the ORACLE (section "Oracle") are written from the statements of C33 / C34 and know nothing
   about the executor: the oracle evaluates queries bottom-up on the static graph.

   Queries are abstract nodes.  Node k has dependency batches cfg.bat[k] (one Resolve per
   batch, first query of a batch runs synchronously on the caller's permit, the others on
   their own goroutine), panics iff k \in cfg.pan (after its batches returned without a
   Resolve error), otherwise returns the first Fatal among its dependencies' results or the
   value F(k, version[k], dependency values).

   A "case" cfg = [id, bat, pan, par, plan] is chosen in Init and never changes; plan is a
   history of operations  [op |-> "run", roots |-> <<roots of run 1, roots of run 2, ...>>]
   (the runs of one step are concurrent) and [op |-> "evict", keys |-> K, conc |-> BOOLEAN].

   Fix \subseteq {"F1","F2","F3","F4","F5"} selects the repaired behaviour (patches/fix-C3[34]-*.diff);
   Fix = {} is the code as found:
     F1  an asynchronous leader whose acquire fails resets its pending result before returning
     F2  a result completed while the run's context is cancelled is not memoised
     F3  the panic handler cancels the run before it resets the result (not after)
     F4  EvictWithCleanup looks the keys up under the dirty lock (not before taking it)
     F5  Run returns only after the goroutines it started have returned *)
EXTENDS Naturals, Sequences, FiniteSets, TLC

CONSTANTS Nodes,     \* set of node names (strings)
          NodeOrd,   \* sequence enumerating Nodes: gives every node an index for F
          Cases,     \* set of cfg records explored
          Fix,       \* which repairs the modelled code contains
          Stale      \* TRUE only for trace validation: negative observations of a cancel may be stale

VARIABLES cfg,                        \* frozen: the case
          step,                       \* number of plan operations begun
          tasks, res, out, val, fat, rrun, deps, callers,   \* Executor.tasks and the task fields
          sema, readers, writer, counter, ver,
          acts,                       \* activations: calls of task.run, plus one root per Run
          runs,                       \* per Run: generation, cancel state
          ev,                         \* the Evict call in progress
          execCnt, execIn, flags      \* ghosts for the properties

vars == <<cfg, step, tasks, res, out, val, fat, rrun, deps, callers, sema, readers, writer,
          counter, ver, acts, runs, ev, execCnt, execIn, flags>>

ROOT == "_root"
NoId == <<>>
NoF  == [t |-> "none", p |-> <<>>]
CancelF == [t |-> "cancel", p |-> <<>>]
CycleF(p) == [t |-> "cycle", p |-> p]
ZeroRes == [v |-> 0, f |-> NoF, ch |-> FALSE]
NoRes == [v |-> 0, f |-> [t |-> "unset", p |-> <<>>], ch |-> FALSE]
M == 65521

-----------------------------------------------------------------------------
(* Static graph helpers *)
RECURSIVE FlatB(_, _)
FlatB(bs, i) == IF i > Len(bs) THEN <<>> ELSE bs[i] \o FlatB(bs, i + 1)
Flat(c, k) == FlatB(c.bat[k], 1)
SeqSet(s) == {s[i] : i \in 1..Len(s)}
Succ(c, k) == SeqSet(Flat(c, k))
RECURSIVE ReachF(_, _)
ReachF(c, S) == LET T == S \cup UNION {Succ(c, k) : k \in S} IN IF T = S THEN S ELSE ReachF(c, T)
Reach(c, S) == ReachF(c, S)                       \* reflexive
ReachPlus(c, k) == ReachF(c, Succ(c, k))          \* at least one edge
OnCycle(c, k) == k \in ReachPlus(c, k)
Cyclic(c, k) == \E n \in Reach(c, {k}) : OnCycle(c, n)     \* k cannot have a value
Panicky(c, k) == Reach(c, {k}) \cap c.pan # {}
RevReach(c, K) == {n \in Nodes : Reach(c, {n}) \cap K # {}}
Idx(k) == CHOOSE i \in 1..Len(NodeOrd) : NodeOrd[i] = k
IsClosedWalk(c, p) == /\ Len(p) >= 2 /\ p[1] = p[Len(p)]
                      /\ \A i \in 1..(Len(p) - 1) : p[i + 1] \in Succ(c, p[i])

(* The symbolic value function F, as arithmetic both TLC and the Go driver evaluate *)
Acc0(k) == 17 + 31 * Idx(k)
AccStep(acc, v) == (acc * 251 + v + 1) % M
Final(acc, vr) == (acc * 7 + vr * 13 + 1) % M

-----------------------------------------------------------------------------
(* Oracle: what the statements of C33 / C34 promise for a history, computed on the static graph.
   refLo / refHi bound the set of memoised keys (they differ only after a run that panicked:
   which non-panicking queries completed before the cancellation is not determined). *)
RECURSIVE FreshV(_, _, _), FreshFold(_, _, _, _, _)
FreshFold(c, vr, ds, j, acc) ==
  IF j > Len(ds) THEN acc ELSE FreshFold(c, vr, ds, j + 1, AccStep(acc, FreshV(c, vr, ds[j])))
FreshV(c, vr, k) == Final(FreshFold(c, vr, Flat(c, k), 1, Acc0(k)), vr[k])

ExpRes(c, vr, k) == IF Cyclic(c, k) THEN [cyc |-> TRUE, v |-> 0] ELSE [cyc |-> FALSE, v |-> FreshV(c, vr, k)]

OracleStep(c, st, op) ==
  IF op.op = "run" THEN
    LET R(j) == Reach(c, SeqSet(op.roots[j]))
        U == UNION {R(j) : j \in 1..Len(op.roots)}
        pan == U \cap c.pan # {}
        good == {n \in U : ~Panicky(c, n)}
    IN [lo |-> IF pan THEN st.lo ELSE st.lo \cup U,
        hi |-> IF pan THEN st.hi \cup good ELSE st.hi \cup U,
        vr |-> st.vr,
        e  |-> [op |-> "run",
                runs |-> [j \in 1..Len(op.roots) |->
                            [panic |-> R(j) \cap c.pan # {},
                             res |-> [i \in 1..Len(op.roots[j]) |-> ExpRes(c, st.vr, op.roots[j][i])]]],
                execLo |-> IF pan THEN {} ELSE U \ st.hi,     \* must execute
                execHi |-> U \ st.lo,                         \* may execute
                lo |-> IF pan THEN st.lo ELSE st.lo \cup U,
                hi |-> IF pan THEN st.hi \cup good ELSE st.hi \cup U]]
  ELSE
    LET E == RevReach(c, op.keys)
        vr2 == [k \in Nodes |-> IF k \in op.keys THEN st.vr[k] + 1 ELSE st.vr[k]]
    IN [lo |-> st.lo \ E, hi |-> st.hi \ E, vr |-> vr2,
        e |-> [op |-> "evict", keys |-> op.keys, evicted |-> E, lo |-> st.lo \ E, hi |-> st.hi \ E]]

RECURSIVE OracleFrom(_, _, _)
OracleFrom(c, st, i) ==
  IF i > Len(c.plan) THEN <<>>
  ELSE LET n == OracleStep(c, st, c.plan[i])
       IN <<n.e>> \o OracleFrom(c, [lo |-> n.lo, hi |-> n.hi, vr |-> n.vr], i + 1)
Oracle(c) == OracleFrom(c, [lo |-> {}, hi |-> {}, vr |-> [k \in Nodes |-> 0]], 1)
(* evaluated once per case by TLC (constant-level definition); trace validation computes it on demand *)
ExpTable == [i \in {c.id : c \in Cases} |-> Oracle(CHOOSE c \in Cases : c.id = i)]

-----------------------------------------------------------------------------
(* Activations *)
NewAct(key, run, par, pkey, pbi, pidx, async, pc) ==
  [key |-> key, run |-> run, par |-> par, pkey |-> pkey, pbi |-> pbi, pidx |-> pidx, async |-> async, pc |-> pc,
   o |-> NoId, bi |-> 1, nx |-> 0, nw |-> FALSE, outst |-> 0, got |-> <<>>,
   acc |-> IF key = ROOT THEN 0 ELSE Acc0(key), af |-> NoF, hold |-> FALSE, cerr |-> FALSE,
   rv |-> 0, rf |-> NoF]

IsRoot(a) == a.key = ROOT
BatchOf(a) == IF IsRoot(a) THEN cfg.plan[a.run[1]].roots[a.run[2]] ELSE cfg.bat[a.key][a.bi]
NB(a) == IF IsRoot(a) THEN 1 ELSE Len(cfg.bat[a.key])
Canc(rid) == runs[rid].canc
Gen(rid) == runs[rid].gen
DelAct(i) == [j \in DOMAIN acts \ {i} |-> acts[j]]
ResOf(k, rid) == [v |-> val[k], f |-> fat[k], ch |-> rrun[k] = Gen(rid)]

RECURSIVE FoldV(_, _, _), FirstF(_, _)
FoldV(acc, got, j) == IF j > Len(got) THEN acc ELSE FoldV(AccStep(acc, got[j].v), got, j + 1)
FirstF(got, j) == IF j > Len(got) THEN NoF ELSE IF got[j].f.t \notin {"none", "unset"} THEN got[j].f ELSE FirstF(got, j + 1)

(* Resolve returned for the current batch of a; cerr = it returned context.Cause # nil *)
BatchDone(a, cerr) ==
  IF IsRoot(a) THEN [a EXCEPT !.pc = "rexit", !.cerr = cerr]
  ELSE LET a1 == [a EXCEPT !.acc = FoldV(a.acc, a.got, 1),
                           !.af = IF a.af.t # "none" THEN a.af ELSE FirstF(a.got, 1),
                           !.cerr = cerr]
       IN IF cerr \/ a.bi = NB(a) THEN [a1 EXCEPT !.pc = "end"] ELSE [a1 EXCEPT !.pc = "exec", !.bi = a.bi + 1]

(* The callback done(r) + return of task.run: hand r to the caller's results slot *)
Accepts(pa, a) == pa.pc \in {"start", "insync", "post", "join"} /\ pa.bi = a.pbi
Deliver(A, i, r) ==
  LET a == A[i] p == a.par IN
  IF p \in DOMAIN A /\ Accepts(A[p], a)
  THEN [j \in DOMAIN A \ {i} |->
          IF j = p THEN [A[p] EXCEPT !.got[a.pidx] = r,
                                      !.outst = IF a.async THEN A[p].outst - 1 ELSE A[p].outst,
                                      !.pc = IF a.async THEN A[p].pc ELSE "post"]
          ELSE A[j]]
  ELSE [j \in DOMAIN A \ {i} |-> A[j]]

(* ghost: a caller in run rid saw flag ch on a completed result of k *)
SawFlag(rid, k, ch) == flags' = [flags EXCEPT ![rid][k] = @ \cup {<<ch, execIn[k] = rid>>}]
SawFlagOwn(rid, k) == flags' = [flags EXCEPT ![rid][k] = @ \cup {<<TRUE, TRUE>>}]

(* Paths in the recorded dependency edges, for the cycle check *)
PathsUpTo == UNION {[1..n -> Nodes] : n \in 1..Cardinality(Nodes)}
IsDepPath(p, from, to) ==
  /\ p[1] = from
  /\ p[Len(p)] = to
  /\ (\A x \in 1..(Len(p) - 1) : p[x + 1] \in deps[p[x]])
  /\ (\A x, y \in 1..Len(p) : x # y => p[x] # p[y])
DepPaths(from, to) == {p \in PathsUpTo : IsDepPath(p, from, to)}
RECURSIVE DepReachF(_)
DepReachF(S) == LET T == S \cup UNION {deps[k] : k \in S} IN IF T = S THEN S ELSE DepReachF(T)
HasDepPath(from, to) == to \in DepReachF({from})
ShortestDepPaths(from, to) == LET P == DepPaths(from, to) IN {p \in P : \A q \in P : Len(p) <= Len(q)}
(* the path the code builds: t -> ... -> caller -> t ; for a self-loop <<t, t, t>> *)
CyclePath(p, t) == IF Len(p) = 1 THEN <<t, t, t>> ELSE Append(p, t)

-----------------------------------------------------------------------------
InitWith(c) ==
  /\ cfg = c
  /\ step = 0
  /\ tasks = {} /\ res = [k \in Nodes |-> "nil"] /\ out = [k \in Nodes |-> NoId]
  /\ val = [k \in Nodes |-> 0] /\ fat = [k \in Nodes |-> NoF] /\ rrun = [k \in Nodes |-> 0]
  /\ deps = [k \in Nodes |-> {}] /\ callers = [k \in Nodes |-> {}]
  /\ sema = c.par /\ readers = 0 /\ writer = FALSE /\ counter = 0
  /\ ver = [k \in Nodes |-> 0]
  /\ acts = <<>> /\ runs = <<>>
  /\ ev = [pc |-> "idle", keys |-> {}, coll |-> {}, conc |-> FALSE]
  /\ execCnt = [k \in Nodes |-> 0] /\ execIn = [k \in Nodes |-> NoId] /\ flags = <<>>
Init == \E c \in Cases : InitWith(c)

RunsDone == \A rid \in DOMAIN runs : runs[rid].state = "done"

(* ---- the client: start the next operation of the plan ---- *)
OpBegin ==
  /\ step < Len(cfg.plan)
  /\ LET op == cfg.plan[step + 1] IN
     IF op.op = "run" THEN
       /\ RunsDone /\ ev.pc = "idle"    \* the previous calls returned (goroutines of a cancelled run may live on)
       /\ LET rids == {<<step + 1, j>> : j \in 1..Len(op.roots)} IN
          /\ acts' = [i \in DOMAIN acts \cup rids |->
                        IF i \in rids THEN NewAct(ROOT, i, NoId, "", 0, 0, FALSE, "enter") ELSE acts[i]]
          /\ runs' = [r \in DOMAIN runs \cup rids |->
                        IF r \in rids THEN [gen |-> 0, canc |-> FALSE, cause |-> "", state |-> "active", err |-> FALSE] ELSE runs[r]]
          /\ flags' = [r \in DOMAIN flags \cup rids |-> IF r \in rids THEN [k \in Nodes |-> {}] ELSE flags[r]]
       /\ UNCHANGED ev
     ELSE
       /\ ev.pc = "idle"
       /\ IF op.conc THEN step > 0 /\ cfg.plan[step].op = "run" ELSE RunsDone
       /\ ev' = [pc |-> "collect", keys |-> op.keys, coll |-> {}, conc |-> op.conc]
       /\ UNCHANGED <<acts, runs, flags>>
  /\ step' = step + 1
  /\ UNCHANGED <<cfg, tasks, res, out, val, fat, rrun, deps, callers, sema, readers, writer,
                 counter, ver, execCnt, execIn>>

(* ---- Run ---- *)
RunEnter(i, g) ==         \* dirty.RLock; generation := counter.Add(1)
  /\ acts[i].pc = "enter" /\ ~writer
  \* counter.Add(1) and the trace point are two steps: concurrent Runs may log their generations out of order
  /\ g > counter \/ (Stale /\ g > 0 /\ \A r \in DOMAIN runs : runs[r].gen # g)
  /\ readers' = readers + 1 /\ counter' = IF g > counter THEN g ELSE counter
  /\ runs' = [runs EXCEPT ![acts[i].run].gen = g]
  /\ acts' = [acts EXCEPT ![i].pc = "racq"]
  /\ UNCHANGED <<cfg, step, tasks, res, out, val, fat, rrun, deps, callers, sema, writer, ver, ev,
                 execCnt, execIn, flags>>

RootAcquire(i) ==         \* root.acquire()
  /\ acts[i].pc = "racq" /\ sema > 0
  /\ sema' = sema - 1
  /\ acts' = [acts EXCEPT ![i].pc = "exec", ![i].hold = TRUE]
  /\ UNCHANGED <<cfg, step, tasks, res, out, val, fat, rrun, deps, callers, readers, writer, counter, ver,
                 runs, ev, execCnt, execIn, flags>>

(* ---- Resolve, on the goroutine of activation i (a leader inside Execute, or a root) ---- *)
StoreEdges(i) ==          \* getOrCreateTask + deps.Store / callers.Store for the whole batch
  /\ acts[i].pc = "exec"
  /\ LET a == acts[i] b == BatchOf(a) k == a.key IN
     /\ tasks' = tasks \cup SeqSet(b)
     /\ deps' = IF IsRoot(a) THEN deps ELSE [deps EXCEPT ![k] = @ \cup SeqSet(b)]
     /\ callers' = IF IsRoot(a) THEN callers
                   ELSE [d \in Nodes |-> IF d \in SeqSet(b) THEN callers[d] \cup {k} ELSE callers[d]]
     /\ acts' = [acts EXCEPT ![i] = [a EXCEPT !.pc = "start", !.nx = Len(b), !.nw = FALSE, !.outst = 0,
                                               !.got = [j \in 1..Len(b) |-> NoRes]]]
  /\ UNCHANGED <<cfg, step, res, out, val, fat, rrun, sema, readers, writer, counter, ver, runs, ev,
                 execCnt, execIn, flags>>

Start(i, hit) ==          \* dep.start(...) for the next query of the batch (backwards)
  /\ acts[i].pc = "start" /\ acts[i].nx >= 1
  /\ LET a == acts[i] n == a.nx d == BatchOf(a)[n] IN
     /\ hit = (res[d] = "done")
     /\ IF hit
        THEN /\ acts' = [acts EXCEPT ![i] = [a EXCEPT !.got[n] = ResOf(d, a.run), !.nx = n - 1,
                                                       !.pc = IF n = 1 THEN "post" ELSE "start"]]
             /\ SawFlag(a.run, d, rrun[d] = Gen(a.run))
        ELSE /\ LET c == Append(Append(i, a.bi), n)
                    child == NewAct(d, a.run, i, a.key, a.bi, n, n # 1, "load")
                    a2 == IF n = 1 THEN [a EXCEPT !.pc = "insync", !.nx = 0]
                          ELSE [a EXCEPT !.nx = n - 1, !.nw = TRUE, !.outst = a.outst + 1]
                IN acts' = [j \in DOMAIN acts \cup {c} |-> IF j = c THEN child ELSE IF j = i THEN a2 ELSE acts[j]]
             /\ UNCHANGED flags
  /\ UNCHANGED <<cfg, step, tasks, res, out, val, fat, rrun, deps, callers, sema, readers, writer,
                 counter, ver, runs, ev, execCnt, execIn>>

SeesCancel(rid, c) == (c => Canc(rid)) /\ (~c => (Stale \/ ~Canc(rid)))

Post(i, c) ==             \* after the loop: nothing asynchronous -> return (c = Cause # nil); else caller.release()
  /\ acts[i].pc = "post"
  /\ LET a == acts[i] IN
     IF ~a.nw THEN
       /\ SeesCancel(a.run, c)
       /\ acts' = [acts EXCEPT ![i] = BatchDone(a, c)]
       /\ UNCHANGED sema
     ELSE
       /\ c = FALSE
       /\ sema' = IF a.hold THEN sema + 1 ELSE sema
       /\ acts' = [acts EXCEPT ![i] = [a EXCEPT !.pc = "join", !.hold = FALSE]]
  /\ UNCHANGED <<cfg, step, tasks, res, out, val, fat, rrun, deps, callers, readers, writer, counter,
                 ver, runs, ev, execCnt, execIn, flags>>

Join(i, ok) ==            \* join.Acquire(caller.ctx, n)
  /\ acts[i].pc = "join"
  /\ LET a == acts[i] IN
     IF ok THEN /\ a.outst = 0 /\ (Stale \/ ~Canc(a.run))
                /\ acts' = [acts EXCEPT ![i].pc = "reacq"]
     ELSE /\ Canc(a.run)
          /\ acts' = [acts EXCEPT ![i] = BatchDone(a, TRUE)]
  /\ UNCHANGED <<cfg, step, tasks, res, out, val, fat, rrun, deps, callers, sema, readers, writer,
                 counter, ver, runs, ev, execCnt, execIn, flags>>

Reacquire(i, ok) ==       \* caller.acquire() at the end of Resolve
  /\ acts[i].pc = "reacq"
  /\ LET a == acts[i] IN
     IF ok THEN /\ sema > 0 /\ (Stale \/ ~Canc(a.run))
                /\ sema' = sema - 1
                /\ acts' = [acts EXCEPT ![i] = [a EXCEPT !.pc = "cause", !.hold = TRUE]]
     ELSE /\ Canc(a.run)
          /\ acts' = [acts EXCEPT ![i] = BatchDone(a, TRUE)]
          /\ UNCHANGED sema
  /\ UNCHANGED <<cfg, step, tasks, res, out, val, fat, rrun, deps, callers, readers, writer, counter,
                 ver, runs, ev, execCnt, execIn, flags>>

ReadCause(i, c) ==        \* return results, context.Cause(caller.ctx)
  /\ acts[i].pc = "cause"
  /\ SeesCancel(acts[i].run, c)
  /\ acts' = [acts EXCEPT ![i] = BatchDone(acts[i], c)]
  /\ UNCHANGED <<cfg, step, tasks, res, out, val, fat, rrun, deps, callers, sema, readers, writer,
                 counter, ver, runs, ev, execCnt, execIn, flags>>

(* ---- task.run ---- *)
Load(i) ==                \* output = t.result.Load()
  /\ acts[i].pc = "load"
  /\ LET a == acts[i] k == a.key IN
     CASE res[k] = "nil" -> /\ acts' = [acts EXCEPT ![i].pc = "cas"] /\ UNCHANGED flags
       [] res[k] = "done" -> /\ acts' = Deliver(acts, i, ResOf(k, a.run))
                             /\ SawFlag(a.run, k, rrun[k] = Gen(a.run))
       [] OTHER -> /\ acts' = [acts EXCEPT ![i] = [a EXCEPT !.pc = "chk", !.o = out[k]]] /\ UNCHANGED flags
  /\ UNCHANGED <<cfg, step, tasks, res, out, val, fat, rrun, deps, callers, sema, readers, writer,
                 counter, ver, runs, ev, execCnt, execIn>>

StartExec(a) == IF NB(a) = 0 THEN [a EXCEPT !.pc = "end"] ELSE [a EXCEPT !.pc = "exec", !.bi = 1]

Cas(i) ==                 \* t.result.CompareAndSwap(nil, output); a synchronous leader steals the caller's hold
  /\ acts[i].pc = "cas"
  /\ LET a == acts[i] k == a.key p == a.par IN
     IF res[k] = "nil" THEN
       /\ res' = [res EXCEPT ![k] = "pending"] /\ out' = [out EXCEPT ![k] = i]
       /\ IF a.async THEN /\ acts' = [acts EXCEPT ![i].pc = "lacq"] /\ UNCHANGED execCnt
          ELSE /\ acts[p].hold      \* transferFrom aborts otherwise; NoAbort checks this separately
               /\ acts' = [acts EXCEPT ![i] = StartExec([a EXCEPT !.hold = TRUE]), ![p].hold = FALSE]
               /\ execCnt' = [execCnt EXCEPT ![k] = @ + 1]
     ELSE /\ acts' = [acts EXCEPT ![i].pc = "reload"] /\ UNCHANGED <<res, out, execCnt>>
  /\ UNCHANGED <<cfg, step, tasks, val, fat, rrun, deps, callers, sema, readers, writer, counter, ver,
                 runs, ev, execIn, flags>>

Reload(i) ==              \* CAS lost: output := t.result.Load(); nil -> "leader panicked"
  /\ acts[i].pc = "reload"
  /\ LET a == acts[i] k == a.key IN
     IF out[k] = NoId THEN acts' = Deliver(acts, i, ZeroRes)
     ELSE acts' = [acts EXCEPT ![i] = [a EXCEPT !.pc = "chk", !.o = out[k]]]
  /\ UNCHANGED <<cfg, step, tasks, res, out, val, fat, rrun, deps, callers, sema, readers, writer,
                 counter, ver, runs, ev, execCnt, execIn, flags>>

LeaderAcquire(i, ok) ==   \* asynchronous leader: callee.acquire()
  /\ acts[i].pc = "lacq"
  /\ LET a == acts[i] k == a.key IN
     IF ok THEN /\ sema > 0 /\ (Stale \/ ~Canc(a.run))
                /\ sema' = sema - 1
                /\ acts' = [acts EXCEPT ![i] = StartExec([a EXCEPT !.hold = TRUE])]
                /\ execCnt' = [execCnt EXCEPT ![k] = @ + 1]
                /\ UNCHANGED <<res, out>>
     ELSE /\ Canc(a.run)
          \* as found: returns nil and leaves the pending result behind.  F1: reset it first.
          /\ acts' = IF "F1" \in Fix THEN [acts EXCEPT ![i].pc = "lreset"] ELSE Deliver(acts, i, ZeroRes)
          /\ UNCHANGED <<res, out, sema, execCnt>>
  /\ UNCHANGED <<cfg, step, tasks, val, fat, rrun, deps, callers, readers, writer, counter, ver, runs,
                 ev, execIn, flags>>

LeaderReset(i) ==         \* F1: t.result.CompareAndSwap(output, nil); return nil
  /\ acts[i].pc = "lreset"
  /\ LET k == acts[i].key IN
     IF out[k] = i THEN res' = [res EXCEPT ![k] = "nil"] /\ out' = [out EXCEPT ![k] = NoId]
     ELSE UNCHANGED <<res, out>>
  /\ acts' = Deliver(acts, i, ZeroRes)
  /\ UNCHANGED <<cfg, step, tasks, val, fat, rrun, deps, callers, sema, readers, writer, counter, ver,
                 runs, ev, execCnt, execIn, flags>>

(* Execute returned (or panicked).  Deferred release / transfer-back run first. *)
(* Execute returned: output.Value, output.Fatal are assigned (or it panicked).  ext: the value and the
   fatal error are given (trace validation of foreign queries). *)
ExecRetWith(i, ext, xv, xf) ==
  /\ acts[i].pc = "end"
  /\ LET a == acts[i] k == a.key
         panics == ~ext /\ ~a.cerr /\ k \in cfg.pan
         rv == IF ext THEN xv ELSE IF a.cerr \/ a.af.t # "none" THEN 0 ELSE Final(a.acc, ver[k])
         rf == IF ext THEN xf ELSE IF a.cerr THEN CancelF ELSE a.af
     IN acts' = [acts EXCEPT ![i] = [a EXCEPT !.rv = rv, !.rf = rf, !.pc = IF panics THEN "pan" ELSE "ret"]]
  /\ UNCHANGED <<cfg, step, tasks, res, out, val, fat, rrun, deps, callers, sema, readers, writer, counter,
                 ver, runs, ev, execCnt, execIn, flags>>
ExecRet(i) == ExecRetWith(i, FALSE, 0, NoF)
Panics(a) == ~a.cerr /\ a.key \in cfg.pan

(* The deferred release / transfer-back, which run before the result is published. *)
End(i) ==
  /\ acts[i].pc \in {"ret", "pan"}
  /\ LET a == acts[i] k == a.key p == a.par
         \* caller.transferFrom(callee) with callee not holding aborts -> panic, recovered as a query panic
         lost == ~a.async /\ ~a.hold
         a2 == [a EXCEPT !.hold = FALSE,
                         !.pc = IF a.pc = "pan" \/ lost THEN (IF "F3" \in Fix THEN "pcancel" ELSE "preset") ELSE "close"]
     IN /\ sema' = IF a.async /\ a.hold THEN sema + 1 ELSE sema
        /\ acts' = IF ~a.async /\ a.hold /\ p \in DOMAIN acts
                   THEN [acts EXCEPT ![i] = a2, ![p].hold = TRUE]
                   ELSE [acts EXCEPT ![i] = a2]
  /\ UNCHANGED <<cfg, step, tasks, res, out, val, fat, rrun, deps, callers, readers, writer, counter,
                 ver, runs, ev, execCnt, execIn, flags>>


Close(i, drop) ==         \* close(output.done) and hand the result to the caller
  /\ acts[i].pc = "close"
  /\ LET a == acts[i] k == a.key IN
     \* F2: a cancelled run memoises nothing
     /\ drop => "F2" \in Fix /\ Canc(a.run)
     /\ ~drop => ("F2" \notin Fix \/ Stale \/ ~Canc(a.run))
     /\ IF drop THEN
          /\ IF out[k] = i THEN res' = [res EXCEPT ![k] = "nil"] /\ out' = [out EXCEPT ![k] = NoId]
             ELSE UNCHANGED <<res, out>>
          /\ acts' = Deliver(acts, i, ZeroRes)
          /\ UNCHANGED <<val, fat, rrun, execIn, flags>>
        ELSE
          /\ res' = [res EXCEPT ![k] = "done"]
          /\ val' = [val EXCEPT ![k] = a.rv] /\ fat' = [fat EXCEPT ![k] = a.rf]
          /\ rrun' = [rrun EXCEPT ![k] = Gen(a.run)]
          /\ execIn' = [execIn EXCEPT ![k] = a.run]
          /\ acts' = Deliver(acts, i, [v |-> a.rv, f |-> a.rf, ch |-> TRUE])
          /\ SawFlagOwn(a.run, k)
          /\ UNCHANGED out
  /\ UNCHANGED <<cfg, step, tasks, deps, callers, sema, readers, writer, counter, ver, runs, ev, execCnt>>

PanicReset(i) ==          \* t.result.CompareAndSwap(output, nil)
  /\ acts[i].pc = "preset"
  /\ LET a == acts[i] k == a.key IN
     /\ IF out[k] = i THEN res' = [res EXCEPT ![k] = "nil"] /\ out' = [out EXCEPT ![k] = NoId]
        ELSE UNCHANGED <<res, out>>
     /\ acts' = IF "F3" \in Fix THEN Deliver(acts, i, ZeroRes) ELSE [acts EXCEPT ![i].pc = "pcancel"]
  /\ UNCHANGED <<cfg, step, tasks, val, fat, rrun, deps, callers, sema, readers, writer, counter, ver,
                 runs, ev, execCnt, execIn, flags>>

PanicCancel(i) ==         \* caller.cancel(&ErrPanic{...}); run returns nil
  /\ acts[i].pc = "pcancel"
  /\ LET a == acts[i] IN
     /\ runs' = IF Canc(a.run) THEN runs ELSE [runs EXCEPT ![a.run].canc = TRUE, ![a.run].cause = a.key]
     /\ acts' = IF "F3" \in Fix THEN [acts EXCEPT ![i].pc = "preset"] ELSE Deliver(acts, i, ZeroRes)
  /\ UNCHANGED <<cfg, step, tasks, res, out, val, fat, rrun, deps, callers, sema, readers, writer,
                 counter, ver, ev, execCnt, execIn, flags>>

(* ---- waitUntilDone ---- *)
CheckCycle(i, path) ==    \* BFS over deps as they are now; path = <<>> means no cycle
  /\ acts[i].pc = "chk"
  /\ LET a == acts[i] k == a.key ck == a.pkey
         live == res[k] = "done" /\ out[k] = a.o IN
     IF ck # ROOT /\ HasDepPath(k, ck) THEN
       /\ Len(path) > 0 /\ IsDepPath(path, k, ck)
       /\ LET cp == CyclePath(path, k)
              \* output.Fatal = err is a write to the SHARED result object: it replaces the Fatal of a
              \* memoised result, and that of a leader whose Execute has returned but which has not closed yet
              ldr == a.o
              late == out[k] = ldr /\ res[k] = "pending" /\ ldr \in DOMAIN acts /\ acts[ldr].pc \in {"ret", "close"}
              A1 == IF late THEN [acts EXCEPT ![ldr].rf = CycleF(cp)] ELSE acts
          IN
          /\ acts' = Deliver(A1, i, [v |-> IF live THEN val[k] ELSE IF late THEN acts[ldr].rv ELSE 0, f |-> CycleF(cp),
                                     ch |-> (live /\ rrun[k] = Gen(a.run)) \/ (late /\ acts[ldr].run = a.run)])
          /\ fat' = IF live THEN [fat EXCEPT ![k] = CycleF(cp)] ELSE fat
       /\ UNCHANGED sema
     ELSE
       /\ path = <<>>
       /\ acts' = [acts EXCEPT ![i].pc = IF a.async THEN "wait" ELSE "wrel"]
       /\ UNCHANGED <<fat, sema>>
  /\ UNCHANGED <<cfg, step, tasks, res, out, val, rrun, deps, callers, readers, writer, counter, ver,
                 runs, ev, execCnt, execIn, flags>>

WaitRelease(i) ==         \* synchronous waiter: caller.release()
  /\ acts[i].pc = "wrel"
  /\ LET a == acts[i] p == a.par IN
     /\ sema' = IF acts[p].hold THEN sema + 1 ELSE sema
     /\ acts' = [acts EXCEPT ![i].pc = "wait", ![p].hold = FALSE]
  /\ UNCHANGED <<cfg, step, tasks, res, out, val, fat, rrun, deps, callers, readers, writer, counter,
                 ver, runs, ev, execCnt, execIn, flags>>

Wake(i, why) ==           \* select { <-output.done ; <-ctx.Done() }
  /\ acts[i].pc = "wait"
  /\ LET a == acts[i] k == a.key IN
     /\ \/ why = "done" /\ out[k] = a.o /\ res[k] = "done"
        \/ why = "ctx" /\ Canc(a.run)
     /\ acts' = [acts EXCEPT ![i].pc = IF a.async THEN "wreload" ELSE "wreacq"]
  /\ UNCHANGED <<cfg, step, tasks, res, out, val, fat, rrun, deps, callers, sema, readers, writer,
                 counter, ver, runs, ev, execCnt, execIn, flags>>

WaitReacquire(i, ok) ==   \* synchronous waiter: caller.acquire()
  /\ acts[i].pc = "wreacq"
  /\ LET a == acts[i] p == a.par IN
     IF ok THEN /\ sema > 0 /\ (Stale \/ ~Canc(a.run))
                /\ sema' = sema - 1
                /\ acts' = [acts EXCEPT ![i].pc = "wreload", ![p].hold = TRUE]
     ELSE /\ Canc(a.run)
          /\ acts' = Deliver(acts, i, ZeroRes)
          /\ UNCHANGED sema
  /\ UNCHANGED <<cfg, step, tasks, res, out, val, fat, rrun, deps, callers, readers, writer, counter,
                 ver, runs, ev, execCnt, execIn, flags>>

WaitReload(i) ==          \* return t.result.Load()
  /\ acts[i].pc = "wreload"
  /\ LET a == acts[i] k == a.key IN
     CASE out[k] = NoId -> acts' = Deliver(acts, i, ZeroRes) /\ UNCHANGED flags
       [] res[k] = "done" -> acts' = Deliver(acts, i, ResOf(k, a.run)) /\ SawFlag(a.run, k, rrun[k] = Gen(a.run))
       [] OTHER -> acts' = Deliver(acts, i, ZeroRes) /\ UNCHANGED flags   \* a pending result object: zero fields
  /\ UNCHANGED <<cfg, step, tasks, res, out, val, fat, rrun, deps, callers, sema, readers, writer,
                 counter, ver, runs, ev, execCnt, execIn>>

(* ---- Run returns ---- *)
RunExit1(i) ==            \* deferred root.release()
  /\ acts[i].pc = "rexit"
  /\ sema' = IF acts[i].hold THEN sema + 1 ELSE sema
  /\ acts' = [acts EXCEPT ![i].pc = "rexit2", ![i].hold = FALSE]
  /\ runs' = [runs EXCEPT ![acts[i].run].err = acts[i].cerr]
  /\ UNCHANGED <<cfg, step, tasks, res, out, val, fat, rrun, deps, callers, readers, writer, counter,
                 ver, ev, execCnt, execIn, flags>>

RunExit2(i) ==            \* deferred cancel(nil)
  /\ acts[i].pc = "rexit2"
  /\ runs' = [runs EXCEPT ![acts[i].run].canc = TRUE]
  /\ acts' = [acts EXCEPT ![i].pc = "rexit3"]
  /\ UNCHANGED <<cfg, step, tasks, res, out, val, fat, rrun, deps, callers, sema, readers, writer, counter,
                 ver, ev, execCnt, execIn, flags>>

RunExit3(i) ==            \* F5: wait for the goroutines of this run; then dirty.RUnlock() and return
  /\ acts[i].pc = "rexit3"
  /\ "F5" \in Fix => \A j \in DOMAIN acts : acts[j].run = acts[i].run => j = i
  /\ readers' = readers - 1
  /\ runs' = [runs EXCEPT ![acts[i].run].state = "done"]
  /\ acts' = DelAct(i)
  /\ UNCHANGED <<cfg, step, tasks, res, out, val, fat, rrun, deps, callers, sema, writer, counter, ver,
                 ev, execCnt, execIn, flags>>

(* ---- EvictWithCleanup(keys, bump the versions of keys) ---- *)
EvictCollect ==           \* the getTask loop.  As found it runs BEFORE dirty.Lock(); F4 moves it under the lock
  /\ ev.pc = "collect"
  /\ IF "F4" \in Fix THEN ev' = [ev EXCEPT !.pc = "lock"]
     ELSE ev' = [ev EXCEPT !.pc = "lock", !.coll = ev.keys \cap tasks]
  /\ UNCHANGED <<cfg, step, tasks, res, out, val, fat, rrun, deps, callers, sema, readers, writer,
                 counter, ver, acts, runs, execCnt, execIn, flags>>

RECURSIVE CallersClosure(_)
CallersClosure(S) == LET T == S \cup UNION {callers[k] : k \in S} IN IF T = S THEN S ELSE CallersClosure(T)

EvictApply ==             \* under dirty.Lock(): delete the closure over callers, then cleanup()
  /\ ev.pc = "lock" /\ readers = 0 /\ ~writer
  \* a concurrent Evict is explored in the linearization Run-then-Evict only (the other one is the
  \* sequential history Evict; Run): its getTask loop may run at any time, dirty.Lock() succeeds after the Run
  /\ ev.conc => RunsDone
  /\ LET coll == IF "F4" \in Fix THEN ev.keys \cap tasks ELSE ev.coll
         C == CallersClosure(coll) IN
     /\ tasks' = tasks \ C
     /\ res' = [k \in Nodes |-> IF k \in C THEN "nil" ELSE res[k]]
     /\ out' = [k \in Nodes |-> IF k \in C THEN NoId ELSE out[k]]
     /\ deps' = [k \in Nodes |-> IF k \in C THEN {} ELSE deps[k]]
     /\ callers' = [k \in Nodes |-> IF k \in C THEN {} ELSE callers[k] \ C]
     /\ execCnt' = [k \in Nodes |-> IF k \in C THEN 0 ELSE execCnt[k]]
     /\ execIn' = [k \in Nodes |-> IF k \in C THEN NoId ELSE execIn[k]]
     /\ ver' = [k \in Nodes |-> IF k \in ev.keys THEN ver[k] + 1 ELSE ver[k]]
     /\ ev' = [pc |-> "idle", keys |-> {}, coll |-> C, conc |-> FALSE]     \* coll remembers what was removed (EvictExact)
  /\ UNCHANGED <<cfg, step, val, fat, rrun, sema, readers, writer, counter, acts, runs, flags>>

AllDone == step = Len(cfg.plan) /\ RunsDone /\ ev.pc = "idle" /\ DOMAIN acts = {}
Finished == AllDone /\ UNCHANGED vars       \* so that TLC's deadlock check flags every stuck state

ActNext(i) ==
  \/ RunEnter(i, counter + 1) \/ RootAcquire(i) \/ StoreEdges(i)
  \/ \E ok \in BOOLEAN : \/ Join(i, ok) \/ Reacquire(i, ok) \/ LeaderAcquire(i, ok) \/ WaitReacquire(i, ok)
                          \/ Start(i, ok) \/ Close(i, ok) \/ Post(i, ok) \/ ReadCause(i, ok)
  \/ Load(i) \/ Cas(i) \/ Reload(i) \/ ExecRet(i) \/ End(i) \/ PanicReset(i) \/ PanicCancel(i) \/ LeaderReset(i)
  \/ WaitRelease(i) \/ WaitReload(i) \/ RunExit1(i) \/ RunExit2(i) \/ RunExit3(i)
  \/ \E why \in {"done", "ctx"} : Wake(i, why)
  \/ (acts[i].pc = "chk" /\
      LET a == acts[i] ck == a.pkey
          P == IF ck = ROOT THEN {} ELSE ShortestDepPaths(a.key, ck)
      IN IF P = {} THEN CheckCycle(i, <<>>) ELSE CheckCycle(i, CHOOSE p \in P : TRUE))

Step == OpBegin \/ EvictCollect \/ EvictApply \/ \E i \in DOMAIN acts : ActNext(i)
Next == Step \/ Finished

Spec == Init /\ [][Next]_vars
SimSpec == Init /\ [][Step]_vars       \* for tlc -simulate: a behaviour ends when the history is done
FairSpec == Spec /\ WF_vars(Step)

-----------------------------------------------------------------------------
(* Properties.  Quiescent: no call in progress and no goroutine of the executor alive. *)
Quiet == RunsDone /\ ev.pc = "idle" /\ DOMAIN acts = {}
Memo == {k \in Nodes : res[k] = "done"}
exp == IF cfg.id > 0 THEN ExpTable[cfg.id] ELSE Oracle(cfg)    \* id = 0: a case read from a trace header
ExpNow == exp[step]

TypeOK ==
  /\ sema \in 0..cfg.par /\ readers \in Nat /\ step \in 0..Len(cfg.plan)
  /\ \A k \in Nodes : res[k] \in {"nil", "pending", "done"} /\ (res[k] = "nil") = (out[k] = NoId)

(* C34 "a run returns": as a safety property (TLC deadlock check on Next) and as liveness *)
Terminates == <>[]AllDone

(* C34: the semaphore permits are all released afterwards; nobody is left pending *)
PermitsRestored == Quiet => sema = cfg.par
NoStuckPending == Quiet => \A k \in Nodes : res[k] # "pending"

(* the executor never trips its own errBadAcquire / errBadRelease checks in a run that is not cancelled *)
NoAbort == \A i \in DOMAIN acts : LET a == acts[i] IN
  /\ (a.pc = "post" /\ a.nw /\ ~a.hold) => Canc(a.run)
  /\ (a.pc \in {"end", "ret", "pan"} /\ ~a.hold) => Canc(a.run)
  /\ (a.pc = "wrel" /\ ~acts[a.par].hold) => Canc(a.run)
  /\ (a.pc = "cas" /\ ~a.async) => acts[a.par].hold
  /\ (a.pc = "rexit" /\ ~a.hold) => Canc(a.run)

(* C34: a cycle error names a real cycle of the query graph *)
RealCycle(f) == f.t = "cycle" => IsClosedWalk(cfg, f.p)
CycleError ==
  /\ \A k \in Nodes : res[k] = "done" => RealCycle(fat[k])
  /\ \A i \in DOMAIN acts : \A j \in 1..Len(acts[i].got) : RealCycle(acts[i].got[j].f)

(* What a Run call hands back, checked when it is about to return (pc = rexit) *)
RunResultOK == \A i \in DOMAIN acts : (acts[i].pc = "rexit") =>
  LET a == acts[i] e == exp[a.run[1]].runs[a.run[2]] roots == BatchOf(a) IN
  \* C34: fails with a panic error exactly when a panicking query is reachable (it is never cached)
  /\ a.cerr = e.panic
  /\ a.cerr => runs[a.run].cause \in cfg.pan
  /\ ~a.cerr => \A j \in 1..Len(roots) :
        \* C34: a query whose dependencies cycle back fails with a cycle error; C33 FreshValue otherwise
        IF e.res[j].cyc THEN a.got[j].f.t = "cycle"
        ELSE a.got[j].f.t = "none" /\ a.got[j].v = e.res[j].v

(* C33 at rest: the memoised keys are what the history says (EvictExact, PanicNotCached), and every
   memoised value is the fresh one (FreshValue); nothing derived from a panic or a cancellation stays *)
CacheExact == (Quiet /\ step > 0) =>
  /\ ExpNow.lo \subseteq Memo /\ Memo \subseteq ExpNow.hi
  /\ \A k \in Memo : IF Cyclic(cfg, k) THEN fat[k].t = "cycle"
                     ELSE fat[k].t = "none" /\ val[k] = FreshV(cfg, ver, k)
PanicNotCached == (Quiet /\ step > 0) =>
  \A k \in Memo : k \notin cfg.pan /\ fat[k].t # "cancel" /\ ~Panicky(cfg, k)

(* C33 EvictExact: right after an eviction the removed memoised keys are exactly the reverse closure *)
EvictExact == (step > 0 /\ ev.pc = "idle" /\ cfg.plan[step].op = "evict" /\ RunsDone) =>
  /\ Memo \cap ExpNow.evicted = {}
  /\ ExpNow.lo \subseteq Memo

(* C33 AtMostOnce / exactly the forced recomputation (deterministic queries: no panicking set) *)
AtMostOnce == cfg.pan = {} => \A k \in Nodes : execCnt[k] <= 1
ExecExact == (cfg.pan = {} /\ Quiet /\ step > 0) =>
  \A k \in Nodes : execCnt[k] = IF k \in ExpNow.lo THEN 1 ELSE 0

(* C33 ChangedFlag: changed iff computed in this run, and all callers of the run agree *)
ChangedFlag == \A rid \in DOMAIN flags : \A k \in Nodes :
  /\ \A fl \in flags[rid][k] : fl[1] = fl[2]
  /\ Cardinality({fl[1] : fl \in flags[rid][k]}) <= 1
=============================================================================
