------------------------------- MODULE MCSrcLoc -------------------------------
(* C32: enumerate every text over Alphabet up to MaxLen; export, per text, the expected
   Location of every boundary offset in every unit.  The Go driver concretises the classes,
   calls source.File.Location / InverseLocation and compares. *)
EXTENDS SrcText, TLC, Json
CONSTANTS MaxLen, Alphabet, ExportMin
VARIABLE text
vars == <<text>>

Init == text = <<>>
Next == /\ Len(text) < MaxLen
        /\ \E c \in Alphabet : text' = Append(text, c)
Spec == Init /\ [][Next]_vars

Pos(k) == [k |-> k, off |-> Off(text, k), line |-> Line(text, k),
           cb |-> ColBytes(text, k), cr |-> ColRunes(text, k), cu |-> ColU16(text, k)]
Case == [text |-> text, pos |-> [k \in 1..(Len(text) + 1) |-> Pos(k - 1)]]

SpecRoundTrips == Len(text) >= ExportMin => RoundTrips(text)
Export == Len(text) >= ExportMin => PrintT("CASE " \o ToJson(Case))
=============================================================================
