------------------------------- MODULE MCSyncLog -------------------------------
(* Exhaustive check of SyncLog: every process performs up to MaxOps operations, each either
   Append of a fresh value or Load of an index some Append has already returned. *)
EXTENDS SyncLog, TLC
CONSTANTS MaxOps, MaxAppends
VARIABLES ret, ops, napp
vars == <<lvars, ret, ops, napp>>

Init == LInit /\ ret = << >> /\ ops = [g \in Procs |-> 0] /\ napp = 0

CapChoices(c) == {c + 1, c + 3}

CallAppend(g) == /\ ops[g] < MaxOps /\ napp < MaxAppends
                 /\ AppendBegin(g, <<g, ops[g]>>)
                 /\ ops' = [ops EXCEPT ![g] = @ + 1] /\ napp' = napp + 1 /\ UNCHANGED ret
RetAppend(g) == /\ AppendReturned(g) /\ LogEnd(g)
                /\ ret' = (lreg[g].i :> lreg[g].v) @@ ret
                /\ UNCHANGED <<ops, napp>>
CallLoad(g) == /\ ops[g] < MaxOps
               /\ \E idx \in DOMAIN ret : LoadBegin(g, idx)
               /\ ops' = [ops EXCEPT ![g] = @ + 1] /\ UNCHANGED <<ret, napp>>
RetLoad(g) == lpc[g] = "ldone" /\ LogEnd(g) /\ UNCHANGED <<ret, ops, napp>>

Step(g) == \/ CallAppend(g) \/ RetAppend(g) \/ CallLoad(g) \/ RetLoad(g)
           \/ (LStepFixed(g) /\ UNCHANGED <<ret, ops, napp>>)
           \/ (\E nc \in CapChoices(lreg[g].c) : LGCopy(g, nc) /\ UNCHANGED <<ret, ops, napp>>)
AllDone == \A g \in Procs : lpc[g] = "idle" /\ (ops[g] = MaxOps \/ (napp = MaxAppends /\ DOMAIN ret = {}))
Next == (\E g \in Procs : Step(g)) \/ (AllDone /\ UNCHANGED vars)
Spec == Init /\ [][Next]_vars /\ \A g \in Procs : WF_vars(Step(g))

UniqueIndex == \A g \in Procs : AppendReturned(g) => lreg[g].i \notin DOMAIN ret
Safe == NoLogPanic /\ Loadable(ret) /\ LoadReturns(ret) /\ UniqueIndex /\ TicketsDense
(* every started operation completes (no goroutine spins forever) *)
Completes == \A g \in Procs : (lpc[g] # "idle") ~> (lpc[g] = "idle")
=============================================================================
