------------------------- MODULE MCCompileExecSched -------------------------
(* Direction A for the concurrent part of CompileExec: TLC exports SCHEDULES.
   A history variable records the label of every step; it is hidden from the fingerprint by the
   VIEW, so the state space is that of CompileExec and TLC keeps one history (the first path found)
   per distinct state.  One schedule is exported per distinct state in which Compile has just
   returned (mpc = "done" reached by MainReturn): the prefix up to the return is what the gate
   controller replays step by step on the real compiler; the tail runs free.                    *)
EXTENDS MCCompileExec

VARIABLE hist
hvars == <<vars, hist>>

L1(a) == <<a>>
L2(a, f) == <<a, f>>

InitH == Init /\ hist = <<>>

StepH ==
  \/ MainStart /\ hist' = Append(hist, L1("MainStart"))
  \/ MainWaitReady /\ hist' = Append(hist, L1("MainWaitReady"))
  \/ MainWaitCtx /\ hist' = Append(hist, L1("MainWaitCtx"))
  \/ MainReturn /\ hist' = Append(hist, L1("MainReturn"))
  \/ ExternalCancel /\ hist' = Append(hist, L1("ExternalCancel"))
  \/ \E f \in Files :
       \/ AcquireOk(f) /\ hist' = Append(hist, L2("AcquireOk", f))
       \/ AcquireFail(f) /\ hist' = Append(hist, L2("AcquireFail", f))
       \/ Find(f) /\ hist' = Append(hist, L2("Find", f))
       \/ Loop(f) /\ hist' = Append(hist, L2("Loop", f))
       \/ LoopDP(f) /\ hist' = Append(hist, L2("LoopDP", f))
       \/ CheckRead(f) /\ hist' = Append(hist, L2("CheckRead", f))
       \/ CheckLookup(f) /\ hist' = Append(hist, L2("CheckLookup", f))
       \/ Release(f) /\ hist' = Append(hist, L2("Release", f))
       \/ WaitReady(f) /\ hist' = Append(hist, L2("WaitReady", f))
       \/ WaitCtx(f) /\ hist' = Append(hist, L2("WaitCtx", f))
       \/ WaitDPReady(f) /\ hist' = Append(hist, L2("WaitDPReady", f))
       \/ WaitDPCtx(f) /\ hist' = Append(hist, L2("WaitDPCtx", f))
       \/ Unblock(f) /\ hist' = Append(hist, L2("Unblock", f))
       \/ Link(f) /\ hist' = Append(hist, L2("Link", f))
       \/ FinalRelease(f) /\ hist' = Append(hist, L2("FinalRelease", f))
       \/ PanicRelease(f) /\ hist' = Append(hist, L2("PanicRelease", f))
       \/ PanicFail(f) /\ hist' = Append(hist, L2("PanicFail", f))

(* stop exploring once Compile has returned: the replay controls the schedule up to there *)
NextH == mpc # "done" /\ StepH
SpecH == InitH /\ [][NextH]_hvars

ViewH == vars

SchedCase == [imports |-> imports, req |-> req, plan |-> plan, par |-> par, ovr |-> ovr,
              mres |-> mres, sched |-> hist]
ExportSched == (mpc = "done") => PrintT("CASE " \o ToJson(SchedCase))
=============================================================================
