-------------------------------- MODULE Mutate --------------------------------
(* C12, input family (ii): the MUTATION RELATION over the valid files of internal/testdata.

   A base file f is known to the specification by two measures taken by the driver with a scanner
   of its own (not the parser under test): Toks[f], the number of lexical pieces (words, numbers,
   quoted strings, comments, single punctuation characters), and Bytes[f], its length in bytes.
   A mutant is a base file plus a chain of at most MaxChain mutations  [op, pos, n]:

     deltok  p      delete piece p                       p in 1..Toks
     duptok  p      write piece p twice                  p in 1..Toks
     swaptok p      exchange pieces p and p+1            p in 1..Toks-1
     nest    p n    insert n openers before piece p      p in 1..Toks, n in NestDepths
                    (kind = p mod 4: "message M {", "{", "[", "(")
     truncate k     keep the first k bytes               k in 0..Bytes
     insnul  k      insert a NUL byte at byte k          k in 0..Bytes
     insbad  k      insert the invalid UTF-8 byte 0x80   k in 0..Bytes
     insustr k      insert an unterminated string  "x    k in 0..Bytes
     insubc  k      insert an unterminated comment /*    k in 0..Bytes
     bom     0      put the UTF-8 byte order mark EF BB BF in front (never thinned)

   The first mutation of a chain has an exact position.  For a later mutation the position is an
   ordinal that the driver reduces modulo the current size of the (already mutated) text, because
   the specification does not track how earlier mutations change the measures.

   Positions are thinned by Stride/Phase (p % Stride = Phase) so that the quick tier takes a
   seed-dependent slice of the relation and the thorough tier (Stride = 1) takes all of it. *)
EXTENDS Naturals, Sequences, TLC, Json

CONSTANTS NFiles, Toks, Bytes,      \* measures of the base files (sequences of length NFiles)
          TokOps, ByteOps,          \* subsets of the operators above
          NestDepths,               \* e.g. {1, 50, 200}
          MaxChain,                 \* maximal number of mutations per mutant
          Stride, Phase,            \* thinning of positions
          ExportMin                 \* export mutants with at least this many mutations

VARIABLES file, muts
vars == <<file, muts>>

AllTokOps  == {"deltok", "duptok", "swaptok"}
AllByteOps == {"truncate", "insnul", "insbad", "insustr", "insubc", "bom"}
ASSUME TokOps \subseteq AllTokOps /\ ByteOps \subseteq AllByteOps
ASSUME Len(Toks) = NFiles /\ Len(Bytes) = NFiles

Thin(p) == p % Stride = Phase % Stride

TokPositions(f, op)  == {p \in 1..(IF op = "swaptok" THEN Toks[f] - 1 ELSE Toks[f]) : Thin(p)}
BytePositions(f)     == {k \in 0..Bytes[f] : Thin(k)}

Mutations(f) ==
       {[op |-> o, pos |-> p, n |-> 0] : o \in {x \in TokOps : x # "swaptok"}, p \in TokPositions(f, "deltok")}
  \cup {[op |-> "swaptok", pos |-> p, n |-> 0] : p \in IF "swaptok" \in TokOps THEN TokPositions(f, "swaptok") ELSE {}}
  \cup {[op |-> "nest", pos |-> p, n |-> d] : p \in TokPositions(f, "nest"), d \in NestDepths}
  \cup {[op |-> o, pos |-> k, n |-> 0] : o \in ByteOps \ {"bom"}, k \in BytePositions(f)}
  \cup (IF "bom" \in ByteOps THEN {[op |-> "bom", pos |-> 0, n |-> 0]} ELSE {})

Init == file \in 1..NFiles /\ muts = <<>>
Next == /\ Len(muts) < MaxChain
        /\ \E m \in Mutations(file) : muts' = Append(muts, m)
        /\ UNCHANGED file
Spec == Init /\ [][Next]_vars

Case == [file |-> file, muts |-> muts]
Export == Len(muts) >= ExportMin => PrintT("CASE " \o ToJson(Case))
=============================================================================
