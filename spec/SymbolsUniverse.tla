--------------------------- MODULE SymbolsUniverse ---------------------------
(* The generated universe of abstract files for C16 / C17.  Three packages (none, p, p.q), plain
   symbols with local names A, p, q (messages or enum values), extensions of the extendable messages
   p.M (provider file "bp"), G (no package, provider "br") and p.q.X (file "c", which also extends
   itself), with tags 1 and 2.  Local names p and q make symbol-vs-package collisions: a file without
   package that declares "p", or a file of package p that declares "q", against files of package
   p / p.q.  Every file also declares one extension field symbol per extension (unique per file) and, for
   an enum value, its enum.  Only files that link together with their own imports are kept.  *)
EXTENDS Naturals, Sequences, FiniteSets, TLC

CONSTANTS PkgTags, SymTags, ExtTags, ExtraIds

PkgR  == <<>>
PkgP  == <<"p">>
PkgPQ == <<"p", "q">>

PkgChoices == {[tag |-> "r", pkg |-> PkgR], [tag |-> "p", pkg |-> PkgP], [tag |-> "pq", pkg |-> PkgPQ]}

Loc(n, k) == [n |-> n, k |-> k]
SymChoices ==
  { [tag |-> "0",  syms |-> {}],
    [tag |-> "A",  syms |-> {Loc("A", "msg")}],
    [tag |-> "Ae", syms |-> {Loc("A", "enumval")}],
    [tag |-> "q",  syms |-> {Loc("q", "msg")}],
    [tag |-> "p",  syms |-> {Loc("p", "msg")}],
    [tag |-> "Aq", syms |-> {Loc("A", "msg"), Loc("q", "enumval")}] }

(* d: how many message levels deep the extend block is declared (0 = at file level) *)
Xt(e, t, ep, prov) == [e |-> e, t |-> t, ep |-> ep, prov |-> prov, d |-> 0]
At(x, d) == [x EXCEPT !.d = d]
M1 == Xt(<<"p", "M">>, 1, PkgP, "bp")
M2 == Xt(<<"p", "M">>, 2, PkgP, "bp")
G1 == Xt(<<"G">>, 1, PkgR, "br")
X1 == Xt(<<"p", "q", "X">>, 1, PkgPQ, "c")
X2 == Xt(<<"p", "q", "X">>, 2, PkgPQ, "c")
ExtChoices ==
  { [tag |-> "0",    exts |-> <<>>],
    [tag |-> "m1",   exts |-> <<M1>>],
    [tag |-> "m2",   exts |-> <<M2>>],
    [tag |-> "m12",  exts |-> <<M1, M2>>],
    [tag |-> "m21",  exts |-> <<M2, M1>>],
    [tag |-> "g1",   exts |-> <<G1>>],
    [tag |-> "g1m1", exts |-> <<G1, M1>>],
    [tag |-> "m2g1", exts |-> <<M2, G1>>],
    [tag |-> "x2",   exts |-> <<X2>>],
    [tag |-> "x2m1", exts |-> <<X2, M1>>],
    (* declared inside nested messages; the table meets a file's extensions in the order of walk.Descriptors:
       those inside messages before those at file level *)
    [tag |-> "n2m1",   exts |-> <<At(M1, 2)>>],
    [tag |-> "n3m1",   exts |-> <<At(M1, 3)>>],
    [tag |-> "n2m1g1", exts |-> <<At(M1, 2), G1>>] }
NestedTags == {"n2m1", "n3m1", "n2m1g1"}

RangeOf(s) == {s[i] : i \in 1..Len(s)}
(* providers in a fixed order *)
ProvOrder == <<"bp", "br", "c">>
SelectSeq2(s, S) == SelectSeq(s, LAMBDA x : x \in S)

GenId(pk, sc, xc) == "g_" \o pk.tag \o "_" \o sc.tag \o "_" \o xc.tag

ExtFieldName(id, i) == CASE i = 1 -> "x1_" \o id [] i = 2 -> "x2_" \o id [] OTHER -> "x3_" \o id
(* extension i declared d levels deep sits in message N<i>_<id> [.L2 [.L3]] *)
NestName(id, i) == CASE i = 1 -> "N1_" \o id [] i = 2 -> "N2_" \o id [] OTHER -> "N3_" \o id
NestPath(id, i, d) == SubSeq(<<NestName(id, i), "L2", "L3">>, 1, d)

(* pad: that many further messages Pad<i>_<id>, declared BEFORE everything else; unique to the file, so they
   never collide and are left out of syms -- they only make the file's conflict check take long (C16: two
   importers of colliding files must not both pass the check before either commits) *)
MkFileP(id, pkg, locals, exts, deps, pad) ==
  [pad  |-> pad,
   pkg  |-> pkg,
   syms |-> {[n |-> pkg \o <<l.n>>, k |-> l.k] : l \in locals}
            \cup {[n |-> pkg \o <<"E" \o l.n \o "_" \o id>>, k |-> "enum"] : l \in {m \in locals : m.k = "enumval"}}
            \cup {[n |-> pkg \o NestPath(id, i, exts[i].d) \o <<ExtFieldName(id, i)>>, k |-> "ext"] : i \in 1..Len(exts)}
            \cup UNION {{[n |-> pkg \o NestPath(id, i, j), k |-> "nest"] : j \in 1..exts[i].d} : i \in 1..Len(exts)},
   exts |-> [i \in 1..Len(exts) |-> [e |-> exts[i].e, t |-> exts[i].t, ep |-> exts[i].ep, d |-> exts[i].d]],
   deps |-> deps]

MkFile(id, pkg, locals, exts, deps) == MkFileP(id, pkg, locals, exts, deps, 0)

Gen(pk, sc, xc) ==
  MkFile(GenId(pk, sc, xc), pk.pkg, sc.syms, xc.exts,
         SelectSeq2(ProvOrder, {xc.exts[i].prov : i \in 1..Len(xc.exts)}))

(* hand-made files: the extendee providers, and a dependency chain c <- d2 / e2 *)
Named ==
  [bp |-> MkFile("bp", PkgP,  {Loc("M", "xmsg")}, <<>>, <<>>),
   br |-> MkFile("br", PkgR,  {Loc("G", "xmsg")}, <<>>, <<>>),
   c  |-> MkFile("c",  PkgPQ, {Loc("X", "xmsg")}, <<X1>>, <<>>),
   d2 |-> MkFile("d2", PkgP,  {Loc("D", "msg")}, <<X2>>, <<"c">>),
   e2 |-> MkFile("e2", PkgR,  {Loc("A", "msg")}, <<X2, G1>>, <<"c", "br">>),
   h  |-> MkFile("h",  PkgR,  {Loc("H", "msg")}, <<>>, <<"d2">>),
   (* new sibling packages of p.q under p *)
   s1 |-> MkFile("s1", <<"p", "r1">>, {Loc("S", "msg")}, <<>>, <<>>),
   s2 |-> MkFile("s2", <<"p", "r2">>, {Loc("S", "msg")}, <<>>, <<>>),
   s3 |-> MkFile("s3", <<"p", "r3">>, {Loc("S", "msg")}, <<M2>>, <<"bp">>),
   s4 |-> MkFile("s4", <<"p", "r4">>, {Loc("S", "enumval")}, <<>>, <<>>),
   (* two large files of one package that both declare p.Z, last *)
   ba |-> MkFileP("ba", PkgP, {Loc("Z", "msg")}, <<>>, <<>>, 350),
   bb |-> MkFileP("bb", PkgP, {Loc("Z", "msg"), Loc("Y", "msg")}, <<>>, <<>>, 350)]

GenTriples == {<<pk, sc, xc>> \in PkgChoices \X SymChoices \X ExtChoices :
                 /\ pk.tag \in PkgTags /\ sc.tag \in SymTags /\ xc.tag \in ExtTags
                 /\ ~(sc.syms = {} /\ xc.exts = <<>>)
                 /\ (xc.tag \in NestedTags => sc.tag = "0")}

NeededNamed == ExtraIds \cup {"bp", "br", "c"}
AllIds == {GenId(t[1], t[2], t[3]) : t \in GenTriples} \cup NeededNamed

UFD0 == [id \in AllIds |->
          IF id \in DOMAIN Named THEN Named[id]
          ELSE LET t == CHOOSE t \in GenTriples : GenId(t[1], t[2], t[3]) = id IN Gen(t[1], t[2], t[3])]
=============================================================================
