SPECIFICATION Spec
CONSTANTS
  MaxLen = 5
  ExportMin = 0
  Alphabet = {"a", "N", "R", "2", "3", "4"}
INVARIANTS SpecRoundTrips Export
CHECK_DEADLOCK FALSE
