------------------------------- MODULE MCLayout -------------------------------
(* Enumerates layouts of the LayoutSkel skeletons and exports them.

   Export format.  The file of a layout is   gap 0, token 1, gap 1, ..., token n, gap n.
   The skeleton (tokens and default gap items) is exported once, from the initial state
   (`skeleton`); every layout is exported as the items of the gaps it replaces (`repl`) plus the
   sizes the specification computes for the WHOLE file (bytes, lines, comments) -- the driver
   assembles the item sequence from the two and must arrive at the same sizes.  With Full = TRUE
   (small configurations, run in every tier) the complete item sequence and the expected
   concatenation are exported as well and the driver's assembly is compared with them item by item
   and byte by byte; LayoutSane then also checks the construction itself.

   Mode "bfs": every layout that replaces at most MaxGaps gaps (out of all gaps, or out of the
   representatives of every gap class) by at most MaxPerGap choices each; gaps are touched in
   increasing order and only the last touched gap grows, so every layout is generated once.
   Mode "sim" (tlc -simulate): walks the gaps left to right and replaces each with probability
   Density% by one or (40%) two random choices -- many gaps at once.                               *)
EXTENDS Layout, LayoutSkel, Json
CONSTANTS SkelIds, Mode, MaxGaps, MaxPerGap, AllowedMode, Choices, Density, Full
VARIABLES sk, cls, base, allowed, layout, cursor
vars == <<sk, cls, base, allowed, layout, cursor>>
View == <<sk.id, layout, cursor>>

Init == /\ \E id \in SkelIds : sk = Skel(id)
        /\ cls = Classes(sk)
        /\ base = Base(sk)
        /\ allowed = CASE AllowedMode = "all"  -> 0..NGaps(sk)
                       [] AllowedMode = "reps" -> Reps(cls)      \* first, second and last gap of every class
                       [] OTHER                -> Firsts(cls)    \* "first": one gap per class
        /\ layout = <<>> /\ cursor = 0

LastGap == layout[Len(layout)][1]
LastChoices == layout[Len(layout)][2]

BfsNext ==
  /\ \/ /\ Len(layout) < MaxGaps                                   \* touch a further gap
        /\ \E g \in allowed :
             /\ IF layout = <<>> THEN TRUE ELSE g > LastGap
             /\ \E c \in Choices : ChoiceOK(sk, g, 1, c) /\ layout' = Append(layout, <<g, <<c>>>>)
     \/ /\ layout # <<>>                                             \* one more choice in the last touched gap
        /\ Len(LastChoices) < MaxPerGap
        /\ LastChoices[Len(LastChoices)] # "LCE"
        /\ \E c \in Choices : /\ ChoiceOK(sk, LastGap, Len(LastChoices) + 1, c)
                              /\ layout' = [layout EXCEPT ![Len(layout)][2] = Append(@, c)]
  /\ UNCHANGED <<sk, cls, base, allowed, cursor>>

(* one random successor per step (the random draws are bound by singleton quantifiers so that each
   is evaluated once) *)
SimNext ==
  /\ cursor <= NGaps(sk) + 1
  /\ cursor' = cursor + 1
  /\ IF cursor > NGaps(sk) \/ RandomElement(1..100) > Density
       THEN layout' = layout
       ELSE \E c1 \in {RandomElement({c \in Choices : ChoiceOK(sk, cursor, 1, c)})} :
              IF c1 = "LCE" \/ RandomElement(1..100) > 40
                THEN layout' = Append(layout, <<cursor, <<c1>>>>)
                ELSE \E c2 \in {RandomElement({c \in Choices : ChoiceOK(sk, cursor, 2, c)})} :
                       layout' = Append(layout, <<cursor, <<c1, c2>>>>)
  /\ UNCHANGED <<sk, cls, base, allowed>>

Next == IF Mode = "sim" THEN SimNext ELSE BfsNext
Spec == Init /\ [][Next]_vars

Code(it) == IF IsToken(it) THEN "=" \o Text(sk, it)
            ELSE IF IsComment(it) THEN it[1] \o ":" \o Num(it[2]) ELSE it[1]
Codes(its) == [j \in DOMAIN its |-> Code(its[j])]

(* design-level sanity of the construction (Full configurations) *)
LayoutSane(its) ==
  LET n == Len(sk.toks)
      toks == SelectSeq(its, IsToken)
      cms  == SelectSeq(its, IsComment)
  IN /\ toks = [j \in 1..n |-> <<"TOK", j>>]                       \* trivia never changes the tokens
     /\ \A j \in 1..(Len(cms) - 1) : cms[j][2] < cms[j + 1][2]       \* comments distinct, numbered in file order
     /\ \A j \in 1..(Len(its) - 1) :
          /\ ~(IsToken(its[j]) /\ IsToken(its[j + 1])
               /\ sk.toks[its[j][2]][2] = "w" /\ sk.toks[its[j + 1][2]][2] = "w")   \* words stay apart
          /\ (its[j][1] = "LC" => its[j + 1][1] \in {"LF", "CRLF"})  \* a line comment ends at a line end
          /\ ~(IsToken(its[j]) /\ sk.toks[its[j][2]][1] = "/" /\ IsComment(its[j + 1]))
     /\ \A j \in 2..Len(its) : its[j][1] # "BOM"
     /\ Sizes(sk, base, layout) = <<Bytes(sk, its), LineFeeds(its), NComments(its)>>   \* the incremental sizes are the real ones

Compact ==
  LET sz == Sizes(sk, base, layout)
  IN [skel |-> sk.id, layout |-> layout,
      cls |-> [j \in DOMAIN layout |-> cls[layout[j][1] + 1]],
      repl |-> [j \in DOMAIN layout |-> <<layout[j][1], Codes(GapItems(sk, layout, layout[j][1]))>>],
      nbytes |-> sz[1], nlines |-> sz[2] + 1, ncom |-> sz[3]]

(* `its` is bound by a quantifier over a singleton so that TLC evaluates Items once *)
FullCase(its) == Compact @@ [items |-> Codes(its), src |-> Concat(sk, its), sane |-> LayoutSane(its)]

SkelCase == [skeleton |-> sk.id, syntax |-> sk.syntax, features |-> sk.features,
             toks |-> [j \in DOMAIN sk.toks |-> sk.toks[j][1]],
             gaps |-> [g \in DOMAIN sk.gaps |-> Codes(Numbered(sk.gaps[g], g - 1))],
             classes |-> cls]

Exportable == IF Mode = "sim" THEN cursor = NGaps(sk) + 2 ELSE TRUE
Export == /\ (layout = <<>> /\ cursor = 0) => PrintT("CASE " \o ToJson(SkelCase))
          /\ Exportable => IF Full THEN \A its \in {Items(sk, layout)} : PrintT("CASE " \o ToJson(FullCase(its)))
                           ELSE PrintT("CASE " \o ToJson(Compact))
=============================================================================
