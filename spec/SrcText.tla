------------------------------- MODULE SrcText -------------------------------
(* Source text as a sequence of character classes, and the position arithmetic the
   two compilers promise (C13: ast.FileInfo.SourcePos, C32: source.File.Location /
   InverseLocation).  Written from the property statements, not from the Go code.

   Character classes:
     "a"  one-byte printable ASCII          "T"  TAB        "N"  LF      "R"  CR
     "2"  a 2-byte UTF-8 character (1 UTF-16 unit)
     "3"  a 3-byte UTF-8 character (1 UTF-16 unit)
     "4"  a 4-byte UTF-8 character (2 UTF-16 units, one rune)
   A boundary k \in 0..Len(t) is the position after the first k characters. *)
EXTENDS Naturals, Sequences, FiniteSets

Classes == {"a", "T", "N", "R", "2", "3", "4"}

ByteLen(c) == CASE c = "2" -> 2 [] c = "3" -> 3 [] c = "4" -> 4 [] OTHER -> 1
U16Len(c)  == IF c = "4" THEN 2 ELSE 1

RECURSIVE SumBytes(_, _, _), SumU16(_, _, _)
SumBytes(t, lo, hi) == IF lo > hi THEN 0 ELSE ByteLen(t[lo]) + SumBytes(t, lo + 1, hi)
SumU16(t, lo, hi)   == IF lo > hi THEN 0 ELSE U16Len(t[lo]) + SumU16(t, lo + 1, hi)

(* byte offset of boundary k *)
Off(t, k) == SumBytes(t, 1, k)

(* line of boundary k: one plus the number of newlines before it *)
Line(t, k) == 1 + Cardinality({i \in 1..k : t[i] = "N"})

(* boundary at which the line containing boundary k starts *)
LineStart(t, k) ==
  LET nls == {i \in 1..k : t[i] = "N"}
  IN IF nls = {} THEN 0 ELSE CHOOSE i \in nls : \A j \in nls : j <= i

ColBytes(t, k) == 1 + SumBytes(t, LineStart(t, k) + 1, k)
ColRunes(t, k) == 1 + (k - LineStart(t, k))
ColU16(t, k)   == 1 + SumU16(t, LineStart(t, k) + 1, k)

(* C13: one per character, a tab advances to the next multiple of eight (0-based) *)
RECURSIVE Col8From(_, _, _, _)
Col8From(t, i, k, col) ==
  IF i > k THEN col
  ELSE Col8From(t, i + 1, k, IF t[i] = "T" THEN col + (8 - (col % 8)) ELSE col + 1)
Col8(t, k) == 1 + Col8From(t, LineStart(t, k) + 1, k, 0)

(* C32: the inverse.  (line, col) in unit u names the boundary k of that line whose column is
   col; defined for every pair produced by the forward direction. *)
ColIn(t, k, u) == CASE u = "bytes" -> ColBytes(t, k) [] u = "utf16" -> ColU16(t, k) [] OTHER -> ColRunes(t, k)
Inverse(t, line, col, u) ==
  CHOOSE k \in 0..Len(t) : Line(t, k) = line /\ ColIn(t, k, u) = col

(* Forward/inverse agree at spec level: checked by TLC as an invariant of MCSrcLoc *)
RoundTrips(t) == \A k \in 0..Len(t) : \A u \in {"bytes", "utf16", "runes"} :
                   Inverse(t, Line(t, k), ColIn(t, k, u), u) = k
=============================================================================
