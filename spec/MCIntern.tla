------------------------------- MODULE MCIntern -------------------------------
(* Exhaustive exploration of Intern for a few goroutines and a small pool of overlapping
   strings.  With Export the action history of every distinct terminal state is printed as a
   schedule for the gate controller of harness/intern (hist is hidden by VIEW; sig, the
   first SigMax contested outcomes - a slot found reserved or already taken -, is not, so each distinct outcome order gets a schedule). *)
EXTENDS Intern, Json
CONSTANTS Strs, OpKinds, CapSet, GoCaps, SigMax
VARIABLES hist, sig
vars == <<allvars, hist, sig>>
view == <<allvars, sig>>

(* string pools (cfg: Strs <- PoolN).  "a." and "-" and "aaaaaa" are not inline-encodable (trailing
   dot, foreign byte, too long); "a" and "" are. *)
SDot == <<97, 46>>
SDash == <<45>>
SLong == <<97, 97, 97, 97, 97, 97>>
SInl == <<97>>
Pool1 == {SDot, SInl}
Pool2 == {SDot, SLong, SInl}
Pool2e == {SDot, SLong, SInl, <<>>}
Pool3 == {SDot, SLong, SDash, SInl}

Init == IInit /\ hist = <<>> /\ sig = <<>>

(* capacities the allocator may pick when the log grows: any of c + CapSet for the exhaustive
   check (so that fast-path writers overlap within few appends); exactly what Go's append does
   for 16-byte elements (1, 2, 4, 8) when schedules are exported for replay *)
CapChoices(c) == IF GoCaps THEN {IF c = 0 THEN 1 ELSE 2 * c} ELSE {c + k : k \in CapSet}

LogEvName(p) == CASE p = "ticket" -> "log.ticket" [] p = "capwait" -> "log.cap" [] p = "fptr" -> "log.fptr"
                  [] p = "write" -> "log.write" [] p = "flen" -> "log.flen" [] p = "fwait" -> "log.fdone"
                  [] p = "gwait" -> "log.gready" [] p = "gptr" -> "log.gptr" [] p = "gcap" -> "log.gcap"
                  [] p = "glen" -> "log.glen" [] p = "llen" -> "log.llen" [] p = "lptr" -> "log.lptr"
                  [] p = "lread" -> "log.lread" [] OTHER -> "log.?" 

H(g, ev, r) == hist' = Append(hist, [g |-> g, ev |-> ev] @@ r)
S(x) == sig' = IF Len(sig) < SigMax THEN Append(sig, x) ELSE sig
NoS == UNCHANGED sig
Nil == [s |-> <<>>, id |-> 0, loaded |-> FALSE, i |-> 0, x |-> 0]

DoCall(g) == \E op \in OpKinds :
   \/ /\ op \in {"intern", "query"}
      /\ \E s \in Strs : Call(g, op, s, 0) /\ H(g, "call", [Nil EXCEPT !.s = s] @@ [op |-> op])
   \/ /\ op = "value"
      /\ \E id \in DOMAIN issued : Call(g, op, <<>>, id) /\ H(g, "call", [Nil EXCEPT !.id = id] @@ [op |-> op])

Step(g) ==
  \/ DoCall(g) /\ NoS
  \/ QLoad(g) /\ H(g, "q.load", [Nil EXCEPT !.s = reg[g].s, !.loaded = ~Absent(reg[g].s)]) /\ NoS
  \/ QRead(g) /\ H(g, "q.read", [Nil EXCEPT !.s = reg[g].s, !.id = index[reg[g].s]])
              /\ (IF index[reg[g].s] = 0 THEN S(<<g, "q0">>) ELSE NoS)
  \/ Los(g) /\ H(g, "los", [Nil EXCEPT !.s = reg[g].s, !.loaded = ~Absent(reg[g].s)])
            /\ (IF Absent(reg[g].s) THEN NoS ELSE S(<<g, "ld">>))
  \/ LosRead(g) /\ H(g, "los.read", [Nil EXCEPT !.s = reg[g].s, !.id = index[reg[g].s]])
                /\ (IF index[reg[g].s] = 0 THEN S(<<g, "r0">>) ELSE NoS)
  \/ LogStep(g) /\ H(g, LogEvName(lpc[g]), [Nil EXCEPT !.i = IF lpc[g] \in {"llen", "lptr", "lread"} THEN lreg[g].idx ELSE lreg'[g].i,
                                                   !.x = IF lpc[g] = "capwait" THEN lcap ELSE IF lpc[g] = "llen" THEN llen ELSE 0]) /\ NoS
  \/ (\E nc \in CapChoices(lreg[g].c) : LogGrow(g, nc) /\ H(g, "log.gcopy", [Nil EXCEPT !.i = lreg[g].i, !.x = nc])) /\ NoS
  \/ Commit(g) /\ H(g, "commit", [Nil EXCEPT !.s = reg[g].s, !.id = lreg[g].i + 1]) /\ NoS
  \/ ValueDone(g) /\ UNCHANGED hist /\ NoS
  \/ Ret(g) /\ H(g, "ret", [Nil EXCEPT !.s = IF reg[g].op = "value" THEN reg[g].res ELSE reg[g].s,
                                        !.id = IF reg[g].op = "value" THEN reg[g].arg ELSE reg[g].id,
                                        !.loaded = reg[g].ok] @@ [op |-> reg[g].op]) /\ NoS

AllDone == \A g \in Procs : pc[g] = "idle" /\ ops[g] = MaxOps
Next == (\E g \in Procs : Step(g)) \/ (AllDone /\ UNCHANGED vars)
Spec == Init /\ [][Next]_vars /\ \A g \in Procs : WF_vars(Step(g))

(* every call returns: no goroutine spins forever on a reserved slot or inside the log *)
Completes == \A g \in Procs : (pc[g] # "idle") ~> (pc[g] = "idle")

Export == AllDone => PrintT("CASE " \o ToJson([steps |-> hist]))
=============================================================================
