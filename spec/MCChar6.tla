------------------------------- MODULE MCChar6 -------------------------------
(* Enumerates every byte string over Alphabet up to MaxLen; checks, at spec level, that the
   inline encoding round-trips and is one-to-one, and exports one case per string with the
   expected (inline?, id) for the Go driver (Table.Query on an empty table, Table.Value). *)
EXTENDS Char6, TLC, Json, FiniteSets
CONSTANTS MaxLen, Alphabet
VARIABLE bs
Init == bs = <<>>
Next == Len(bs) < MaxLen /\ \E c \in Alphabet : bs' = Append(bs, c)
Spec == Init /\ [][Next]_bs

RoundTrip == Inlineable(bs) => /\ Decode(Encode(bs)) = bs
                               /\ IsInlineId(Encode(bs))
                               /\ (bs # <<>> => Encode(bs) < 0)
(* one-to-one: any other inlineable string over the alphabet that differs from bs in one
   position, or is a prefix/extension by one character, has a different id.  (Full
   injectivity follows from RoundTrip; this is the direct statement on near-collisions.) *)
Neighbours == {SubSeq(bs, 1, Len(bs) - 1) : x \in IF bs = <<>> THEN {} ELSE {1}} \cup
              {Append(bs, c) : c \in Alphabet} \cup
              {[bs EXCEPT ![k] = c] : k \in 1..Len(bs), c \in Alphabet}
Injective == Inlineable(bs) =>
               \A o \in Neighbours : (Inlineable(o) /\ o # bs) => Encode(o) # Encode(bs)

Case == [bs |-> bs, inl |-> Inlineable(bs), id |-> IF Inlineable(bs) THEN Encode(bs) ELSE 0]
Export == PrintT("CASE " \o ToJson(Case))
=============================================================================
