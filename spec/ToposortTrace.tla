---------------------------- MODULE ToposortTrace ----------------------------
(* C41, direction B: the order toposort.Sort yields is not a function of the input (any
   children-first order is allowed), so the real output of every replayed case is recorded by
   harness/toposort and validated here against Toposort!ValidOrder.
   One ndjson line per call: {"n":N, "edges":[[parent,child],...], "roots":[...], "out":[...],
   "panic":"..."}; a call that panicked did not "terminate and yield", so it is rejected.
   Rejected records are printed as REJECT <line> and skipped; POSTCONDITION: file consumed. *)
EXTENDS Toposort, TLC, Json, IOUtils
CONSTANT TraceFile
VARIABLES i, rejected
vars == <<i, rejected>>

Trace == ndJsonDeserialize(TraceFile)

EdgeSet(r) == {<<r.edges[k][1], r.edges[k][2]>> : k \in 1..Len(r.edges)}
Accept(r) == /\ r.panic = ""
             /\ Elems(r.out) \subseteq 1..r.n
             /\ ValidOrder(EdgeSet(r), r.roots, r.out)

Init == i = 1 /\ rejected = 0
Next == /\ i <= Len(Trace)
        /\ i' = i + 1
        /\ IF Accept(Trace[i]) THEN rejected' = rejected
           ELSE /\ PrintT("REJECT " \o ToString(i))
                /\ rejected' = rejected + 1
Spec == Init /\ [][Next]_vars

Consumed == TLCGet("stats").diameter = Len(Trace) + 1
=============================================================================
