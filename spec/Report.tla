------------------------------- MODULE Report -------------------------------
(* Diagnostic reports of the experimental compiler (experimental/report), as the
   property statements C36 / C37 and the documented contracts describe them:

     * a report is a sequence of diagnostics;
     * a diagnostic has a level, a message, an optional tag, an optional "in file" path, a sort
       order ("stage"), a sequence of annotations and three text lists (notes, help, debug);
     * an annotation is a span [start, end) in a file plus a message, a "primary" flag (the first
       annotation added is the primary one), a page-break flag and a list of suggested edits
       whose offsets are relative to the span.

   Operators in the first half mirror the PUBLIC constructors (Report.Levelf + Diagnostic.Apply
   with Tag / InFile / Snippetf / SuggestEdits / PageBreak / Notef / Helpf / Debugf); the second
   half states
     - the protobuf form (buf.compiler.v1alpha1.Report as report.proto documents it) and the
       round trip  Decode(Encode(r)) = r                                          (C37)
     - Canonicalize as its doc comment defines it (sort by six keys, drop tagged duplicates on
       the same primary span keeping the one that sorts greatest), and what C36 promises on top
       of that: the result does not depend on the input order and canonicalizing is idempotent.

   Nothing here is transcribed from report.go. *)
EXTENDS Naturals, Sequences, FiniteSets, TLC

(* ------------------------------------------------------------------------------------------ *)
(* Strings that take part in comparisons, in ascending byte order.  TLA+ has no order on
   strings; the Go driver receives this list (META case) and verifies that it is strictly
   ascending under Go's string comparison, so Rank is an order embedding.                      *)
KeyStrings == << "", "a.proto", "b.proto", "e.proto", "m", "n", "t", "u", "z.proto" >>
Rank(s) == CHOOSE i \in 1..Len(KeyStrings) : KeyStrings[i] = s

Levels == << "ice", "error", "warning", "remark" >>          \* in documented severity order
LevelRank(l) == CHOOSE i \in 1..Len(Levels) : Levels[i] = l

(* ------------------------------------------------------------------------------------------ *)
(* Constructors                                                                                *)

NewDiag(level, msg, stage) ==
  [level |-> level, msg |-> msg, tag |-> "", inFile |-> "", stage |-> stage,
   anns |-> <<>>, notes |-> <<>>, help |-> <<>>, debug |-> <<>>]

WithTag(d, t)     == [d EXCEPT !.tag = t]
WithInFile(d, p)  == [d EXCEPT !.inFile = p]
WithNote(d, s)    == [d EXCEPT !.notes = Append(@, s)]
WithHelp(d, s)    == [d EXCEPT !.help = Append(@, s)]
WithDebug(d, s)   == [d EXCEPT !.debug = Append(@, s)]

(* file = [path |-> STRING, text |-> sequence of one-byte classes]; the span must lie in it *)
WithSuggest(d, file, start, end, msg, edits) ==
  [d EXCEPT !.anns = Append(@, [path |-> file.path, start |-> start, end |-> end, msg |-> msg,
                                primary |-> (Len(d.anns) = 0), pb |-> FALSE, edits |-> edits])]
WithSnippet(d, file, start, end, msg) == WithSuggest(d, file, start, end, msg, <<>>)

(* report.PageBreak marks the last annotation added so far; no-op without annotations *)
WithPageBreak(d) ==
  IF Len(d.anns) = 0 THEN d ELSE [d EXCEPT !.anns[Len(d.anns)].pb = TRUE]
WithEdit(d, e) ==            \* one more edit on the last annotation (SuggestEdits takes them all)
  [d EXCEPT !.anns[Len(d.anns)].edits = Append(@, e)]

SpanOK(file, start, end) == start <= end /\ end <= Len(file.text)
EditOK(start, end, e)    == e.start <= e.end /\ e.end <= end - start

(* ------------------------------------------------------------------------------------------ *)
(* Primary span.  "Where diagnostics have no primary span, the file is treated as empty and
   the offsets are treated as zero."                                                          *)
NoSpan == [path |-> "", start |-> 0, end |-> 0]
Primary(d) ==
  LET I == {i \in 1..Len(d.anns) : d.anns[i].primary}
  IN IF I = {} THEN NoSpan
     ELSE LET i == CHOOSE k \in I : \A j \in I : k <= j
          IN [path |-> d.anns[i].path, start |-> d.anns[i].start, end |-> d.anns[i].end]

(* ------------------------------------------------------------------------------------------ *)
(* C37: the protobuf form.  Report{files: [{path, text}], diagnostics: [{message, tag, level,
   in_file, annotations: [{message, primary, page_break, file (index into files), start, end,
   edits: [{start, end, replace}]}], notes, help, debug}]}.  File.text is "the textual contents
   of this file"; files are de-duplicated by path.  The sort order (stage) is not part of the
   message.                                                                                    *)

RECURSIVE PathsOfAnns(_, _)
PathsOfAnns(anns, acc) ==       \* paths in first-use order, appended to acc without repeats
  IF anns = <<>> THEN acc
  ELSE LET p == Head(anns).path
       IN PathsOfAnns(Tail(anns), IF \E i \in 1..Len(acc) : acc[i] = p THEN acc ELSE Append(acc, p))
RECURSIVE PathsOfDiags(_, _)
PathsOfDiags(L, acc) ==
  IF L = <<>> THEN acc ELSE PathsOfDiags(Tail(L), PathsOfAnns(Head(L).anns, acc))

IndexOf(seq, x) == CHOOSE i \in 1..Len(seq) : seq[i] = x

(* Files: the set of file records the report's spans point into (one record per path) *)
Encode(L, Files) ==
  LET paths == PathsOfDiags(L, <<>>)
      fileOf(p) == CHOOSE f \in Files : f.path = p
  IN [files |-> [i \in 1..Len(paths) |-> [path |-> paths[i], text |-> fileOf(paths[i]).text]],
      diagnostics |-> [i \in 1..Len(L) |->
         [message |-> L[i].msg, tag |-> L[i].tag, level |-> L[i].level, in_file |-> L[i].inFile,
          notes |-> L[i].notes, help |-> L[i].help, debug |-> L[i].debug,
          annotations |-> [j \in 1..Len(L[i].anns) |->
             LET a == L[i].anns[j]
             IN [message |-> a.msg, primary |-> a.primary, page_break |-> a.pb,
                 file |-> IndexOf(paths, a.path) - 1, start |-> a.start, end |-> a.end,
                 edits |-> a.edits]]]]]

(* Decoding yields the diagnostics and, per annotation, the file (path and text) it points into *)
Decode(P) ==
  [i \in 1..Len(P.diagnostics) |->
     LET d == P.diagnostics[i]
     IN [level |-> d.level, msg |-> d.message, tag |-> d.tag, inFile |-> d.in_file, stage |-> 0,
         notes |-> d.notes, help |-> d.help, debug |-> d.debug,
         anns |-> [j \in 1..Len(d.annotations) |->
            LET a == d.annotations[j]
            IN [path |-> P.files[a.file + 1].path, start |-> a.start, end |-> a.end,
                msg |-> a.message, primary |-> a.primary, pb |-> a.page_break, edits |-> a.edits]]]]

StripStage(L) == [i \in 1..Len(L) |-> [L[i] EXCEPT !.stage = 0]]
RoundTrip(L, Files) == Decode(Encode(L, Files))

(* spec-level statement of C37, checked by TLC on every enumerated report *)
RoundTripIsIdentity(L, Files) ==
  /\ RoundTrip(L, Files) = StripStage(L)
  /\ LET P == Encode(L, Files)
     IN /\ \A i, j \in 1..Len(P.files) : P.files[i].path = P.files[j].path => i = j
        /\ \A i \in 1..Len(P.files) : \E f \in Files : f.path = P.files[i].path /\ f.text = P.files[i].text

(* ------------------------------------------------------------------------------------------ *)
(* C36: Canonicalize.                                                                          *)

LexLess(a, b) == \E i \in 1..Len(a) : a[i] < b[i] /\ \A j \in 1..(i - 1) : a[j] = b[j]

(* the six documented keys, in order *)
DocKey(d) == << Rank(Primary(d).path), d.stage, Primary(d).start, Primary(d).end,
                Rank(d.tag), Rank(d.msg) >>
DocLess(a, b) == LexLess(DocKey(a), DocKey(b))

(* The documentation leaves the order of diagnostics that agree on all six keys open.  C36
   demands that the result be the same for every input order nevertheless, so SOME total
   order extending the documented one must be used.  TieKey is the specification's choice
   (any would do): every remaining field, encoded numerically.  It must separate all distinct
   diagnostics of the universe in use (TieKeyInjective is checked by TLC in MCReportCanon).   *)
(* every string the configurations use, for an (arbitrary, injective) numbering *)
OtherStrings == << "am", "au", "x1", "x2", "r", "ru", "mu", "ml" >>
AllStrings == KeyStrings \o OtherStrings
Num(s) == CHOOSE i \in 1..Len(AllStrings) : AllStrings[i] = s
B2N(b) == IF b THEN 1 ELSE 0
(* fixed-width numeric encodings (LexLess compares tuples of equal length): up to two texts per
   list, up to two annotations, up to two edits per annotation; 0 pads                        *)
TextsKey(ss) == << Len(ss), IF Len(ss) >= 1 THEN Num(ss[1]) ELSE 0, IF Len(ss) >= 2 THEN Num(ss[2]) ELSE 0 >>
EditKey(es, i) == IF Len(es) >= i THEN << es[i].start + 1, es[i].end + 1, Num(es[i].replace) >> ELSE << 0, 0, 0 >>
AnnKey(as, i) ==
  IF Len(as) >= i
  THEN << Num(as[i].path), as[i].start + 1, as[i].end + 1, Num(as[i].msg), B2N(as[i].primary), B2N(as[i].pb),
          Len(as[i].edits) >> \o EditKey(as[i].edits, 1) \o EditKey(as[i].edits, 2)
  ELSE << 0, 0, 0, 0, 0, 0, 0, 0, 0, 0, 0, 0, 0 >>
TieKey(d) == << LevelRank(d.level), Num(d.inFile), Len(d.anns) >> \o AnnKey(d.anns, 1) \o AnnKey(d.anns, 2)
             \o TextsKey(d.notes) \o TextsKey(d.help) \o TextsKey(d.debug)
FullKey(d)     == DocKey(d) \o TieKey(d)
FullLess(a, b) == LexLess(FullKey(a), FullKey(b))

Permute(L, p) == [i \in 1..Len(L) |-> L[p[i]]]
Perms(n)      == Permutations(1..n)

SameDup(a, b) == a.tag # "" /\ a.tag = b.tag /\ Primary(a) = Primary(b)

SubSeqAt(S, I) ==          \* the elements of S at the indices in I, in order
  LET f[k \in 0..Len(S)] == IF k = 0 THEN <<>> ELSE IF k \in I THEN Append(f[k - 1], S[k]) ELSE f[k - 1]
  IN f[Len(S)]

(* "deduplicate diagnostics whose primary span and (nonempty) diagnostic tags are equal,
   selecting the diagnostic that sorts as greatest".  Parametric in the order and in the
   duplicate relation so that model-checking configurations can run it on precomputed indices. *)
DedupBy(S, Dup(_, _)) == SubSeqAt(S, {i \in 1..Len(S) : ~ \E j \in (i + 1)..Len(S) : Dup(S[i], S[j])})
CanonBy(L, Less(_, _), Dup(_, _), keepDuplicates) ==
  LET S == SortSeq(L, Less) IN IF keepDuplicates THEN S ELSE DedupBy(S, Dup)

Dedup(S) == DedupBy(S, SameDup)
Canon(L, keepDuplicates) == CanonBy(L, FullLess, SameDup, keepDuplicates)

(* features of a list that the verdict classes are keyed on *)
DocTie(a, b) == DocKey(a) = DocKey(b) /\ a # b     \* DIFFERENT diagnostics agree on all six keys
FullKeyTie(L) == \E i, j \in 1..Len(L) : i < j /\ DocTie(L[i], L[j])
(* tagged duplicates that are not neighbours in the documented order: S sorted *)
SplitDupBy(S, Dup(_, _), Tagged(_)) ==
  \E i, j \in 1..Len(S) : i + 1 < j /\ Dup(S[i], S[j])
                           /\ \E k \in (i + 1)..(j - 1) : Tagged(S[k]) /\ ~ Dup(S[k], S[j])
SplitDup(L) == SplitDupBy(SortSeq(L, FullLess), SameDup, LAMBDA d : d.tag # "")

(* spec-level statements of C36 (ii) and of the documented contract, parametric like CanonBy *)
OrderFreeBy(L, Less(_, _), Dup(_, _)) ==
  \A k \in BOOLEAN : \A p \in Perms(Len(L)) :
     CanonBy(Permute(L, p), Less, Dup, k) = CanonBy(L, Less, Dup, k)
IdempotentBy(L, Less(_, _), Dup(_, _)) ==
  \A k \in BOOLEAN : CanonBy(CanonBy(L, Less, Dup, k), Less, Dup, k) = CanonBy(L, Less, Dup, k)
NoDupLeftBy(L, Less(_, _), Dup(_, _)) ==
  LET C == CanonBy(L, Less, Dup, FALSE) IN \A i, j \in 1..Len(C) : i # j => ~ Dup(C[i], C[j])
SortedByDoc(S) == \A i, j \in 1..Len(S) : i < j => ~ DocLess(S[j], S[i])

CanonOrderFree(L)  == OrderFreeBy(L, FullLess, SameDup)
CanonIdempotent(L) == IdempotentBy(L, FullLess, SameDup)
CanonNoDupLeft(L)  == NoDupLeftBy(L, FullLess, SameDup)
CanonSorted(L)     == \A k \in BOOLEAN : SortedByDoc(Canon(L, k))
=============================================================================
