---------------------------- MODULE DiagWorkspace ----------------------------
(* Invalid multi-file Protobuf workspaces, abstractly (inputs for C36 part (i): "for any inputs,
   the diagnostics a run of the experimental compiler reports are the same, in the same order,
   for every parallelism and every schedule").

   A workspace is a sequence of files; file i is called Names[i] and has
     imports : a set of file indices (an index may be the file itself: a self-import),
     missing : whether it additionally imports a file that does not exist,
     kind    : one local defect
                 "ok"       none
                 "unknown"  a field whose type is not defined anywhere
                 "dup"      the same message declared twice in the file
                 "syntax"   a field declaration without `=`
                 "shared"   declares the message `Shared`, which every other "shared" file of the
                            workspace declares too (a cross-file duplicate symbol)
   Every file uses one type of each file it imports, so imports are never unused.

   The operators below compute the features the verdict classes are keyed on (Cyclic) and the
   diagnostics that MUST be present for acyclic workspaces (Expect), from the language rules. *)
EXTENDS Naturals, Sequences, FiniteSets

Names == << "a", "b", "c", "d" >>

Idx(ws) == 1..Len(ws)

(* files reachable from i through one or more imports *)
RECURSIVE ReachFrom(_, _, _)
ReachFrom(ws, frontier, seen) ==
  LET next == UNION {ws[i].imports : i \in frontier} \ seen
  IN IF next = {} THEN seen ELSE ReachFrom(ws, next, seen \cup next)
ReachPlus(ws, i) == ReachFrom(ws, {i}, {})

Cyclic(ws)      == \E i \in Idx(ws) : i \in ReachPlus(ws, i)
SelfImport(ws)  == \E i \in Idx(ws) : i \in ws[i].imports
(* files that are on a cycle or import (transitively) a file that is *)
TaintedByCycle(ws) == {i \in Idx(ws) : \E j \in ReachPlus(ws, i) \cup {i} : j \in ReachPlus(ws, j)}

SharedFiles(ws) == {i \in Idx(ws) : ws[i].kind = "shared"}

(* the workspace must be rejected *)
Invalid(ws) ==
  \/ Cyclic(ws)
  \/ \E i \in Idx(ws) : ws[i].missing \/ ws[i].kind \in {"unknown", "dup", "syntax"}
  \/ Cardinality(SharedFiles(ws)) >= 2

(* Diagnostics every run must report when all files of the workspace are compiled and the
   import graph is acyclic: one per local defect, in the file that has it ("*" = in whichever
   of the files involved). *)
Expect(ws) ==
  {[file |-> Names[i], kind |-> ws[i].kind] : i \in {j \in Idx(ws) : ws[j].kind \in {"unknown", "dup", "syntax"}}}
  \cup {[file |-> Names[i], kind |-> "missing"] : i \in {j \in Idx(ws) : ws[j].missing}}
  \cup (IF Cardinality(SharedFiles(ws)) >= 2 THEN {[file |-> "*", kind |-> "shared"]} ELSE {})

(* shape, for distinct_nontrivial accounting *)
Shape(ws) == [n |-> Len(ws), edges |-> Cardinality({<<i, j>> \in Idx(ws) \X Idx(ws) : j \in ws[i].imports}),
              cyclic |-> Cyclic(ws), self |-> SelfImport(ws),
              kinds |-> {ws[i].kind : i \in Idx(ws)},
              missing |-> Cardinality({i \in Idx(ws) : ws[i].missing})]
=============================================================================
