---------------------------- MODULE DiagWorkspace ----------------------------
(* Invalid multi-file Protobuf workspaces, abstractly (inputs for C36 part (i): "for any inputs,
   the diagnostics a run of the experimental compiler reports are the same, in the same order,
   for every parallelism and every schedule").

   A universe is a sequence of files; file i is called Names[i] and has
     inws    : whether it is one of the files handed to the compiler (the WORKSPACE); the others
               exist for the Opener and are compiled only when something imports them
     imports : a set of file indices (an index may be the file itself: a self-import),
     missing : whether it additionally imports a file that does not exist,
     kind    : one defect
                 "ok"       none
                 "unknown"  a field whose type is not defined anywhere
                 "dup"      the same message declared twice in the file
                 "syntax"   a field declaration without `=`
                 "shared"   declares the message `Shared`, which every other "shared" file declares
                            too (a cross-file duplicate symbol)
                 "extclash" extends the message ExtBase (declared in one more file, imported by
                            every "extclash" file and never part of the workspace) with extension
                            number 100, like every other "extclash" file (a cross-file duplicate
                            extension number)
   Every file uses one type of each file it imports, so imports are never unused.

   The operators below compute the features the verdict classes are keyed on (Cyclic), the
   diagnostics that MUST be present for acyclic workspaces (Expect) and the defect kinds whose
   presence the language rules as written here do not settle (Unsettled).                      *)
EXTENDS Naturals, Sequences, FiniteSets

Names == << "a", "b", "c", "d" >>

Idx(ws) == 1..Len(ws)

(* files reachable from the set S through one or more imports *)
RECURSIVE ReachFrom(_, _, _)
ReachFrom(ws, frontier, seen) ==
  LET next == UNION {ws[i].imports : i \in frontier} \ seen
  IN IF next = {} THEN seen ELSE ReachFrom(ws, next, seen \cup next)
ReachPlus(ws, i) == ReachFrom(ws, {i}, {})

Workspace(ws) == {i \in Idx(ws) : ws[i].inws}
(* the files a compile of the workspace touches *)
Compiled(ws)  == Workspace(ws) \cup ReachFrom(ws, Workspace(ws), {})

(* only what is compiled matters *)
Cyclic(ws)      == \E i \in Compiled(ws) : i \in ReachPlus(ws, i)
SelfImport(ws)  == \E i \in Compiled(ws) : i \in ws[i].imports
TaintedByCycle(ws) == {i \in Compiled(ws) : \E j \in ReachPlus(ws, i) \cup {i} : j \in ReachPlus(ws, j)}

OfKind(ws, k) == {i \in Compiled(ws) : ws[i].kind = k}

(* A cross-file clash of kind k is certainly diagnosed when two files of that kind are both in the
   workspace, or are both directly imported by (or are) one compiled file ... *)
SeenTogether(ws, k) ==
  \/ Cardinality(OfKind(ws, k) \cap Workspace(ws)) >= 2
  \/ \E f \in Compiled(ws) : Cardinality(OfKind(ws, k) \cap (ws[f].imports \cup {f})) >= 2
(* ... for extension numbers also when both are directly imported by workspace files *)
ExtSeenTogether(ws) ==
  \/ SeenTogether(ws, "extclash")
  \/ Cardinality(OfKind(ws, "extclash") \cap (Workspace(ws) \cup UNION {ws[f].imports : f \in Workspace(ws)})) >= 2

(* the workspace must be rejected *)
Invalid(ws) ==
  \/ Cyclic(ws)
  \/ \E i \in Compiled(ws) : ws[i].missing \/ ws[i].kind \in {"unknown", "dup", "syntax"}
  \/ SeenTogether(ws, "shared") \/ ExtSeenTogether(ws)

(* Diagnostics every run must report when the import graph is acyclic: one per local defect,
   in the file that has it ("*" = in whichever of the files involved). *)
Expect(ws) ==
  {[file |-> Names[i], kind |-> ws[i].kind] : i \in {j \in Compiled(ws) : ws[j].kind \in {"unknown", "dup", "syntax"}}}
  \cup {[file |-> Names[i], kind |-> "missing"] : i \in {j \in Compiled(ws) : ws[j].missing}}
  \cup (IF SeenTogether(ws, "shared") THEN {[file |-> "*", kind |-> "shared"]} ELSE {})
  \cup (IF ExtSeenTogether(ws) THEN {[file |-> "*", kind |-> "extclash"]} ELSE {})
(* two files of a cross-file kind are compiled but only visible to each other transitively: whether
   that is diagnosed is not stated here *)
Unsettled(ws) ==
  {k \in {"shared", "extclash"} :
      /\ Cardinality(OfKind(ws, k)) >= 2
      /\ ~ (IF k = "shared" THEN SeenTogether(ws, k) ELSE ExtSeenTogether(ws))}

(* The input shape in which the ORDER in which two imports are lowered is the only thing that can
   differ between schedules: a workspace file directly importing two files that are NOT in the
   workspace and clash with each other. *)
ImportedOnlyClash(ws) ==
  \E k \in {"shared", "extclash"} : \E f \in Workspace(ws) :
     Cardinality({i \in ws[f].imports : ~ ws[i].inws /\ ws[i].kind = k}) >= 2

(* shape, for distinct_nontrivial accounting *)
Shape(ws) == [n |-> Len(ws), inws |-> Cardinality(Workspace(ws)),
              edges |-> Cardinality({<<i, j>> \in Idx(ws) \X Idx(ws) : j \in ws[i].imports}),
              cyclic |-> Cyclic(ws), self |-> SelfImport(ws),
              kinds |-> {ws[i].kind : i \in Compiled(ws)},
              missing |-> Cardinality({i \in Compiled(ws) : ws[i].missing}),
              importedonlyclash |-> ImportedOnlyClash(ws)]
=============================================================================
