SPECIFICATION TraceSpec
CONSTANTS
  Files = {"a", "b", "c"}
  MaxCancels = 1
  DP = "d"
  Configs = {}
INVARIANTS TypeOK SemInv NoFalseCycle CycleIff OkIff FaultFails OkClosed PanicSurfaces
POSTCONDITION TraceAccepted
CHECK_DEADLOCK FALSE
