SPECIFICATION Spec
CONSTANTS
  Files = {"a", "b"}
  Pars = {1, 2}
  MaxCancels = 1
  Configs <- ConfigsFaults
INVARIANTS TypeOK SemInv NoFalseCycle CycleIff OkIff FaultFails OkClosed PanicSurfaces
PROPERTIES Terminates NoLeak
