------------------------------- MODULE MCEscape -------------------------------
(* C26: enumerate byte strings over Alphabet (byte values) up to MaxLen; TLC checks the round trip
   at specification level and exports (bytes, Escape(bytes)) for the Go driver. *)
EXTENDS Escape, TLC, Json
CONSTANTS Alphabet, MaxLen, ExportMin, Random   \* Random: one seeded random byte per step (tlc -simulate)
VARIABLE b
vars == <<b>>

Init == b = <<>>
Next == /\ Len(b) < MaxLen
        /\ \E c \in (IF Random THEN {RandomElement(Alphabet)} ELSE Alphabet) : b' = Append(b, c)
Spec == Init /\ [][Next]_vars

SpecRoundTrip == RoundTrip(b)
SpecPrintable == Printable(b)

Case == [b |-> b, esc |-> Escape(b)]
Export == Len(b) >= ExportMin => PrintT("CASE " \o ToJson(Case))
=============================================================================
