------------------------------- MODULE Literals -------------------------------
(* C14: how a .proto string literal and a numeric literal are read, written from the
   tokenizer rules of protoc that are not in doubt (google/protobuf/io/tokenizer.cc:
   ConsumeString / ParseStringAppend / ConsumeNumber / ParseInteger, and the language
   definition).  NOT a transcription of parser/lexer.go.

   A source text is a sequence of character codes:
     c < RawBase      the Unicode code point c, written in the file as its UTF-8 encoding
     c >= RawBase     the single raw source byte (c - RawBase) >= 128 that is not part of a
                      well-formed UTF-8 sequence (protoc's tokenizer is byte-transparent)

   Result of reading:  [st |-> "ok" | "reject" | "uncertain", ...].
   "uncertain" = the text touches a rule whose protoc behaviour is version dependent, or where
   this project deviates on purpose.  Such texts are never exported (MCLiterals filters them
   inside Next).  The FIRST event met while scanning left to right decides: an uncertain escape
   before the first certain error makes the whole text uncertain.

   Rule ids (field `rules`) are used for the evidence feature vectors.

   Certain rules, strings:
     simple   \a \b \f \n \r \t \v \\ \' \" \?            -> 7 8 12 10 13 9 11 92 39 34 63
     octN     \ + 1..3 octal digits (greedy), value <= 0377 -> that byte
     hexN     \x + 1..2 hex digits (greedy, HEX DIGITS ONLY) -> that byte
     u4       \u + exactly 4 hex digits, not a surrogate    -> UTF-8 of the code point
     U8       \U + exactly 8 hex digits, <= 0x10FFFF, not a surrogate -> UTF-8 of the code point
     raw      any other character except LF / NUL / the delimiter stands for its own bytes
     concat   adjacent literals, optionally separated by white space, are concatenated
              ("a"'b' = "a" 'b' = "ab")
     reject   LF or NUL inside a literal; \ + anything else; \x without hex digit; \u, \U with too
              few hex digits; \U above 0x1FFFFF; unterminated literal; anything but a literal
              after a literal
   Uncertain (outside the exported domain):
     unc:octal>377     \400..\777   (protoc wraps modulo 256, the project rejects on purpose)
     unc:X             \X + hex digit (upper-case X: not accepted by every protoc version)
     unc:surrogate     \uD800..\uDFFF, \U0000D800.. (protoc pairs them / emits CESU-8)
     unc:U>10ffff      \U00110000..\U001FFFFF (accepted by protoc's tokenizer, rejected here)
     unc:rawbyte       a raw byte that is not valid UTF-8 inside a literal (protoc copies the byte;
                       the project replaces it by U+FFFD on purpose, pinned by parser.TestUTF8)
*)
EXTENDS Naturals, Sequences, FiniteSets

BS  == 92
DQ  == 34
SQ  == 39
LF  == 10
NUL == 0
RawBase == 1000000

White == {32, 9, 10, 13, 11, 12}      \* space TAB LF CR VT FF separate tokens
Dig  == 48..57
Oct  == 48..55
HexS == Dig \cup (97..102) \cup (65..70)

DigVal(c) == IF c \in Dig THEN c - 48 ELSE IF c \in 97..102 THEN c - 87 ELSE c - 55

(* simple escapes: letter -> byte *)
SimpleSet == {97, 98, 102, 110, 114, 116, 118, 92, 39, 34, 63}
SimpleVal(c) == CASE c = 97 -> 7  [] c = 98 -> 8  [] c = 102 -> 12 [] c = 110 -> 10
                  [] c = 114 -> 13 [] c = 116 -> 9 [] c = 118 -> 11 [] OTHER -> c

Utf8(cp) ==
  IF cp < 128 THEN <<cp>>
  ELSE IF cp < 2048 THEN <<192 + (cp \div 64), 128 + (cp % 64)>>
  ELSE IF cp < 65536 THEN <<224 + (cp \div 4096), 128 + ((cp \div 64) % 64), 128 + (cp % 64)>>
  ELSE <<240 + (cp \div 262144), 128 + ((cp \div 4096) % 64), 128 + ((cp \div 64) % 64), 128 + (cp % 64)>>

(* the bytes a source character occupies in the file, which is also what it stands for when it
   appears unescaped in a literal *)
SrcBytes(c) == IF c >= RawBase THEN <<c - RawBase>> ELSE Utf8(c)

(* number of consecutive positions i, i+1, ... (at most m) of t whose code lies in S *)
RECURSIVE Run(_, _, _, _)
Run(t, i, m, S) == IF m = 0 \/ i > Len(t) THEN 0
                   ELSE IF t[i] \notin S THEN 0
                   ELSE 1 + Run(t, i + 1, m - 1, S)

(* value of the n digits of t starting at i, base b (small values only) *)
RECURSIVE NumVal(_, _, _, _)
NumVal(t, i, n, b) == IF n = 0 THEN 0 ELSE NumVal(t, i, n - 1, b) * b + DigVal(t[i + n - 1])

IsSurrogate(cp) == cp >= 55296 /\ cp <= 57343

(* ---------------------------------------------------------------------------------------- *)
(* one escape sequence starting at t[i] = BS                                                 *)
EOk(out, u8, rule, next) == [st |-> "ok", out |-> out, u8 |-> u8, rule |-> rule, next |-> next]
ERej(rule) == [st |-> "reject", out |-> <<>>, u8 |-> TRUE, rule |-> rule, next |-> 0]
EUnc(rule) == [st |-> "uncertain", out |-> <<>>, u8 |-> TRUE, rule |-> rule, next |-> 0]

EscapeAt(t, i) ==
  IF i + 1 > Len(t) THEN ERej("rej:unterminated")
  ELSE LET e == t[i + 1] IN
    IF e \in SimpleSet THEN EOk(<<SimpleVal(e)>>, TRUE, "simple", i + 2)
    ELSE IF e \in Oct THEN
      LET n == Run(t, i + 1, 3, Oct)
          v == NumVal(t, i + 1, n, 8)
      IN IF v > 255 THEN EUnc("unc:octal>377")
         ELSE EOk(<<v>>, v < 128, CASE n = 1 -> "oct1" [] n = 2 -> "oct2" [] OTHER -> "oct3", i + 1 + n)
    ELSE IF e = 120 THEN
      LET n == Run(t, i + 2, 2, HexS)
          v == NumVal(t, i + 2, n, 16)
      IN IF n = 0 THEN ERej("rej:hex")
         ELSE EOk(<<v>>, v < 128, IF n = 1 THEN "hex1" ELSE "hex2", i + 2 + n)
    ELSE IF e = 88 THEN
      IF Run(t, i + 2, 1, HexS) = 0 THEN ERej("rej:hex") ELSE EUnc("unc:X")
    ELSE IF e = 117 THEN
      IF Run(t, i + 2, 4, HexS) < 4 THEN ERej("rej:u")
      ELSE LET cp == NumVal(t, i + 2, 4, 16)
           IN IF IsSurrogate(cp) THEN EUnc("unc:surrogate")
              ELSE EOk(Utf8(cp), TRUE, "u4", i + 6)
    ELSE IF e = 85 THEN
      IF Run(t, i + 2, 8, HexS) < 8 THEN ERej("rej:U")
      ELSE IF t[i + 2] # 48 \/ t[i + 3] # 48 \/ t[i + 4] \notin {48, 49} THEN ERej("rej:Urange")
      ELSE LET cp == NumVal(t, i + 4, 6, 16)
           IN IF cp > 1114111 THEN EUnc("unc:U>10ffff")
              ELSE IF IsSurrogate(cp) THEN EUnc("unc:surrogate")
              ELSE EOk(Utf8(cp), TRUE, "U8", i + 10)
    ELSE ERej("rej:escape")

(* ---------------------------------------------------------------------------------------- *)
(* a whole value position: one or more adjacent literals, nothing else.                       *)
(* q = 0: between literals;  q = DQ / SQ: inside a literal delimited by q                    *)
SRes(st, acc) == [st |-> st, bytes |-> IF st = "ok" THEN acc.bytes ELSE <<>>,
                  u8 |-> acc.u8, rules |-> acc.rules]

RECURSIVE Lit(_, _, _, _)
Lit(t, i, q, acc) ==
  IF i > Len(t) THEN
    IF q = 0 /\ acc.n > 0 THEN SRes("ok", acc)
    ELSE SRes("reject", [acc EXCEPT !.rules = @ \cup {"rej:unterminated"}])
  ELSE LET c == t[i] IN
    IF q = 0 THEN
      IF c \in White THEN Lit(t, i + 1, 0, acc)          \* white space between / after literals
      ELSE IF c \in {DQ, SQ}
      THEN Lit(t, i + 1, c, [acc EXCEPT !.n = @ + 1,
                                        !.rules = IF acc.n >= 1 THEN @ \cup {"concat"} ELSE @])
      ELSE SRes("reject", [acc EXCEPT !.rules = @ \cup {"rej:trailing"}])
    ELSE IF c = q THEN Lit(t, i + 1, 0, acc)
    ELSE IF c = LF THEN SRes("reject", [acc EXCEPT !.rules = @ \cup {"rej:lf"}])
    ELSE IF c = NUL THEN SRes("reject", [acc EXCEPT !.rules = @ \cup {"rej:nul"}])
    ELSE IF c = BS THEN
      LET e == EscapeAt(t, i) IN
        IF e.st = "ok"
        THEN Lit(t, e.next, q, [acc EXCEPT !.bytes = @ \o e.out, !.u8 = @ /\ e.u8,
                                           !.rules = @ \cup {e.rule}])
        ELSE SRes(e.st, [acc EXCEPT !.rules = @ \cup {e.rule}])
    ELSE IF c >= RawBase THEN SRes("uncertain", [acc EXCEPT !.rules = @ \cup {"unc:rawbyte"}])
    ELSE Lit(t, i + 1, q, [acc EXCEPT !.bytes = @ \o SrcBytes(c),
                                      !.rules = @ \cup {IF c >= 128 THEN "utf8char" ELSE "raw"}])

DecodeText(t) == Lit(t, 1, 0, [bytes |-> <<>>, u8 |-> TRUE, rules |-> {}, n |-> 0])

(* the literal with delimiter q around body *)
Decode(body, q) == DecodeText(<<q>> \o body \o <<q>>)

(* ======================================================================================== *)
(* Numeric literals.  A value position holds an optional '-' and then exactly one token.       *)
(*   hex      0 (x|X) H+                                                                      *)
(*   octal    0 O+            ("0" followed by a digit starts an octal literal)              *)
(*   decimal  D+                                                                              *)
(*   float    D+ . D* [exp] | D+ exp | . D+ [exp]        exp = (e|E) [+|-] D+                  *)
(*   a letter, digit or '.' directly after the token is an error; '+' is not a sign           *)
(* Uncertain: unc:leading-zero-float  "0" digit ... with '.' or exponent (protoc's tokenizer   *)
(*   takes the octal branch and rejects; the project accepts them on purpose as floats)      *)

(* little-endian decimal big numbers: <<>> is zero *)
RECURSIVE MulAdd(_, _, _)
MulAdd(v, b, carry) ==
  IF v = <<>> THEN (IF carry = 0 THEN <<>> ELSE <<carry % 10>> \o MulAdd(<<>>, b, carry \div 10))
  ELSE LET x == Head(v) * b + carry IN <<x % 10>> \o MulAdd(Tail(v), b, x \div 10)

RECURSIVE BigOf(_, _, _, _, _)   (* digits t[i..i+n-1] in base b, accumulated into acc *)
BigOf(t, i, n, b, acc) == IF n = 0 THEN acc
                          ELSE BigOf(t, i + 1, n - 1, b, MulAdd(acc, b, DigVal(t[i])))

Rev(s) == [k \in 1..Len(s) |-> s[Len(s) + 1 - k]]

(* a <= b for little-endian numbers without leading (= trailing in the sequence) zeros *)
RECURSIVE LeqBE(_, _)
LeqBE(a, b) == IF a = <<>> THEN TRUE
               ELSE IF Head(a) # Head(b) THEN Head(a) < Head(b) ELSE LeqBE(Tail(a), Tail(b))
BigLeq(a, b) == IF Len(a) # Len(b) THEN Len(a) < Len(b) ELSE LeqBE(Rev(a), Rev(b))

Max63  == Rev(<<9,2,2,3,3,7,2,0,3,6,8,5,4,7,7,5,8,0,7>>)        (* 2^63 - 1 *)
Pow63  == Rev(<<9,2,2,3,3,7,2,0,3,6,8,5,4,7,7,5,8,0,8>>)        (* 2^63     *)
Max64  == Rev(<<1,8,4,4,6,7,4,4,0,7,3,7,0,9,5,5,1,6,1,5>>)      (* 2^64 - 1 *)

RECURSIVE StripLead(_)
StripLead(d) == IF d # <<>> /\ Head(d) = 0 THEN StripLead(Tail(d)) ELSE d
StripTrail(d) == Rev(StripLead(Rev(d)))
RECURSIVE SmallOf(_)             (* big-endian digits -> native integer (caller bounds length) *)
SmallOf(d) == IF d = <<>> THEN 0 ELSE SmallOf(SubSeq(d, 1, Len(d) - 1)) * 10 + d[Len(d)]
RECURSIVE Pow(_, _)
Pow(b, k) == IF k = 0 THEN 1 ELSE b * Pow(b, k - 1)
Zeros(k) == [j \in 1..k |-> 0]

(* shape of a decimal token  D* [. D*] [exp]  over the whole of s *)
DecShape(s) ==
  LET n      == Len(s)
      a      == Run(s, 1, n, Dig)
      hasDot == a < n /\ s[a + 1] = 46
      b      == IF hasDot THEN Run(s, a + 2, n, Dig) ELSE 0
      p      == a + (IF hasDot THEN 1 + b ELSE 0)
      hasExp == p < n /\ s[p + 1] \in {101, 69}
      sgn    == hasExp /\ p + 1 < n /\ s[p + 2] \in {43, 45}
      es     == p + 2 + (IF sgn THEN 1 ELSE 0)
      c      == IF hasExp THEN Run(s, es, n, Dig) ELSE 0
      end    == IF hasExp THEN es + c - 1 ELSE p
  IN [ok |-> end = n /\ (hasExp => c >= 1) /\ (a >= 1 \/ b >= 1),
      float |-> hasDot \/ hasExp,
      a |-> a, b |-> b, es |-> es, c |-> c,
      eneg |-> sgn /\ s[p + 2] = 45]

(* value class of an accepted float token (only what can be stated exactly):
     zero | inf | int (exact integer below 10^15, as digits) | dyadic (num * 2^-sh) | any *)
FloatVal(s, sh) ==
  LET mant  == [j \in 1..(sh.a + sh.b) |-> IF j <= sh.a THEN s[j] - 48 ELSE s[j + 1] - 48]
      m1    == StripLead(mant)
      M     == StripTrail(m1)
      tz    == Len(m1) - Len(M)
      ed    == StripLead([j \in 1..sh.c |-> s[sh.es + j - 1] - 48])
      huge  == Len(ed) > 6
      ex    == IF huge THEN 0 ELSE SmallOf(ed)
      (* value = M * 10^(+/-ex - b + tz); split into a non-negative and a negative part *)
      pos   == (IF sh.eneg THEN 0 ELSE ex) + tz
      neg   == (IF sh.eneg THEN ex ELSE 0) + sh.b
  IN IF M = <<>> THEN [k |-> "zero"]
     ELSE IF huge THEN (IF sh.eneg THEN [k |-> "any"] ELSE [k |-> "inf"])
     ELSE IF pos >= neg /\ Len(M) - 1 + (pos - neg) >= 309 THEN [k |-> "inf"]
     ELSE IF pos >= neg /\ Len(M) + (pos - neg) <= 15 THEN [k |-> "int", digits |-> M \o Zeros(pos - neg)]
     ELSE IF pos < neg /\ neg - pos <= 6 /\ Len(M) <= 9 /\ SmallOf(M) % Pow(5, neg - pos) = 0
          THEN [k |-> "dyadic", num |-> SmallOf(M) \div Pow(5, neg - pos), sh |-> neg - pos]
     ELSE [k |-> "any"]

NRej(rule) == [st |-> "reject", kind |-> "none", rules |-> {rule}]
NUnc(rule) == [st |-> "uncertain", kind |-> "none", rules |-> {rule}]
NInt(s, i, b, rule) ==
  [st |-> "ok", kind |-> "int", rules |-> {rule},
   big |-> BigOf(s, i, Len(s) - i + 1, b, <<>>)]         (* little-endian decimal digits *)

(* one unsigned token covering all of s (s non-empty) *)
NumToken(s) ==
  LET n == Len(s) IN
  IF s[1] \notin Dig \cup {46} THEN NRej("rej:not-a-number")
  ELSE IF s[1] = 46 /\ ~(n >= 2 /\ s[2] \in Dig) THEN NRej("rej:dot")
  ELSE IF s[1] = 48 /\ n >= 2 /\ s[2] \in {120, 88} THEN
    IF n >= 3 /\ Run(s, 3, n, HexS) = n - 2 THEN NInt(s, 3, 16, "hex") ELSE NRej("rej:hexint")
  ELSE IF s[1] = 48 /\ n >= 2 /\ s[2] \in Dig THEN
    IF Run(s, 2, n, Oct) = n - 1 THEN NInt(s, 2, 8, "octal")
    ELSE LET sh == DecShape(s) IN
         IF sh.ok /\ sh.float THEN NUnc("unc:leading-zero-float") ELSE NRej("rej:octalint")
  ELSE LET sh == DecShape(s) IN
    IF ~sh.ok THEN NRej("rej:decimal")
    ELSE IF ~sh.float THEN NInt(s, 1, 10, "decimal")
    ELSE [st |-> "ok", kind |-> "float",
          rules |-> {IF sh.c > 0 THEN "float-exp" ELSE "float"} \cup
                    (IF s[1] = 46 THEN {"float-dot-first"} ELSE {}),
          fv |-> FloatVal(s, sh)]

(* Go-isms: numeric spellings that Go's strconv accepts (ParseInt / ParseUint with base 0,
   ParseFloat) and that protoc's tokenizer does not have.  All of them are Reject with
   certainty, by the rules already stated above:
     rej:go-underscore  '_' digit separators  1_000  0x1_F  0x_1F  1_0.5  1e1_0  0_7
                        ('_' is a letter for the tokenizer: a letter directly after a number is an
                        error, and "0x" must be followed by a hex digit)
     rej:go-binary      0b101  0B1            ('b' is a letter directly after the number 0)
     rej:go-octal-o     0o17   0O7            (likewise)
     rej:go-hexfloat    0x1p-2  0x1.8p1       ('p' is not a hex digit; '.' after a hex literal:
                        "hex and octal numbers must be integers")
   The ids are added to `rules` of the rejected text so that evidence and classification name
   the form; MCLiterals checks as an invariant that no such text is ever "ok" or "uncertain".
   (Identifier spellings such as Inf / NaN / infinity are not numeric tokens; which identifiers
   the parser accepts after '=' or '-' is not a tokenizer rule and is left out.) *)
GoIsms(s) ==
  (IF \E i \in 1..Len(s) : s[i] = 95 THEN {"rej:go-underscore"} ELSE {}) \cup
  (IF Len(s) >= 2 /\ s[1] = 48 /\ s[2] \in {98, 66} THEN {"rej:go-binary"} ELSE {}) \cup
  (IF Len(s) >= 2 /\ s[1] = 48 /\ s[2] \in {111, 79} THEN {"rej:go-octal-o"} ELSE {}) \cup
  (IF Len(s) >= 3 /\ s[1] = 48 /\ s[2] \in {120, 88} /\ \E i \in 3..Len(s) : s[i] \in {112, 80}
   THEN {"rej:go-hexfloat"} ELSE {})

(* the value position: [-] token.  Expected outcome per field type:
     i64 / u64 / dbl  \in  "acc" | "rej" | "skip"   (skip = not stated with certainty) *)
NumDecode(t) ==
  LET neg  == t # <<>> /\ t[1] = 45
      body == IF neg THEN Tail(t) ELSE t
  IN IF body = <<>> THEN [st |-> "reject", kind |-> "none", rules |-> {"rej:empty"}, neg |-> neg,
                          i64 |-> "rej", u64 |-> "rej", dbl |-> "rej"]
     ELSE LET r == NumToken(body) IN
       IF r.st # "ok" THEN [st |-> r.st, kind |-> "none", rules |-> r.rules \cup GoIsms(body), neg |-> neg,
                            i64 |-> "rej", u64 |-> "rej", dbl |-> "rej"]
       ELSE IF r.kind = "int" THEN
         [st |-> "ok", kind |-> "int", rules |-> r.rules \cup (IF neg THEN {"neg"} ELSE {}), neg |-> neg,
          digits |-> Rev(r.big),                      (* big-endian decimal digits, <<>> = 0 *)
          i64 |-> IF BigLeq(r.big, IF neg THEN Pow63 ELSE Max63) THEN "acc" ELSE "rej",
          u64 |-> IF neg THEN (IF r.big = <<>> THEN "skip" ELSE "rej")
                  ELSE IF BigLeq(r.big, Max64) THEN "acc" ELSE "rej",
          dbl |-> IF BigLeq(r.big, Max64) THEN "acc" ELSE "skip",
          fv  |-> IF r.big = <<>> THEN [k |-> "zero"]
                  ELSE IF Len(r.big) <= 15 THEN [k |-> "int", digits |-> Rev(r.big)]
                  ELSE [k |-> "any"]]
       ELSE
         [st |-> "ok", kind |-> "float", rules |-> r.rules \cup (IF neg THEN {"neg"} ELSE {}), neg |-> neg,
          digits |-> <<>>, i64 |-> "rej", u64 |-> "rej", dbl |-> "acc", fv |-> r.fv]
=============================================================================
