----------------------------- MODULE MCParseInputs -----------------------------
(* C12, input family (i): EVERY string over Alphabet up to MaxLen, each exported with the line
   table SrcLines demands for it.  The alphabet is chosen to hit each branch of a lexer's case
   analysis (quotes, backslash, comment openers, punctuation, digit, letter, dot, LF, TAB, NUL, an
   invalid UTF-8 byte, a multi-byte character).  Symbols, concretised by the Go driver:
     "Q" double quote  "'"  "B" backslash  "/"  "*"  "{"  "}"  ";"  "="  "0"  "x"  "."  "a"
     "N" LF  "T" TAB  "Z" NUL  "X" the byte 0x80  "3" a 3-byte character
   With -simulate the same spec yields random longer strings. *)
EXTENDS SrcLines, TLC, Json
CONSTANTS MaxLen, Alphabet, ExportMin
VARIABLE text
vars == <<text>>

Init == text = <<>>
Next == /\ Len(text) < MaxLen
        /\ \E c \in Alphabet : text' = Append(text, c)
Spec == Init /\ [][Next]_vars

Case == [text |-> text, nlines |-> NLines(text), widths |-> LineTable(text)]

(* spec-level sanity of the line table: widths of all lines plus the LFs account for every
   character when there is no TAB (a TAB only ever makes a line wider) *)
RECURSIVE SumW(_, _)
SumW(w, n) == IF n = 0 THEN 0 ELSE w[n] + SumW(w, n - 1)
TableSane ==
  LET w == LineTable(text) n == NLines(text)
  IN /\ n = 1 + Cardinality({j \in 1..Len(text) : text[j] = "N"})
     /\ SumW(w, n) + (n - 1) >= Len(text)
     /\ (\A j \in 1..Len(text) : text[j] # "T") => SumW(w, n) + (n - 1) = Len(text)

Export == Len(text) >= ExportMin => PrintT("CASE " \o ToJson(Case))
=============================================================================
