----------------------------- MODULE MCParseInputs -----------------------------
(* C12, input family (i): EVERY string over Alphabet up to MaxLen, each exported with the line
   table SrcLines demands for it.  The alphabet is chosen to hit each branch of a lexer's case
   analysis (quotes, backslash, comment openers, punctuation, digit, letter, dot, LF, TAB, NUL, an
   invalid UTF-8 byte, a multi-byte character).  Symbols, concretised by the Go driver:
     "Q" double quote  "'"  "B" backslash  "/"  "*"  "{"  "}"  ";"  "="  "0"  "x"  "."  "a"
     "N" LF  "T" TAB  "Z" NUL  "X" the byte 0x80  "3" a 3-byte character
   With -simulate the same spec yields random longer strings.
   bom = TRUE: the driver puts the UTF-8 byte order mark EF BB BF in front of the string.  The BOM
   is not part of the text: the line table (and every position that "exists") is that of the
   string without it.
   A second family of inputs (token level) is described further down. *)
EXTENDS SrcLines, TLC, Json
CONSTANTS MaxLen, Alphabet, ExportMin,
          Boms,        \* subset of BOOLEAN
          BomMaxLen,   \* maximal length of a string that is preceded by a byte order mark
          Family,      \* "bytes": the strings described above | "tokens": the families below
          TokBounds    \* tokens: set of <<context, syntax, maximal number of tokens>>
VARIABLES text, bom, ctx, syn
vars == <<text, bom, ctx, syn>>

-----------------------------------------------------------------------------
(* Input family (iii): TOKEN-LEVEL inputs.  Up to n grammar tokens from a small alphabet are put
   in a fixed syntactic context given here (a header line, a prefix line, the tokens separated by
   single spaces, a suffix line), so that the parser's productions for compact options, field and
   file level declarations -- and the descriptor conversion / validation behind them -- are reached
   with every short token sequence, which byte strings of length 5 and mutants of valid files do
   not do.  Tokens are their own text (ASCII, no TAB, no LF), so the line table of an input is the
   length of each of its four lines. *)
OptToks   == {"features", "features.x", "default", "packed", "deprecated", "json_name", "(a)",
              "=", "1", "'s'", "true", ","}
FieldToks == {"optional", "required", "repeated", "int32", "map<", "string>", "group", "f", "=",
              "1", ";", "{", "}", "oneof", "reserved", "extensions", "to", "max"}
FileToks  == {"syntax", "edition", "=", "'proto2'", "import", "public", "weak", "package",
              "option", ";", "a", "."}
OptContexts == {"fieldopt", "enumval", "extrange", "oneoffield"}
Contexts    == OptContexts \cup {"msgbody", "file"}
Syntaxes    == {"proto2", "proto3", "ed2023", "none"}

ToksOf(c) == IF c \in OptContexts THEN OptToks ELSE IF c = "msgbody" THEN FieldToks ELSE FileToks

Header(sy) == CASE sy = "proto2" -> "syntax = 'proto2';"
                [] sy = "proto3" -> "syntax = 'proto3';"
                [] sy = "ed2023" -> "edition = '2023';"
                [] OTHER -> ""
(* a field declaration that is legal in the syntax (no label outside proto2) *)
FieldDecl(sy) == IF sy = "proto2" THEN "optional int32 f = 1" ELSE "int32 f = 1"
Prefix(c, sy) == CASE c = "fieldopt"   -> "message M { " \o FieldDecl(sy) \o " ["
                   [] c = "enumval"    -> "enum E { A = 0 ["
                   [] c = "extrange"   -> "message M { extensions 1 to 2 ["
                   [] c = "oneoffield" -> "message M { oneof o { int32 f = 1 ["
                   [] c = "msgbody"    -> "message M {"
                   [] OTHER -> ""
Suffix(c) == CASE c \in {"fieldopt", "enumval", "extrange"} -> "]; }"
               [] c = "oneoffield" -> "]; } }"
               [] c = "msgbody" -> "}"
               [] OTHER -> ""
RECURSIVE JoinSp(_)
JoinSp(ts) == IF ts = <<>> THEN "" ELSE IF Len(ts) = 1 THEN ts[1] ELSE ts[1] \o " " \o JoinSp(Tail(ts))
TokLines == <<Header(syn), Prefix(ctx, syn), JoinSp(text), Suffix(ctx)>>
TokCase == [ctx |-> ctx, syn |-> syn, toks |-> text, lines |-> TokLines, nlines |-> 4,
            widths |-> [i \in 1..4 |-> Len(TokLines[i])]]

TokInit == /\ text = <<>> /\ bom = FALSE
           /\ \E b \in TokBounds : ctx = b[1] /\ syn = b[2]
TokNext == /\ \E b \in TokBounds : b[1] = ctx /\ b[2] = syn /\ Len(text) < b[3]
           /\ \E t \in ToksOf(ctx) : text' = Append(text, t)
           /\ UNCHANGED <<bom, ctx, syn>>

-----------------------------------------------------------------------------
BytesInit == text = <<>> /\ bom \in Boms /\ ctx = "bytes" /\ syn = "none"
BytesNext == /\ Len(text) < (IF bom THEN BomMaxLen ELSE MaxLen)
             /\ \E c \in Alphabet : text' = Append(text, c)
             /\ UNCHANGED <<bom, ctx, syn>>

Init == IF Family = "bytes" THEN BytesInit ELSE TokInit
Next == IF Family = "bytes" THEN BytesNext ELSE TokNext
Spec == Init /\ [][Next]_vars

Case == IF Family = "bytes"
        THEN [bom |-> IF bom THEN 1 ELSE 0, text |-> text, nlines |-> NLines(text), widths |-> LineTable(text)]
        ELSE TokCase

(* spec-level sanity of the line table: widths of all lines plus the LFs account for every
   character when there is no TAB (a TAB only ever makes a line wider) *)
RECURSIVE SumW(_, _)
SumW(w, n) == IF n = 0 THEN 0 ELSE w[n] + SumW(w, n - 1)
TableSane ==
  Family = "bytes" =>
  LET w == LineTable(text) n == NLines(text)
  IN /\ n = 1 + Cardinality({j \in 1..Len(text) : text[j] = "N"})
     /\ SumW(w, n) + (n - 1) >= Len(text)
     /\ (\A j \in 1..Len(text) : text[j] # "T") => SumW(w, n) + (n - 1) = Len(text)

Export == Len(text) >= ExportMin => PrintT("CASE " \o ToJson(Case))
=============================================================================
