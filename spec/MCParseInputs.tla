----------------------------- MODULE MCParseInputs -----------------------------
(* C12, input family (i): EVERY string over Alphabet up to MaxLen, each exported with the line
   table SrcLines demands for it.  The alphabet is chosen to hit each branch of a lexer's case
   analysis (quotes, backslash, comment openers, punctuation, digit, letter, dot, LF, TAB, NUL, an
   invalid UTF-8 byte, a multi-byte character).  Symbols, concretised by the Go driver:
     "Q" double quote  "'"  "B" backslash  "/"  "*"  "{"  "}"  ";"  "="  "0"  "x"  "."  "a"
     "N" LF  "T" TAB  "Z" NUL  "X" the byte 0x80  "3" a 3-byte character
   With -simulate the same spec yields random longer strings.
   bom = TRUE: the driver puts the UTF-8 byte order mark EF BB BF in front of the string.  The BOM
   is not part of the text: the line table (and every position that "exists") is that of the
   string without it. *)
EXTENDS SrcLines, TLC, Json
CONSTANTS MaxLen, Alphabet, ExportMin,
          Boms,        \* subset of BOOLEAN
          BomMaxLen    \* maximal length of a string that is preceded by a byte order mark
VARIABLES text, bom
vars == <<text, bom>>

Init == text = <<>> /\ bom \in Boms
Next == /\ Len(text) < (IF bom THEN BomMaxLen ELSE MaxLen)
        /\ \E c \in Alphabet : text' = Append(text, c)
        /\ UNCHANGED bom
Spec == Init /\ [][Next]_vars

Case == [bom |-> IF bom THEN 1 ELSE 0, text |-> text, nlines |-> NLines(text), widths |-> LineTable(text)]

(* spec-level sanity of the line table: widths of all lines plus the LFs account for every
   character when there is no TAB (a TAB only ever makes a line wider) *)
RECURSIVE SumW(_, _)
SumW(w, n) == IF n = 0 THEN 0 ELSE w[n] + SumW(w, n - 1)
TableSane ==
  LET w == LineTable(text) n == NLines(text)
  IN /\ n = 1 + Cardinality({j \in 1..Len(text) : text[j] = "N"})
     /\ SumW(w, n) + (n - 1) >= Len(text)
     /\ (\A j \in 1..Len(text) : text[j] # "T") => SumW(w, n) + (n - 1) = Len(text)

Export == Len(text) >= ExportMin => PrintT("CASE " \o ToJson(Case))
=============================================================================
