---------------------------- MODULE ParseCallTrace ----------------------------
(* Direction B for C12: validates recorded parse calls (harness/parsepos, mode "calls") against
   ParseCall.  The file holds MANY traces, one per input, separated by "Reset" events (TraceReset),
   so one TLC start validates thousands of calls.

   Every line is one event:
     {"ev":"Call","id":n,"mode":"tolerant"|"abort","nlines":L,"lw":[[line,width],...]}
     {"ev":"ReportError","id":n,"line":l,"col":c,"eline":l2,"ecol":c2}
     {"ev":"Return","id":n,"ast":bool,"err":bool}
     {"ev":"Panic","id":n}
     {"ev":"ToDescriptor","id":n,"panicked":bool}
     {"ev":"Reset","id":n}

   An event that is a legal ParseCall step is taken as that step.  An event that arrives in a
   legal place but breaks a guard of the contract (position outside the line table, error value
   not matching the reports, nil AST, a Panic, a panicking conversion, a second report after the
   reporter asked to abort) is a VIOLATION of C12 by that call: it is printed
   ("VIOL {id, prop, at}"), counted, and the rest of that call is skipped up to its Reset, so that
   one run lists every offending call.  An event in an illegal place (no Call before a Return,
   two Returns, ...) matches nothing: the trace is not consumed and TraceAccepted fails -- that
   is a defect of the recording, not a verdict. *)
EXTENDS ParseCall, TLC, Json, Sequences

CONSTANT TraceFile
VARIABLES i, nviol
tvars == <<st, mode, nlines, widths, nerr, derr, retErr, i, nviol>>

Trace == ndJsonDeserialize(TraceFile)

(* [[line, width], ...]  ->  function line |-> width *)
WidthFn(lw) ==
  LET ls == {lw[j][1] : j \in 1..Len(lw)}
  IN [l \in ls |-> lw[CHOOSE j \in 1..Len(lw) : lw[j][1] = l][2]]

Violation(e, prop) ==
  /\ PrintT("VIOL " \o ToJson([id |-> e.id, prop |-> prop, at |-> i]))
  /\ st' = "violated"
  /\ nviol' = nviol + 1
  /\ UNCHANGED <<mode, nlines, widths, nerr, derr, retErr>>

ReportReason(e) ==
  IF ~MayReport THEN "abort:reported-after-abort"
  ELSE IF ~LineExists(e.line) \/ ~LineExists(e.eline) THEN "errpos:line-not-in-file"
  ELSE "errpos:column-not-in-line"

ReturnReason(e) ==
  IF ~e.ast THEN "return:nil-ast"
  ELSE IF e.err THEN "return:error-without-report"
  ELSE "return:report-without-error"

Consume(e) ==
  \/ /\ e.ev = "Call"
     /\ Call(e.mode, e.nlines, WidthFn(e.lw))
     /\ UNCHANGED nviol
  \/ /\ e.ev = "ReportError" /\ st \in {"parsing", "returned"}
     /\ IF ReportAllowed(e.line, e.col, e.eline, e.ecol)
        THEN ReportError(e.line, e.col, e.eline, e.ecol) /\ UNCHANGED nviol
        ELSE Violation(e, ReportReason(e))
  \/ /\ e.ev = "Return" /\ st = "parsing"
     /\ IF ReturnAllowed(e.ast, e.err)
        THEN Return(e.ast, e.err) /\ UNCHANGED nviol
        ELSE Violation(e, ReturnReason(e))
  \/ /\ e.ev = "Panic" /\ st \in {"parsing", "returned"}
     /\ Violation(e, IF st = "parsing" THEN "panic:parse" ELSE "panic:descriptor")
  \/ /\ e.ev = "ToDescriptor" /\ st = "returned"
     /\ IF ConvertAllowed(e.panicked)
        THEN ToDescriptor(e.panicked) /\ UNCHANGED nviol
        ELSE Violation(e, "panic:descriptor")
  \/ /\ e.ev = "Reset" /\ st = "converted"            \* TraceReset
     /\ Reset /\ UNCHANGED nviol
  \/ /\ st = "violated"                               \* skip the rest of an offending call
     /\ IF e.ev = "Reset" THEN st' = "idle" ELSE st' = st
     /\ UNCHANGED <<mode, nlines, widths, nerr, derr, retErr, nviol>>

TraceInit == Init /\ i = 1 /\ nviol = 0
TraceNext == /\ i <= Len(Trace)
             /\ i' = i + 1
             /\ Consume(Trace[i])
TraceSpec == TraceInit /\ [][TraceNext]_tvars

(* POSTCONDITION: the whole file was consumed (every step consumes exactly one event, so the
   diameter of the state graph is the number of events plus one) and ended between calls *)
TraceAccepted ==
  LET d == TLCGet("stats").diameter
  IN IF d - 1 = Len(Trace) THEN TRUE
     ELSE Print(<<"TRACE-REJECTED at event", d, IF d <= Len(Trace) THEN Trace[d] ELSE "end">>, FALSE)

(* the contract's invariants, evaluated in every state of every validated call *)
TraceInv == st # "violated" => (TypeOK /\ ErrIffReported /\ AbortStopsReports /\ TableSane)
=============================================================================
