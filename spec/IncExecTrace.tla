---------------------------- MODULE IncExecTrace ----------------------------
(* Trace validation (direction B): is every recorded execution of the real executor a behaviour of
   IncExec?  The trace file is ndjson: a header event "case" (the cfg the driver executed) starts each
   trace, followed by the hook events of experimental/incremental (verif_on.go) and the driver's own
   "op.begin" / "run.ret" events, in the order of the tracer's sequence numbers.

   Every event is matched by the IncExec action of its linearization point; Task / result pointers
   are bound to activations when they first appear (tmap, omap).  Two purely local steps have no
   event and are inferred by TLC (Silent).  All properties of IncExec are checked as invariants along
   the trace as well.  The whole file must be consumed (POSTCONDITION Accepted). *)
EXTENDS IncExec, Json

CONSTANTS TraceFile,
          Opaque  \* TRUE for traces of foreign queries (the package's own tests): the value and fatal error
                  \* a query returns are taken from the trace instead of being computed, and only the
                  \* properties that do not need the oracle are checked
VARIABLES l,      \* index of the next event
          tmap,   \* Task pointer id -> activation id
          omap,   \* result pointer id -> activation id of its leader
          xres    \* Opaque only: activation id -> what its Execute returned

TraceLog == ndJsonDeserialize(TraceFile)
tvars == <<vars, l, tmap, omap, xres>>
E == TraceLog[l]

ToSet(s) == {s[i] : i \in 1..Len(s)}
Has(r, f) == f \in DOMAIN r
OpOf(o) == IF o.op = "run" THEN [op |-> "run", roots |-> o.roots]
           ELSE [op |-> "evict", keys |-> IF Has(o, "keys") THEN ToSet(o.keys) ELSE {},
                 conc |-> IF Has(o, "conc") THEN o.conc ELSE FALSE]
CfgOf(e) == [id |-> 0, bat |-> [k \in Nodes |-> IF Has(e.cfg.bat, k) THEN e.cfg.bat[k] ELSE <<>>],
             pan |-> ToSet(e.cfg.pan), par |-> e.cfg.par,
             plan |-> [i \in 1..Len(e.cfg.plan) |-> OpOf(e.cfg.plan[i])]]

TInit == /\ l = 2 /\ TraceLog[1].ev = "case" /\ InitWith(CfgOf(TraceLog[1]))
         /\ tmap = <<>> /\ omap = <<>> /\ xres = <<>>

Consume == l' = l + 1
Is(name) == l <= Len(TraceLog) /\ E.ev = name
Bind(m, k, v) == [x \in DOMAIN m \cup {k} |-> IF x = k THEN v ELSE m[x]]
Known(t) == t \in DOMAIN tmap /\ tmap[t] \in DOMAIN acts
Bound(t) == t \in DOMAIN tmap      \* the caller may have returned already (its goroutines live on)
Cand(t, k, pcs) == {i \in DOMAIN acts : acts[i].par = tmap[t] /\ acts[i].key = k /\ acts[i].pc \in pcs}
StOK(k, st, o) == CASE st = "nil" -> res[k] = "nil"
                    [] st = "done" -> res[k] = "done"
                    [] OTHER -> res[k] = "pending" /\ o \in DOMAIN omap /\ omap[o] = out[k]
FClass(f) == f.t
SimpleOf(cp) == IF Len(cp) = 0 THEN <<>> ELSE IF Len(cp) = 3 /\ cp[1] = cp[2] THEN <<cp[1]>> ELSE SubSeq(cp, 1, Len(cp) - 1)
PathOf(e) == IF Has(e, "path") THEN e.path ELSE <<>>

(* the trace of one case ended: everything returned and drained, then start the next case *)
TraceReset ==
  /\ Is("case") /\ AllDone
  /\ LET c == CfgOf(E) IN
     /\ cfg' = c /\ step' = 0
     /\ tasks' = {} /\ res' = [k \in Nodes |-> "nil"] /\ out' = [k \in Nodes |-> NoId]
     /\ val' = [k \in Nodes |-> 0] /\ fat' = [k \in Nodes |-> NoF] /\ rrun' = [k \in Nodes |-> 0]
     /\ deps' = [k \in Nodes |-> {}] /\ callers' = [k \in Nodes |-> {}]
     /\ sema' = c.par /\ readers' = 0 /\ writer' = FALSE /\ counter' = 0
     /\ ver' = [k \in Nodes |-> 0] /\ acts' = <<>> /\ runs' = <<>>
     /\ ev' = [pc |-> "idle", keys |-> {}, coll |-> {}, conc |-> FALSE]
     /\ execCnt' = [k \in Nodes |-> 0] /\ execIn' = [k \in Nodes |-> NoId] /\ flags' = <<>>
  /\ tmap' = <<>> /\ omap' = <<>> /\ xres' = <<>> /\ Consume

Same == UNCHANGED <<tmap, omap, xres>>
FOf(e) == IF e.f = "cycle" THEN CycleF(e.path) ELSE IF e.f = "none" THEN NoF ELSE [t |-> e.f, p |-> <<>>]
TEnd(i) == End(i)
Skip == UNCHANGED vars /\ Same /\ Consume

EvOpBegin == Is("op.begin") /\ OpBegin /\ step' = E.step /\ Same /\ Consume

EvRunEnter ==
  /\ Is("run.enter")
  /\ \E i \in DOMAIN acts : /\ RunEnter(i, E.run) /\ tmap' = Bind(tmap, E.t, i)
  /\ UNCHANGED <<omap, xres>> /\ Consume

EvAcquire ==
  /\ Is("acquire") /\ Known(E.t)
  /\ LET p == tmap[E.t] IN
     \/ acts[p].pc = "racq" /\ E.held /\ RootAcquire(p)
     \/ Reacquire(p, E.held)
     \/ LeaderAcquire(p, E.held)
     \/ \E c \in DOMAIN acts : acts[c].par = p /\ ~acts[c].async /\ WaitReacquire(c, E.held)
  /\ Same /\ Consume

EvRelease ==
  /\ Is("release") /\ Known(E.t)
  /\ LET p == tmap[E.t] IN
     \/ acts[p].pc = "post" /\ acts[p].nw /\ acts[p].hold = E.held /\ Post(p, FALSE)
     \/ acts[p].pc \in {"ret", "pan"} /\ acts[p].async /\ acts[p].hold = E.held /\ TEnd(p)
     \/ acts[p].pc = "rexit" /\ acts[p].hold = E.held /\ RunExit1(p)
     \/ \E c \in DOMAIN acts : acts[c].par = p /\ ~acts[c].async /\ acts[p].hold = E.held /\ WaitRelease(c)
  /\ Same /\ Consume

EvTransfer ==
  /\ Is("transfer") /\ Known(E.from)
  /\ LET f == tmap[E.from] IN
     IF Known(E.t) /\ acts[f].par = tmap[E.t] /\ acts[f].pc \in {"ret", "pan"}
     THEN /\ ~acts[f].async /\ acts[f].hold = E.fromheld /\ TEnd(f) /\ Same /\ Consume    \* transfer back
     ELSE Skip                                                                          \* steal: part of Cas

EvStored ==
  /\ Is("stored") /\ Known(E.t)
  /\ LET p == tmap[E.t] IN acts[p].pc = "exec" /\ E.keys = BatchOf(acts[p]) /\ StoreEdges(p)
  /\ Same /\ Consume

EvStart(hit) ==
  /\ Is(IF hit THEN "start.hit" ELSE "start.miss") /\ Known(E.t)
  /\ LET p == tmap[E.t] IN
     /\ acts[p].pc = "start" /\ acts[p].nx >= 1 /\ BatchOf(acts[p])[acts[p].nx] = E.k
     /\ ~hit => (E.flag = (acts[p].nx = 1))
     /\ Start(p, hit)
  /\ Same /\ Consume

EvLoad ==
  /\ Is("run.load") /\ Bound(E.t) /\ StOK(E.k, E.st, E.o)
  /\ \E i \in Cand(E.t, E.k, {"load"}) : acts[i].async = E.flag /\ Load(i)
  /\ Same /\ Consume

EvCasWin ==
  /\ Is("cas.win") /\ Bound(E.t) /\ res[E.k] = "nil"
  /\ \E i \in Cand(E.t, E.k, {"cas"}) :
       /\ acts[i].async = E.flag /\ Cas(i)
       /\ tmap' = Bind(tmap, E.callee, i) /\ omap' = Bind(omap, E.o, i)
  /\ UNCHANGED xres /\ Consume

EvCasLose ==
  /\ Is("cas.lose") /\ Bound(E.t) /\ res[E.k] # "nil"
  /\ \E i \in Cand(E.t, E.k, {"cas"}) : Cas(i)
  /\ Same /\ Consume

EvReload ==
  /\ Is("run.reload") /\ Bound(E.t) /\ StOK(E.k, E.st, E.o)
  /\ \E i \in Cand(E.t, E.k, {"reload"}) : acts[i].async = E.flag /\ Reload(i)
  /\ Same /\ Consume

EvLeaderReset == Is("lacq.reset") /\ Known(E.t) /\ LeaderReset(tmap[E.t]) /\ Same /\ Consume

(* Execute returned normally: the value and fatal class the model computes for this activation *)
EvExecRet ==
  /\ Is("exec.ret") /\ Known(E.t)
  /\ LET i == tmap[E.t] a == acts[i] IN
     /\ a.pc = "end" /\ a.key = E.k
     /\ IF Opaque THEN ExecRetWith(i, TRUE, E.v, FOf(E))
        ELSE /\ ~Panics(a)
             /\ IF a.cerr THEN E.f = "cancel"
                ELSE /\ E.f = FClass(a.af)
                     /\ (a.af.t = "none" /\ E.v >= 0) => E.v = Final(a.acc, ver[a.key])
                     \* which cycle a query reports is subject to the unsynchronised output.Fatal write of
                     \* waitUntilDone (a data race in the code): only the class is matched, and the path
                     \* the real execution reports must be a real cycle of the query graph
                     /\ E.f = "cycle" => IsClosedWalk(cfg, PathOf(E))
             /\ ExecRet(i)
  /\ Same /\ Consume

EvClose ==
  /\ Is("close") /\ Known(E.t)
  /\ LET i == tmap[E.t] a == acts[i] IN
     /\ a.key = E.k /\ E.gen = Gen(a.run) /\ E.f = FClass(a.rf)
     /\ E.f = "cycle" => IsClosedWalk(cfg, PathOf(E))
     /\ (E.f = "none" /\ E.v >= 0) => E.v = a.rv
     /\ Close(i, FALSE)
  /\ Same /\ Consume

EvDrop == Is("drop.reset") /\ Known(E.t) /\ Close(tmap[E.t], TRUE) /\ Same /\ Consume
EvPanicReset == Is("panic.reset") /\ Known(E.t) /\ PanicReset(tmap[E.t]) /\ Same /\ Consume
EvPanicCancel == Is("panic.cancel") /\ Known(E.t) /\ PanicCancel(tmap[E.t]) /\ Same /\ Consume

EvCycle ==
  /\ Is("cycle") /\ Bound(E.t)
  /\ \E i \in Cand(E.t, E.k, {"chk"}) : CheckCycle(i, SimpleOf(PathOf(E)))
  /\ Same /\ Consume

EvWake(why) ==
  /\ Is(IF why = "done" THEN "wake.done" ELSE "wake.ctx") /\ Bound(E.t)
  /\ \E i \in Cand(E.t, E.k, {"wait"}) : Wake(i, why)
  /\ Same /\ Consume

EvWaitReload ==
  /\ Is("wait.reload") /\ Bound(E.t) /\ StOK(E.k, E.st, E.o)
  /\ \E i \in Cand(E.t, E.k, {"wreload"}) : WaitReload(i)
  /\ Same /\ Consume

EvJoin(ok) == Is(IF ok THEN "join.ok" ELSE "join.fail") /\ Known(E.t) /\ Join(tmap[E.t], ok) /\ Same /\ Consume
EvRunExit == Is("run.exit") /\ Known(E.t) /\ RunExit2(tmap[E.t]) /\ Same /\ Consume
EvRunUnlock ==
  /\ Is("run.unlock")
  /\ \E i \in DOMAIN acts : RunExit3(i)
  /\ Same /\ Consume
EvRunRet ==
  /\ Is("run.ret")
  /\ LET rid == <<E.step, E.j>> IN rid \in DOMAIN runs /\ runs[rid].state = "done" /\ runs[rid].err = E.err
  /\ Skip
EvEvictCollect ==
  /\ Is("evict.collect") /\ ToSet(E.keys) = ev.keys /\ EvictCollect
  /\ ("F4" \notin Fix) => ev'.coll = ToSet(E.list)
  /\ Same /\ Consume
EvEvictApply ==
  /\ Is("evict.apply") /\ EvictApply /\ ev'.coll = ToSet(E.list)
  /\ Same /\ Consume
EvIgnored == (Is("exec.begin") \/ Is("evict.ret")) /\ Skip

(* local steps without an event *)
Silent ==
  /\ l <= Len(TraceLog)
  /\ \E i \in DOMAIN acts :
       \/ \E c \in BOOLEAN : (acts[i].pc = "post" /\ ~acts[i].nw /\ Post(i, c)) \/ ReadCause(i, c)
       \/ acts[i].pc = "end" /\ Panics(acts[i]) /\ ~Opaque /\ ExecRet(i)      \* a panic has no exec.ret event
       \/ acts[i].pc = "end" /\ Opaque /\ acts[i].key \in cfg.pan /\ ExecRet(i)
  /\ UNCHANGED <<l, tmap, omap, xres>>

TNext ==
  \/ TraceReset \/ EvOpBegin \/ EvRunEnter \/ EvAcquire \/ EvRelease \/ EvTransfer \/ EvStored
  \/ EvStart(TRUE) \/ EvStart(FALSE) \/ EvLoad \/ EvCasWin \/ EvCasLose \/ EvReload \/ EvLeaderReset
  \/ EvExecRet \/ EvClose \/ EvDrop \/ EvPanicReset \/ EvPanicCancel \/ EvCycle
  \/ EvWake("done") \/ EvWake("ctx") \/ EvWaitReload \/ EvJoin(TRUE) \/ EvJoin(FALSE)
  \/ EvRunExit \/ EvRunUnlock \/ EvRunRet \/ EvEvictCollect \/ EvEvictApply \/ EvIgnored \/ Silent

TSpec == TInit /\ [][TNext]_tvars

(* acceptance: some behaviour consumed the whole file and ended quiescent.  Register 1 is the
   high-water mark of matched events (CONSTRAINT HWM is always TRUE); run TLC with one worker. *)
Matched == IF l <= Len(TraceLog) THEN l - 1 ELSE IF AllDone THEN Len(TraceLog) ELSE Len(TraceLog) - 1
HWM == TLCSet(1, IF TLCGet(1) < Matched THEN Matched ELSE TLCGet(1))
ASSUME TLCSet(1, 0)
(* The properties of IncExec along the trace.  Used as a state CONSTRAINT, not as invariants: where
   an unlogged observation is inferred (Silent, Stale) TLC also explores the outcomes the real
   execution did not take, and only a behaviour that matches the whole trace counts.  A real
   execution that breaks a property has no matching behaviour left and is rejected at that event. *)
Props == /\ TypeOK /\ PermitsRestored /\ NoStuckPending /\ NoAbort /\ CycleError /\ RunResultOK /\ CacheExact
         /\ PanicNotCached /\ EvictExact /\ AtMostOnce /\ ExecExact /\ ChangedFlag
PropsOpaque == /\ TypeOK /\ PermitsRestored /\ NoStuckPending /\ NoAbort /\ CycleError /\ AtMostOnce /\ ChangedFlag
TraceConstraint == (IF Opaque THEN PropsOpaque ELSE Props) /\ HWM
Accepted == /\ PrintT(<<"HWM", TLCGet(1), Len(TraceLog)>>)
            /\ TLCGet(1) = Len(TraceLog)
=============================================================================
