SPECIFICATION Spec
CONSTANTS
  MaxItems = 2
  ExportMin = 0
INVARIANTS Export
CHECK_DEADLOCK FALSE
