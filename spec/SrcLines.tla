------------------------------- MODULE SrcLines -------------------------------
(* The line table of a text, from SrcText's operators: lines are separated by LF; the width of a
   line is the Col8 column of its end minus one (TAB advances to the next multiple of eight, every
   other character -- including CR and, permissively, an invalid byte -- is one column).
   A position (line, col) "exists in the input" iff 1 <= line <= NLines and 1 <= col <= width + 1
   (the position just after the last character of a line exists: it is where the LF or the end of
   the file is).   [C12; also the reference the Go driver's own line table is checked against] *)
EXTENDS SrcText

NLines(t) == Line(t, Len(t))
(* boundary at which line l ends: just before its LF, or the end of the text *)
LineEnd(t, l) ==
  LET term == {i \in 1..Len(t) : t[i] = "N" /\ Line(t, i - 1) = l}
  IN IF term = {} THEN Len(t) ELSE (CHOOSE i \in term : TRUE) - 1
Width(t, l) == Col8(t, LineEnd(t, l)) - 1
LineTable(t) == [l \in 1..NLines(t) |-> Width(t, l)]
=============================================================================
