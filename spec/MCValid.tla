------------------------------- MODULE MCValid -------------------------------
(* C01 / C02 / C27 generator: workspaces as a state machine.

   The state is a workspace (ProtoValid records).  Init: a few small VALID workspaces.  Steps:
     - additive EDITS (AddMsg AddEnum AddVal AddFld AddMap AddOneof AddExt AddSvc AddMtd AddImport
       AddRange AddRName AddDflt AddJson AddAliasVal AddDep AddGroup AddOptUse AddOptExt) with
       parameters from small pools; an edit is taken when the
       result is valid (nadd counts them, at most MaxAdds); the small ones (MutAdds) are also taken when
       the result breaks exactly ONE rule (a near-valid mutant);
     - deliberate MUTATIONS of one attribute of a valid workspace (SetNum SetLabel Retarget SetSyntax
       SetName SetPkg SetValNum DropLeaf SetMapKey SetDflt DropAlias SetImpKind) that are taken only
       when the result breaks exactly one rule.  Mutations apply to the descendants of MutBases with at
       most MutMaxN edits; additive edits apply to GrowBases.
   `tag` = ProtoValid!Broken of the state: {} for a valid workspace, {rule} for a mutant; mutants are
   terminal.  Only Covered workspaces are generated.  TLC BFS enumerates every workspace within the
   edit bound; every state is exported with Valid / broken rule ids / references with their lookup
   rule ids / the expected descriptor of every user file (valid states). *)
EXTENDS ProtoValid, TLC, Json

CONSTANTS
  Bases,       \* initial workspaces: small {"p2","p3","ed","p2p2","p3p2","p2p3","edp2","p3p3","p2pub","p3pub"},
               \* rich {"R2","R3","RE"}, with custom options {"O2","O3","OE"}, synthetic oneof names {"U3","U3x"}, prefix-like package components {"PX"}
  Pkg1Ids,     \* packages of f1 in the small bases: subset of {"none","a","ab","b"}
  MaxAdds,     \* bound on the number of additive edits applied to a base
  GrowBases,   \* bases that additive edits are applied to
  MutBases,    \* bases whose (valid) descendants are mutated ...
  MutMaxN,     \* ... as long as at most this many additive edits were applied
  WideKinds,   \* kinds of symbols whose spellings a Retarget mutation tries (besides packages and bogus names)
  TypeNames, FldNames, ValNames, ExtNames,
  ScalarPool,  \* scalar types used by edits
  Edits,       \* enabled additive edit kinds
  MutAdds,     \* additive edit kinds that may also yield a one-rule mutant (subset of the small ones)
  Muts         \* enabled mutation kinds

VARIABLES ws, tag, nadd, base
vars == <<ws, tag, nadd, base>>

PkgOf(id) == CASE id = "a" -> <<"a">> [] id = "ab" -> <<"a", "b">> [] id = "b" -> <<"b">> [] OTHER -> <<>>
Syn(c) == CASE c = "2" -> "proto2" [] c = "3" -> "proto3" [] OTHER -> "editions"

(* labels a plain singular field gets in each syntax *)
Singular(syntax) == IF syntax = "proto2" THEN "optional" ELSE ""

F2For(s2) ==
  XFile("f2.proto", <<"b">>, s2, <<>>,
        << XMsg("m", 0), XFld("zf", 1, 1, Singular(s2), TScalar("int32")),
           XEnum("a", 0), XVal("za", 3, 0) >>)
F1For(s1, p, imps) ==
  XFile("f1.proto", p, s1, imps,
        << XMsg("m", 0), XFld("zf", 1, 1, Singular(s1), TScalar("int32")) >>)
(* f1 -> f3 -(public)-> f2: f1 uses a type of f2 that it sees only through the re-export *)
F3Pub == XFile("f3.proto", <<>>, "proto2", <<Imp("f2.proto", "public")>>, <<>>)
F1Pub(s1, p) ==
  XFile("f1.proto", p, s1, <<Imp("f3.proto", "plain")>>,
        << XMsg("m", 0), XFld("zf", 1, 1, Singular(s1), TScalar("int32")),
           XFld("zh", 1, 2, Singular(s1), TRef(Abs(<<"b", "m">>))) >>)
BaseWs(b, p) ==
  CASE b = "p2" -> << F1For("proto2", p, <<>>) >>
    [] b = "p3" -> << F1For("proto3", p, <<>>) >>
    [] b = "ed" -> << F1For("editions", p, <<>>) >>
    [] b = "p2p2" -> << F1For("proto2", p, <<Imp("f2.proto", "plain")>>), F2For("proto2") >>
    [] b = "p3p2" -> << F1For("proto3", p, <<Imp("f2.proto", "plain")>>), F2For("proto2") >>
    [] b = "p2p3" -> << F1For("proto2", p, <<Imp("f2.proto", "plain")>>), F2For("proto3") >>
    [] b = "p3p3" -> << F1For("proto3", p, <<Imp("f2.proto", "plain")>>), F2For("proto3") >>
    [] b = "p2pub" -> << F1Pub("proto2", p), F2For("proto2"), F3Pub >>
    [] b = "p3pub" -> << F1Pub("proto3", p), F2For("proto3"), F3Pub >>
    [] OTHER      -> << F1For("editions", p, <<Imp("f2.proto", "plain")>>), F2For("proto2") >>

(* rich bases: one of (nearly) every construct, so that every rule is one mutation away *)
F2Rich == XFile("f2.proto", <<"b">>, "proto2", <<>>,
                << [XMsg("m", 0) EXCEPT !.xr = << <<100, 199>> >>], XFld("zf", 1, 1, "optional", TScalar("int32")),
                   XEnum("a", 0), XVal("zc", 3, 0) >>)
RichF1(syn, pkg) ==
  LET sing == Singular(syn)
      p3 == syn = "proto3"
  IN XFile("f1.proto", pkg, syn, <<Imp("f2.proto", "plain")>>,
       << [XMsg("m", 0) EXCEPT !.xr = IF p3 THEN <<>> ELSE << <<100, 199>> >>, !.rr = << <<5, 6>> >>, !.rn = <<"zn">>],
          [XFld("zf", 1, 1, sing, TScalar("int32")) EXCEPT !.dep = TRUE],
          [XFld("z_f", 1, 2, IF syn = "editions" THEN "" ELSE "optional", TRef(Rel(<<"b">>)))
             EXCEPT !.dflt = IF p3 THEN "" ELSE "zb", !.json = IF p3 THEN "zj" ELSE ""],
          XMap("zm", 1, 3, "string", TScalar("int32")),
          XOneof("zo", 1),
          XFld("zi", 5, 4, "", TScalar("string")),
          XMsg("a", 1),
          XFld("zh", 1, 7, "repeated", TRef(Abs(<<"b", "m">>))),
          [XEnum("b", 0) EXCEPT !.alias = TRUE, !.rr = << <<5, 7>>, <<10, 10>> >>, !.rn = <<"zn", "zm">>],
          XVal("za", 9, 0), XVal("zb", 9, 1),
          XSvc("zs"), [XMtd("zr", 12, Rel(<<"m">>), Abs(<<"b", "m">>)) EXCEPT !.ss = TRUE],
          XFld("zk", 1, 8, IF syn = "proto2" THEN "required" ELSE sing, TRef(Rel(<<"m">>))) >>
       \o (IF p3 THEN << >> ELSE << XExt("zx", 0, 100, sing, Rel(<<"m">>), TScalar("int32")),
                                     XExt("zy", 1, 101, "repeated", Abs(pkg \o <<"m">>), TRef(Rel(<<"b">>))) >>)
       \o << XVal("zd", 9, 1) >>
       \o (IF syn = "proto2"
             THEN LET grp == XGroup("Zg", 1, 9, "optional", 18)      \* a group body is a message body: ranges allowed
                  IN << [grp[1] EXCEPT !.rr = << <<3, 4>> >>, !.xr = << <<100, 100>> >>], grp[2] >>
                     \o << XFld("zf", 18, 1, "optional", TScalar("int32")) >>
             ELSE << >>)
       \o (IF p3 THEN << >>        \* float defaults that float32 cannot represent exactly; an enum default naming the SECOND alias
           ELSE << [XFld("zw", 1, 10, sing, TScalar("float")) EXCEPT !.dflt = "0.1"],
                   [XFld("zu", 1, 11, sing, TScalar("float")) EXCEPT !.dflt = "1e30"],
                   [XFld("zv", 1, 12, sing, TScalar("double")) EXCEPT !.dflt = "1e30"],
                   [XFld("zq", 1, 13, sing, TRef(Rel(<<"b">>))) EXCEPT !.dflt = "zd"],
                   [XFld("zt", 1, 14, sing, TScalar("bytes")) EXCEPT !.dflt = "del"] >>))   \* a bytes default with DEL and a control byte
(* option bases: f1 imports descriptor.proto, declares option extensions and uses them *)
OptF1(syn, pkg) ==
  LET sing == Singular(syn)
      xl == IF syn = "editions" THEN "" ELSE "optional"
  IN [XFile("f1.proto", pkg, syn, <<Imp(DescriptorPath, "plain")>>,
        << XExt("zo", 0, 1000, xl, OptionsRef("field"), TScalar("int32")),
           XExt("zp", 0, 1001, xl, OptionsRef("message"), TScalar("int32")),
           XExt("zq", 0, 1002, xl, OptionsRef("file"), TScalar("int32")),
           XExt("zv", 0, 1003, xl, OptionsRef("value"), TScalar("int32")),
           WithOpts(XMsg("m", 0), <<OptUse(Rel(<<"zp">>))>>),
           WithOpts(XFld("zf", 5, 1, sing, TScalar("int32")), <<OptUse(Abs(pkg \o <<"zo">>))>>),
           XEnum("b", 0), WithOpts(XVal("za", 7, 0), <<OptUse(Rel(<<"zv">>))>>),
           XExt("zx", 5, 1004, xl, OptionsRef("method"), TScalar("int32")),
           XSvc("zs"), WithOpts(XMtd("zr", 10, Rel(<<"m">>), Rel(<<"m">>)), <<OptUse(Rel(<<"m", "zx">>))>>) >>
        \o (IF syn = "proto2"
              THEN << XExt("zrep", 0, 1010, "repeated", Abs(<<"google", "protobuf", "ExtensionRangeOptions">>), TScalar("int32")),
                      [XMsg("b", 5) EXCEPT !.xr = << <<1, 5>>, <<10, 20>>, <<30, 30>> >>, !.xopt = "vr"],
                      [XMsg("a", 5) EXCEPT !.xr = << <<1, 5>>, <<10, 20>> >>, !.xopt = "v"] >>
              ELSE << >>))
      EXCEPT !.opts = <<OptUse(Rel(<<"zq">>))>>]
OptWs(b) == << OptF1(CASE b = "O2" -> "proto2" [] b = "O3" -> "proto3" [] OTHER -> "editions", <<"a">>), XDescriptorFile >>
IsOptBase(b) == b \in {"O2", "O3", "OE"}

(* synthetic oneof names: taken by a real oneof, by a field, by an earlier synthetic one; a field that
   starts with '_'.  U3x adds a nested enum value named like a synthetic oneof (not SynthCertain). *)
SynthF1(x) ==
  XFile("f1.proto", <<"a">>, "proto3", <<>>,
        << XMsg("m", 0),
           XFld("zf", 1, 1, "optional", TScalar("int32")),
           XFld("_zu", 1, 2, "optional", TScalar("int32")),
           XOneof("_zf", 1), XFld("zi", 4, 3, "", TScalar("int32")),
           XFld("X_zf", 1, 4, "", TScalar("int32")) >>
        \o (IF x THEN << XMsg("b", 0), XFld("zf", 7, 1, "optional", TScalar("int32")),
                          XEnum("a", 7), XVal("za", 9, 0), XVal("_zf", 9, 1) >> ELSE << >>))
IsSynthBase(b) == b \in {"U3", "U3x"}
(* package components where one is a textual PREFIX of another: f1 in package q.zab refers to za.m of
   the imported package za (field type, extendee, rpc types): `za` is a package of its own, not a
   prefix of the component `zab`, so every reference resolves to .za.m *)
PrefixWs ==
  << XFile("f1.proto", <<"q", "zab">>, "proto2", <<Imp("f2.proto", "plain")>>,
           << XMsg("m", 0), XFld("zf", 1, 1, "optional", TRef(Rel(<<"za", "m">>))),
              XExt("zx", 0, 100, "optional", Rel(<<"za", "m">>), TScalar("int32")),
              XSvc("zs"), XMtd("zr", 4, Rel(<<"za", "m">>), Rel(<<"za", "m">>)) >>),
     XFile("f2.proto", <<"za">>, "proto2", <<>>,
           << [XMsg("m", 0) EXCEPT !.xr = << <<100, 199>> >>], XFld("zf", 1, 1, "optional", TScalar("int32")) >>) >>

RichWs(b) == CASE b = "R2" -> << RichF1("proto2", <<"a">>), F2Rich >>
               [] b = "R3" -> << RichF1("proto3", <<"a", "b">>), F2Rich >>
               [] OTHER    -> << RichF1("editions", <<"a">>), F2Rich >>
IsRich(b) == b \in {"R2", "R3", "RE"}


-----------------------------------------------------------------------------
(* acceptance of a candidate successor.  mode "edit": the result must be valid and within the edit
   bound; mode "mut": exactly one rule must break; mode "both": either.  The rules that need no name
   lookup are evaluated first so that most rejected candidates cost little. *)
Accept(w2, mode) ==
  LET sane == Sane(w2)
      b0 == ImportBroken(w2) \cup SymbolBroken(sane)
            \cup UNION {StructBroken(sane[g]) : g \in {h \in Files(sane) : ~sane[h].builtin}}
      okSize == nadd < MaxAdds /\ base \in GrowBases
  IN /\ (CASE mode = "edit" -> okSize /\ b0 = {}
           [] mode = "mut" -> Cardinality(b0) <= 1
           [] OTHER -> Cardinality(b0) <= 1) = TRUE
     /\ LET refs == AllRefs(sane)
            b == b0 \cup RefBroken(sane, refs) \cup OptBroken(sane, refs)
        IN /\ (CASE mode = "edit" -> b = {}
                 [] mode = "mut" -> Cardinality(b) = 1
                 [] OTHER -> (b = {} /\ okSize) \/ Cardinality(b) = 1) = TRUE
           /\ CoveredX(sane, refs) = TRUE
           /\ ws' = w2 /\ tag' = b /\ base' = base
           /\ nadd' = IF b = {} THEN nadd + 1 ELSE nadd

IsGroupDecl(dl) == dl.grp \/ dl.gof # 0
(* dropping declaration x shifts later indices; a later group field's gof would go stale *)
NoGroupAfter(F, x) == \A c \in Decls(F) : c > x => F.decls[c].gof = 0
MutOK == tag = {} /\ base \in MutBases /\ nadd <= MutMaxN
AddDecls(g, ds) == [ws EXCEPT ![g].decls = @ \o ds]
SetDecl(g, d, dl) == [ws EXCEPT ![g].decls[d] = dl]

UFiles == {g \in Files(ws) : ~ws[g].builtin}
MsgsOf(g) == OfKind(ws[g], "message")
Depth(F, d) == IF d = 0 THEN 0 ELSE IF F.decls[d].parent = 0 THEN 1 ELSE 2   \* enough for the bound below

(* spellings *)
Suffixes(n) == {SubSeq(n, k, Len(n)) : k \in 1..Len(n)}
SymSp(s) == {Rel(x) : x \in Suffixes(s.fqn)} \cup {Abs(s.fqn)}
UserSyms == UNION {DeclSyms(ws, g) : g \in UFiles}
UserPkgs == UNION {PkgPrefixes(ws[g].pkg) : g \in UFiles}
TypeSp == UNION {SymSp(s) : s \in {x \in UserSyms : x.kind \in {"message", "enum"}}}
MsgSp == UNION {SymSp(s) : s \in {x \in UserSyms : x.kind = "message"}}
ExtSp == UNION {SymSp(s) : s \in {x \in UserSyms : x.kind = "ext"}}
HasDescriptor == \E g \in Files(ws) : ws[g].builtin
WideSp == UNION {SymSp(s) : s \in {x \in UserSyms : x.kind \in WideKinds}} \cup {Rel(p) : p \in UserPkgs}
          \cup (IF HasDescriptor THEN {OptionsRef("field"), OptionsRef("message"), Rel(<<"google", "protobuf">>)} ELSE {})
          \cup {Rel(<<"c">>), Rel(<<"a", "c">>), Rel(<<"m", "c">>), Abs(<<"c">>)}
TypeChoices == {TScalar(s) : s \in ScalarPool} \cup {TRef(sp) : sp \in TypeSp}

UsedNums(F, m) == {F.decls[d].num : d \in {x \in Flds(F) : ScopeParent(F, x) = m}}
FreeNum(F, m) ==
  CHOOSE n \in 1..60 :
    /\ n \notin UsedNums(F, m) /\ ~InRanges(n, F.decls[m].rr) /\ ~InRanges(n, F.decls[m].xr)
    /\ \A k \in 1..(n - 1) : k \in UsedNums(F, m) \/ InRanges(k, F.decls[m].rr) \/ InRanges(k, F.decls[m].xr)
Labels == {"", "optional", "required", "repeated"}
RangePool == {<<2, 3>>, <<3, 5>>, <<100, 199>>, <<150, 160>>, <<1000, MaxFieldNum>>}

-----------------------------------------------------------------------------
(* additive edits *)
AddMsg == "AddMsg" \in Edits /\ tag = {} /\
  \E g \in UFiles : \E p \in {0} \cup {m \in MsgsOf(g) : ws[g].decls[m].parent = 0} : \E n \in TypeNames :
    Accept(AddDecls(g, << XMsg(n, p) >>), "edit")
AddEnum == "AddEnum" \in Edits /\ tag = {} /\
  \E g \in UFiles : \E p \in {0} \cup MsgsOf(g) : \E n \in TypeNames : \E v \in ValNames :
    Accept(AddDecls(g, << XEnum(n, p), XVal(v, Len(ws[g].decls) + 1, 0) >>), "edit")
AddVal == "AddVal" \in Edits /\ tag = {} /\
  \E g \in UFiles : \E e \in OfKind(ws[g], "enum") : \E v \in ValNames : \E num \in 0..2 :
    Accept(AddDecls(g, << XVal(v, e, num) >>), IF "AddVal" \in MutAdds /\ MutOK THEN "both" ELSE "edit")
AddFld == "AddFld" \in Edits /\ tag = {} /\
  \E g \in UFiles : \E p \in MsgsOf(g) \cup OfKind(ws[g], "oneof") : \E n \in FldNames :
    \E l \in Labels : \E ty \in TypeChoices :
      LET m == IF ws[g].decls[p].kind = "oneof" THEN ws[g].decls[p].parent ELSE p
      IN Accept(AddDecls(g, << XFld(n, p, FreeNum(ws[g], m), l, ty) >>), "edit")
AddMap == "AddMap" \in Edits /\ tag = {} /\
  \E g \in UFiles : \E p \in MsgsOf(g) : \E n \in FldNames \ {"zF"} :
    \E k \in {"int32", "string", "bool"} : \E ty \in TypeChoices :
      Accept(AddDecls(g, << XMap(n, p, FreeNum(ws[g], p), k, ty) >>), "edit")
AddOneof == "AddOneof" \in Edits /\ tag = {} /\
  \E g \in UFiles : \E p \in MsgsOf(g) : \E n \in FldNames : \E ty \in TypeChoices :
    Accept(AddDecls(g, << XOneof("zo", p), XFld(n, Len(ws[g].decls) + 1, FreeNum(ws[g], p), "", ty) >>), "edit")
(* extension numbers: inside some declared extension range of the workspace (first and second
   number of every range), so that the extendee decides; no range declared => no candidate *)
ExtNums == UNION {UNION {UNION {{r[1], r[1] + 1} \cap (r[1]..r[2]) : r \in Range(ws[g].decls[m].xr)}
                           : m \in MsgsOf(g)} : g \in UFiles}
AddExt == "AddExt" \in Edits /\ tag = {} /\
  \E g \in UFiles : \E p \in {0} \cup MsgsOf(g) : \E n \in ExtNames : \E num \in ExtNums :
    \E l \in {Singular(ws[g].syntax), "repeated"} : \E x \in MsgSp :
      \E ty \in {TScalar(CHOOSE sc \in ScalarPool : TRUE)} \cup {TRef(sp) : sp \in {y \in TypeSp : y.abs}} :
        Accept(AddDecls(g, << XExt(n, p, num, l, x, ty) >>), IF "AddExt" \in MutAdds /\ MutOK THEN "both" ELSE "edit")
AddSvc == "AddSvc" \in Edits /\ tag = {} /\
  \E g \in UFiles : \E n \in {"zs", "a"} : \E i \in MsgSp : \E o \in MsgSp :
    Accept(AddDecls(g, << XSvc(n), XMtd("zr", Len(ws[g].decls) + 1, i, o) >>), "edit")
AddMtd == "AddMtd" \in Edits /\ tag = {} /\
  \E g \in UFiles : \E s \in OfKind(ws[g], "service") : \E n \in {"zr", "zq"} : \E i \in MsgSp : \E o \in MsgSp :
    \E st \in {<<FALSE, FALSE>>, <<TRUE, FALSE>>, <<FALSE, TRUE>>} :
      Accept(AddDecls(g, << [XMtd(n, s, i, o) EXCEPT !.cs = st[1], !.ss = st[2]] >>), "edit")
AddImport == "AddImport" \in Edits /\ tag = {} /\
  \E g \in UFiles : \E path \in PathsOf(ws) \cup {"f9.proto"} : \E k \in {"plain", "public"} :
    Accept([ws EXCEPT ![g].imports = Append(@, Imp(path, k))], IF "AddImport" \in MutAdds /\ MutOK THEN "both" ELSE "edit")
AddRange == "AddRange" \in Edits /\ tag = {} /\
  \E g \in UFiles : \E m \in MsgsOf(g) : \E r \in RangePool : \E which \in {"xr", "rr"} :
    Accept(IF which = "xr" THEN [ws EXCEPT ![g].decls[m].xr = Append(@, r)]
           ELSE [ws EXCEPT ![g].decls[m].rr = Append(@, r)], IF "AddRange" \in MutAdds /\ MutOK THEN "both" ELSE "edit")
AddRName == "AddRName" \in Edits /\ tag = {} /\
  \E g \in UFiles : \E m \in MsgsOf(g) : \E n \in FldNames \cup Range(ws[g].decls[m].rn) :
    Accept([ws EXCEPT ![g].decls[m].rn = Append(@, n)], IF "AddRName" \in MutAdds /\ MutOK THEN "both" ELSE "edit")

-----------------------------------------------------------------------------
(* deliberate mutations of a valid workspace: one attribute changes, exactly one rule must break *)
FldsExts(g) == Flds(ws[g]) \cup ExtDecls(ws[g])
(* FOCUS: mutations whose effect depends only on the mutated declaration itself (special numbers,
   label, default, map key) are applied to the most recently added field / extension of a file only:
   every declaration is the focus in the state right after the edit that added it, so each
   (declaration shape, mutation) pair is still generated, once instead of once per later state.
   Mutations that depend on the rest of the workspace (a sibling's number, a range end point, a
   retargeted reference, a renamed or dropped declaration) are applied everywhere. *)
Focus(g) == IF nadd = 0 THEN FldsExts(g)          \* a base: every declaration is new
            ELSE IF FldsExts(g) = {} THEN {} ELSE {CHOOSE d \in FldsExts(g) : \A x \in FldsExts(g) : x <= d}
SpecialNums == {0, 19000, 19999, MaxFieldNum + 1}
ContextNums(F, d) ==
  ({F.decls[x].num : x \in Flds(F) \cup ExtDecls(F)}
   \cup UNION {{r[1], r[2], r[2] + 1} : r \in UNION {Range(F.decls[m].rr) \cup Range(F.decls[m].xr) : m \in OfKind(F, "message")}}
   \cup {7}) \ SpecialNums
MutSetNum == "SetNum" \in Muts /\ MutOK /\
  \E g \in UFiles : \E d \in FldsExts(g) :
    \E n \in (ContextNums(ws[g], d) \cup (IF d \in Focus(g) THEN SpecialNums ELSE {})) \ {ws[g].decls[d].num} :
      Accept(SetDecl(g, d, [ws[g].decls[d] EXCEPT !.num = n]), "mut")
MutSetLabel == "SetLabel" \in Muts /\ MutOK /\
  \E g \in UFiles : \E d \in Focus(g) : \E l \in Labels \ {ws[g].decls[d].label} :
    Accept(SetDecl(g, d, [ws[g].decls[d] EXCEPT !.label = l]), "mut")
MutRetarget == "Retarget" \in Muts /\ MutOK /\
  \E g \in UFiles : \E s \in {x \in Sites(ws[g]) : IF x[1] = 0 THEN TRUE ELSE ws[g].decls[x[1]].gof = 0} :
    \E sp \in WideSp \ {SlotSpelling(ws[g], s[1], s[2])} :
    Accept([ws EXCEPT ![g] = SetSlot(@, s[1], s[2], sp)], "mut")
MutSetSyntax == "SetSyntax" \in Muts /\ MutOK /\
  \E g \in UFiles : \E s \in {"proto2", "proto3", "editions"} \ {ws[g].syntax} :
    Accept([ws EXCEPT ![g].syntax = s], "mut")
(* rename a declaration to a name that can collide: a sibling's name, a reserved name of its message,
   the JSON twin of a sibling field's name, (top level) the first package component of a file *)
JsonTwins == {<<"z_f", "zF">>, <<"zF", "z_f">>}
CollisionNames(g, d) ==
  LET F == ws[g]
      sp == ScopeParent(F, d)
      sibs == {F.decls[x].name : x \in {y \in Decls(F) : y # d /\ ScopeParent(F, y) = sp}}
  IN sibs
     \cup (IF sp = 0 THEN {w[1] : w \in {ws[h].pkg : h \in UFiles} \ {<<>>}} ELSE {})
     \cup (IF F.decls[d].kind = "field" THEN Range(F.decls[sp].rn) \cup {t[2] : t \in {u \in JsonTwins : u[1] \in sibs}} ELSE {})
     \cup (IF F.decls[d].kind = "value" THEN Range(F.decls[F.decls[d].parent].rn) ELSE {})
MutSetName == "SetName" \in Muts /\ MutOK /\
  \E g \in UFiles : \E d \in {x \in Decls(ws[g]) : ~IsGroupDecl(ws[g].decls[x])} :
    \E nm \in CollisionNames(g, d) \ {ws[g].decls[d].name} :
    Accept(SetDecl(g, d, [ws[g].decls[d] EXCEPT !.name = nm]), "mut")
MutSetPkg == "SetPkg" \in Muts /\ MutOK /\
  \E g \in UFiles : \E p \in {<<>>, <<"a">>, <<"b">>, <<"a", "b">>, <<"m">>, <<"a", "m">>} \ {ws[g].pkg} :
    Accept([ws EXCEPT ![g].pkg = p], "mut")
MutSetValNum == "SetValNum" \in Muts /\ MutOK /\
  \E g \in UFiles : \E v \in OfKind(ws[g], "value") :
    \E n \in ((0..2) \cup UNION {{r[1], r[2], r[2] + 1} : r \in Range(ws[g].decls[ws[g].decls[v].parent].rr)}) \ {ws[g].decls[v].num} :
    Accept(SetDecl(g, v, [ws[g].decls[v] EXCEPT !.num = n]), "mut")
(* remove a declaration without children; later declarations move up by one *)
DropAt(F, d) ==
  LET n == Len(F.decls)
      Fix(dl) == IF dl.parent > d THEN [dl EXCEPT !.parent = @ - 1] ELSE dl
  IN [F EXCEPT !.decls = <<>> \o [i \in 1..(n - 1) |-> Fix(F.decls[IF i < d THEN i ELSE i + 1])]]
MutDropLeaf == "DropLeaf" \in Muts /\ MutOK /\
  \E g \in UFiles : \E d \in {x \in Decls(ws[g]) : ~IsGroupDecl(ws[g].decls[x]) /\ NoGroupAfter(ws[g], x)
                                                    /\ \A c \in Decls(ws[g]) : ws[g].decls[c].parent # x} :
    Accept([ws EXCEPT ![g] = DropAt(@, d)], "mut")
MutSetMapKey == "SetMapKey" \in Muts /\ MutOK /\
  \E g \in UFiles : \E d \in {x \in Focus(g) \cap Flds(ws[g]) : ws[g].decls[x].gof = 0} :
    \E k \in (IF IsMap(ws[g].decls[d]) THEN {"float", "double", "bytes"} ELSE {"string"}) :
      Accept(SetDecl(g, d, [ws[g].decls[d] EXCEPT !.mapkey = k]), "mut")
MutSetDflt == "SetDflt" \in Muts /\ MutOK /\
  \E g \in UFiles : \E d \in {x \in Focus(g) : ws[g].decls[x].gof = 0} : \E v \in {"7", "true", "hi", "za", "zb"} \ {ws[g].decls[d].dflt} :
    Accept(SetDecl(g, d, [ws[g].decls[d] EXCEPT !.dflt = v]), "mut")

(* the same attribute edits as ADDITIVE steps when they keep the workspace valid (a default, a
   json_name or a stream flag that was not there before) *)
AddDflt == "AddDflt" \in Edits /\ tag = {} /\
  \E g \in UFiles : \E d \in {x \in Focus(g) : ws[g].decls[x].dflt = "" /\ ws[g].decls[x].gof = 0} : \E v \in {"7", "true", "hi", "za", "zb"} :
    Accept(SetDecl(g, d, [ws[g].decls[d] EXCEPT !.dflt = v]), IF "AddDflt" \in MutAdds /\ MutOK THEN "both" ELSE "edit")
AddJson == "AddJson" \in Edits /\ tag = {} /\
  \E g \in UFiles : \E d \in {x \in Focus(g) \cap Flds(ws[g]) : ws[g].decls[x].json = "" /\ ws[g].decls[x].gof = 0} : \E v \in {"zj", "zF", "Zf"} :
    Accept(SetDecl(g, d, [ws[g].decls[d] EXCEPT !.json = v]), IF "AddJson" \in MutAdds /\ MutOK THEN "both" ELSE "edit")

(* allow_alias: switched on together with the value that makes it legitimate *)
AddAliasVal == "AddAliasVal" \in Edits /\ tag = {} /\
  \E g \in UFiles : \E e \in {x \in OfKind(ws[g], "enum") : ~ws[g].decls[x].alias} : \E v \in ValNames :
    LET first == CHOOSE c \in Decls(ws[g]) : ws[g].decls[c].parent = e /\ \A c2 \in Decls(ws[g]) : ws[g].decls[c2].parent = e => c <= c2
    IN Accept([AddDecls(g, << XVal(v, e, ws[g].decls[first].num) >>) EXCEPT ![g].decls[e].alias = TRUE], "edit")
MutDropAlias == "DropAlias" \in Muts /\ MutOK /\
  \E g \in UFiles : \E e \in {x \in OfKind(ws[g], "enum") : ws[g].decls[x].alias} :
    Accept(SetDecl(g, e, [ws[g].decls[e] EXCEPT !.alias = FALSE]), "mut")
AddDep == "AddDep" \in Edits /\ tag = {} /\
  \E g \in UFiles : \E d \in {x \in Focus(g) : ~ws[g].decls[x].dep /\ ws[g].decls[x].gof = 0} :
    Accept(SetDecl(g, d, [ws[g].decls[d] EXCEPT !.dep = TRUE]), "edit")
(* a group with one field inside; only messages that are not groups themselves get one *)
AddGroup == "AddGroup" \in Edits /\ tag = {} /\
  \E g \in UFiles : \E p \in {m \in MsgsOf(g) : ~ws[g].decls[m].grp} : \E nm \in {"Zg", "A"} : \E l \in Labels :
    LET at == Len(ws[g].decls) + 1
    IN Accept(AddDecls(g, XGroup(nm, p, FreeNum(ws[g], p), l, at)
                          \o << XFld("zf", at, 1, Singular(ws[g].syntax), TScalar("int32")) >>),
              IF "AddGroup" \in MutAdds /\ MutOK THEN "both" ELSE "edit")
(* custom options: a use on an element, a new option extension *)
OptCarriers(g) == {0} \cup {d \in Decls(ws[g]) : ws[g].decls[d].kind \in {"message", "field", "ext", "enum", "value", "service", "method"}
                                                   /\ ~IsGroupDecl(ws[g].decls[d]) /\ Len(ws[g].decls[d].opts) < 2}
AddOptUse == "AddOptUse" \in Edits /\ tag = {} /\ HasDescriptor /\
  \E g \in UFiles : \E d \in OptCarriers(g) : \E sp \in ExtSp :
    Accept(IF d = 0 THEN [ws EXCEPT ![g].opts = Append(@, OptUse(sp))]
           ELSE [ws EXCEPT ![g].decls[d].opts = Append(@, OptUse(sp))],
           IF "AddOptUse" \in MutAdds /\ MutOK THEN "both" ELSE "edit")
AddOptExt == "AddOptExt" \in Edits /\ tag = {} /\ HasDescriptor /\
  \E g \in UFiles : \E p \in {0} \cup MsgsOf(g) : \E nm \in ExtNames : \E num \in {1000, 1005} :
    \E k \in {"file", "message", "field", "enum", "value", "service", "method"} :
      Accept(AddDecls(g, << XExt(nm, p, num, IF ws[g].syntax = "editions" THEN "" ELSE "optional", OptionsRef(k), TScalar("int32")) >>),
             IF "AddOptExt" \in MutAdds /\ MutOK THEN "both" ELSE "edit")
(* one more reserved range on an enum: overlapping an existing one, covering a value, or harmless *)
MutAddEnumRange == "AddEnumRange" \in Muts /\ MutOK /\
  \E g \in UFiles : \E e \in OfKind(ws[g], "enum") : \E r \in {<<7, 9>>, <<1, 1>>, <<0, 0>>, <<6, 6>>} :
    Accept([ws EXCEPT ![g].decls[e].rr = Append(@, r)], "mut")
(* plain <-> public *)
MutSetImpKind == "SetImpKind" \in Muts /\ MutOK /\
  \E g \in UFiles : \E k \in 1..Len(ws[g].imports) :
    Accept([ws EXCEPT ![g].imports[k].kind = IF @ = "public" THEN "plain" ELSE "public"], "mut")

Next == \/ AddMsg \/ AddEnum \/ AddVal \/ AddFld \/ AddMap \/ AddOneof \/ AddExt \/ AddSvc \/ AddMtd
        \/ AddImport \/ AddRange \/ AddRName \/ AddDflt \/ AddJson
        \/ MutSetNum \/ MutSetLabel \/ MutRetarget \/ MutSetSyntax \/ MutSetName \/ MutSetPkg
        \/ MutSetValNum \/ MutDropLeaf \/ MutSetMapKey \/ MutSetDflt
        \/ AddAliasVal \/ MutDropAlias \/ AddDep \/ MutSetImpKind \/ AddGroup \/ AddOptUse \/ AddOptExt \/ MutAddEnumRange

InitWs == {<<b, BaseWs(b, PkgOf(p))>> : b \in {x \in Bases : ~IsRich(x) /\ ~IsOptBase(x) /\ ~IsSynthBase(x) /\ x # "PX"}, p \in Pkg1Ids}
          \cup {<<b, RichWs(b)>> : b \in {x \in Bases : IsRich(x)}}
          \cup {<<b, OptWs(b)>> : b \in {x \in Bases : IsOptBase(x)}}
          \cup {<<b, << SynthF1(b = "U3x") >> >> : b \in {x \in Bases : IsSynthBase(x)}}
          \cup {<<b, PrefixWs>> : b \in {x \in Bases : x = "PX"}}
Init == /\ tag = {} /\ nadd = 0
        /\ \E i \in InitWs : base = i[1] /\ ws = i[2]
Spec == Init /\ [][Next]_vars

(* the base workspaces must be valid and covered: an invariant that only bites on initial states *)
BasesValid == nadd = 0 /\ tag = {} => (Broken(ws) = {} /\ CoveredX(Sane(ws), AllRefs(Sane(ws))))

-----------------------------------------------------------------------------
(* feature tags of a case (the lookup rule ids of its references are added by the driver) *)
Features(w) ==
  UNION {LET F == w[g] IN
           {"S-" \o F.syntax}
           \cup (IF F.opts # <<>> THEN {"F-custom-option:file"} ELSE {})
           \cup (IF Len(F.imports) > 0 THEN {"F-import"} ELSE {})
           \cup (IF \E k \in 1..Len(F.imports) : F.imports[k].kind = "public" THEN {"F-import-public"} ELSE {})
           \cup UNION {LET dl == F.decls[d] IN
                         {"K-" \o dl.kind}
                         \cup (IF dl.parent # 0 /\ dl.kind \in {"message", "enum", "ext"} THEN {"F-nested-" \o dl.kind} ELSE {})
                         \cup (IF dl.kind \in {"field", "ext"} THEN {"F-label:" \o dl.label} ELSE {})
                         \cup (IF dl.mapkey # "" THEN {"F-map"} ELSE {})
                         \cup (IF dl.dflt # "" THEN {"F-default"} ELSE {})
                         \cup (IF dl.json # "" THEN {"F-json"} ELSE {})
                         \cup (IF dl.xr # <<>> THEN {"F-extrange"} ELSE {})
                         \cup (IF dl.xopt # "" THEN {"F-extrange-options:" \o dl.xopt} ELSE {})
                         \cup (IF dl.rr # <<>> THEN {"F-reserved:" \o dl.kind} ELSE {})
                         \cup (IF dl.rn # <<>> THEN {"F-reserved-name"} ELSE {})
                         \cup (IF dl.cs \/ dl.ss THEN {"F-stream"} ELSE {})
                         \cup (IF dl.alias THEN {"F-allow-alias"} ELSE {})
                         \cup (IF dl.dep THEN {"F-deprecated"} ELSE {})
                         \cup (IF dl.grp THEN {"F-group"} ELSE {})
                         \cup (IF dl.opts # <<>> THEN {"F-custom-option:" \o dl.kind} ELSE {})
                         \cup (IF dl.kind = "field" /\ F.syntax = "proto3" /\ dl.label = "optional" THEN {"F-proto3-optional"} ELSE {})
                         \cup (IF dl.kind = "field" /\ InOneof(F, d) THEN {"F-oneof-member"} ELSE {})
                       : d \in Decls(F)}
         : g \in {h \in Files(w) : ~w[h].builtin}}

Case ==
  LET sane == Sane(ws)
  IN [ws |-> WsVX(ws), valid |-> tag = {}, broken |-> tag, features |-> Features(ws),
      fqns |-> MapSeq(IdxSeq(Len(ws)), LAMBDA g : DeclFQNs(ws, g)),
      refs |-> MapSeq(IdxSeq(Len(sane)), LAMBDA g : {RefV(r) : r \in RefsOf(sane, g)}),
      certain |-> SynthCertain(sane)]
     @@ Opt(tag = {}, [desc |-> MapSeq(IdxSeq(Len(sane)), LAMBDA g : Descriptor(sane, g))])

Export == PrintT("CASE " \o ToJson(Case))
=============================================================================
