------------------------------- MODULE MCSrcPos -------------------------------
(* C13 (stable parser: ast.FileInfo.SourcePos, the lexer's line table).

   A source file is a sequence of LEXICAL UNITS.  Every unit is lexically self-contained: the
   specification knows its expansion into characters (the symbols of SrcText plus ordinary
   one-byte characters, which SrcText treats as one byte / one column), how many of its leading
   characters form a token or comment, and nothing else about the lexer.  TLC enumerates every
   unit sequence up to the bound and exports, per unit and per character boundary, the position
   the property statement demands:

       line = 1 + number of LF before the boundary            (SrcText!Line)
       col  = 1 + characters since the line start, TAB -> next multiple of 8   (SrcText!Col8)

   Symbols (concretised by the Go driver):
     "S" space  "T" TAB  "N" LF  "R" CR  "Q" double quote  "B" backslash
     "2" "3" "4" a 2-/3-/4-byte UTF-8 character   "Z" NUL   "X" the invalid UTF-8 byte 0x80
     any other one-character string: that ASCII character itself.

   A column after an invalid byte on the same line is not defined by the statement ("characters");
   such positions are exported with ok = FALSE and only their line is compared.

   Byte order mark: a file may start with the UTF-8 BOM (EF BB BF).  The BOM is not part of the
   text: every expected offset, line and column is what SrcText gives for the text WITHOUT the
   BOM, offsets counted from the first byte after it (that is the convention of the unchanged
   code, whose FileInfo holds the contents after the BOM; the statement leaves the origin of
   offsets open, lines and columns it does not).  bom = TRUE makes the driver put the three bytes
   in front of the concretised text; nothing else in the case changes. *)
EXTENDS SrcText, TLC, Json

CONSTANTS
  MaxLen,       \* free shape: maximal number of units
  FreeUnits,    \* units that may appear anywhere
  FinalUnits,   \* units that run to end of file (unterminated constructs); only as the last unit
  GapUnits,     \* skeleton shape: units that may fill a gap between the skeleton tokens
  Shape,        \* "free" | "skel"
  ExportMin,    \* export only cases with at least this many units (simulation: = depth)
  Boms,         \* subset of BOOLEAN: does the file start with a byte order mark
  BomMaxLen     \* free shape: maximal number of units of a file WITH a byte order mark

VARIABLES units, closed, stage, bom
vars == <<units, closed, stage, bom>>

-----------------------------------------------------------------------------
(* the unit table *)
Expand(u) ==
  CASE u = "id"    -> <<"a">>
    [] u = "kwmsg" -> <<"m", "e", "s", "s", "a", "g", "e">>
    [] u = "sp"    -> <<"S">>
    [] u = "tab"   -> <<"T">>
    [] u = "lf"    -> <<"N">>
    [] u = "cr"    -> <<"R">>
    [] u = "semi"  -> <<";">>
    [] u = "lb"    -> <<"{">>
    [] u = "rb"    -> <<"}">>
    [] u = "bc2"   -> <<"/", "*", "2", "*", "/">>          \* block comments with a multi-byte char,
    [] u = "bc3"   -> <<"/", "*", "3", "*", "/">>
    [] u = "bc4"   -> <<"/", "*", "4", "*", "/">>
    [] u = "bcT"   -> <<"/", "*", "T", "*", "/">>          \* ... a tab,
    [] u = "bcN"   -> <<"/", "*", "N", "*", "/">>          \* ... a newline
    [] u = "bcRN"  -> <<"/", "*", "R", "N", "x", "*", "/">>
    [] u = "lc3"   -> <<"/", "/", "3", "N">>               \* line comment; the LF ends it
    [] u = "lcT"   -> <<"/", "/", "T", "x", "N">>
    [] u = "str2"  -> <<"Q", "2", "Q">>                    \* string literals with multi-byte chars
    [] u = "str3"  -> <<"Q", "3", "Q">>
    [] u = "str4"  -> <<"Q", "4", "Q">>
    [] u = "strT"  -> <<"Q", "T", "Q">>
    [] u = "ustr"  -> <<"Q", "a", "N">>                    \* UNTERMINATED string ended by LF
    [] u = "ustrS" -> <<"'", "N">>                         \* the same with a single quote
    [] u = "strBN" -> <<"Q", "B", "N", "Q">>               \* backslash-newline inside a string
    [] u = "strXN" -> <<"Q", "B", "x", "N", "0", "Q">>     \* newline inside a hex escape
    [] u = "bad"   -> <<"X">>                              \* invalid UTF-8 byte
    [] u = "nul"   -> <<"Z">>                              \* control character
    [] u = "stray" -> <<"3">>                              \* multi-byte char outside literal/comment
    [] u = "at"    -> <<"@">>                              \* stray ASCII char
    [] u = "lcE"   -> <<"/", "/", "3">>                    \* line comment ended by EOF
    [] u = "ustrE" -> <<"Q", "2">>                         \* string ended by EOF
    [] u = "ubc"   -> <<"/", "*", "3", "N", "x">>          \* block comment ended by EOF

(* number of leading characters of the unit that form one token or comment; 0 = none
   (white space, or a lexical error) *)
TokLen(u) ==
  CASE u \in {"id", "semi", "lb", "rb"} -> 1
    [] u = "kwmsg" -> 7
    [] u \in {"bc2", "bc3", "bc4", "bcT", "bcN"} -> 5
    [] u = "bcRN" -> 7
    [] u \in {"lc3", "lcE"} -> 3
    [] u = "lcT" -> 4
    [] u \in {"str2", "str3", "str4", "strT"} -> 3
    [] OTHER -> 0
IsComment(u) == u \in {"bc2", "bc3", "bc4", "bcT", "bcN", "bcRN", "lc3", "lcT", "lcE"}
IdentLike(u) == u \in {"id", "kwmsg"}       \* adjacent identifier-like units fuse into one token
IsErrorUnit(u) == u \in {"ustr", "ustrS", "strBN", "strXN", "bad", "nul", "stray", "at", "ustrE", "ubc"}

-----------------------------------------------------------------------------
RECURSIVE Flatten(_)
Flatten(us) == IF us = <<>> THEN <<>> ELSE Expand(Head(us)) \o Flatten(Tail(us))

RECURSIVE StartOf(_, _)
(* boundary (in characters) at which unit i starts *)
StartOf(us, i) == IF i = 1 THEN 0 ELSE StartOf(us, i - 1) + Len(Expand(us[i - 1]))

(* is the column of boundary k defined: no invalid byte between the line start and k *)
ColOK(t, k) == \A j \in (LineStart(t, k) + 1)..k : t[j] # "X"

(* position demanded by the statement at boundary k: <<byte offset, line, column, column defined>> *)
PosAt(t, k) == <<Off(t, k), Line(t, k), Col8(t, k), IF ColOK(t, k) THEN 1 ELSE 0>>

(* per unit: <<name, start boundary, token length in characters, starts, comment, error>>; starts = 1 iff a token
   or comment must start exactly at the unit's start (token-like and not fused with an
   identifier-like predecessor).  The token part of the unit covers boundaries k .. k + toklen:
   its exclusive end is bnd[k + toklen], its last character starts at bnd[k + toklen - 1]. *)
UnitRec(us, i) ==
  LET u  == us[i]
      fused == IdentLike(u) /\ i > 1 /\ IdentLike(us[i - 1])
  IN <<u, StartOf(us, i), TokLen(u), IF TokLen(u) > 0 /\ ~fused THEN 1 ELSE 0,
       IF IsComment(u) THEN 1 ELSE 0, IF IsErrorUnit(u) THEN 1 ELSE 0>>

Case ==
  LET t == Flatten(units)
  IN [shape |-> Shape, bom |-> IF bom THEN 1 ELSE 0, text |-> t,
      nlines |-> Line(t, Len(t)),
      unit |-> [i \in 1..Len(units) |-> UnitRec(units, i)],
      bnd |-> [k \in 1..(Len(t) + 1) |-> PosAt(t, k - 1)]]

-----------------------------------------------------------------------------
(* free shape: any sequence of FreeUnits, optionally closed by one FinalUnit *)
FreeInit == units = <<>> /\ closed = FALSE /\ stage = 0 /\ bom \in Boms
FreeNext ==
  /\ ~closed /\ Len(units) < (IF bom THEN BomMaxLen ELSE MaxLen)
  /\ \/ \E u \in FreeUnits : units' = Append(units, u) /\ closed' = FALSE
     \/ \E u \in FinalUnits : units' = Append(units, u) /\ closed' = TRUE
  /\ UNCHANGED <<stage, bom>>

(* skeleton shape:  message <gap> SP <gap> a <gap> { <gap> } <gap>
   with every gap empty or one GapUnit; syntactically valid whenever the gaps hold only white
   space and comments, so the AST has composite nodes whose spans cross the units *)
Skel == <<"kwmsg", "sp", "id", "lb", "rb">>
SkelInit == units = <<>> /\ closed = FALSE /\ stage = 0 /\ bom \in Boms
SkelNext ==
  /\ UNCHANGED bom
  /\ stage < Len(Skel)
  /\ stage' = stage + 1
  /\ \/ units' = Append(units, Skel[stage + 1])
     \/ \E g \in GapUnits : units' = units \o <<Skel[stage + 1], g>>
  /\ closed' = (stage' = Len(Skel))

Init == IF Shape = "free" THEN FreeInit ELSE SkelInit
Next == IF Shape = "free" THEN FreeNext ELSE SkelNext
Spec == Init /\ [][Next]_vars

-----------------------------------------------------------------------------
(* spec-level sanity of the oracle itself (checked by TLC on every exported case) *)
OracleSane ==
  LET t == Flatten(units)
  IN /\ \A k \in 0..Len(t) : Line(t, k) >= 1 /\ Col8(t, k) >= 1
     /\ \A k \in 1..Len(t) :
          \/ t[k] = "N" /\ Line(t, k) = Line(t, k - 1) + 1 /\ Col8(t, k) = 1
          \/ t[k] = "T" /\ Line(t, k) = Line(t, k - 1) /\ Col8(t, k) > Col8(t, k - 1)
                        /\ (Col8(t, k) - 1) % 8 = 0 /\ Col8(t, k) - Col8(t, k - 1) <= 8
          \/ t[k] \notin {"N", "T"} /\ Line(t, k) = Line(t, k - 1) /\ Col8(t, k) = Col8(t, k - 1) + 1

Exportable == IF Shape = "free" THEN Len(units) >= ExportMin ELSE stage = Len(Skel)
Export == Exportable => PrintT("CASE " \o ToJson(Case))
=============================================================================
