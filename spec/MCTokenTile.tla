------------------------------- MODULE MCTokenTile -------------------------------
(* Design-level check of TokenTile.tla: TLC generates every observation (report, token stream)
   that the specification accepts for inputs of up to MaxInput bytes and at most MaxTok tokens,
   and checks on all of them that the accepted streams really are tilings with well-nested
   brackets (TypeOK, NoOverrun, Tiled, WellNested) -- i.e. that the named checks of the actions
   are strong enough for the property they are meant to state.  SomeDone* are reachability
   witnesses (violated on purpose in MCTokenTileWitness.cfg to show the model is not vacuous). *)
EXTENDS TokenTile, TLC
CONSTANTS MaxInput, MaxTok

MKinds == {"Keyword", "Space", "String", "Unrecognized"}
Brs    == {"", "(", ")", "{", "}"}
Spans(l) == {<<s, t>> : s \in 0..l, t \in 0..l}

MNext ==
  \/ \E l \in 0..MaxInput : phase = "idle" /\ Begin(l, << >>, FALSE)
  \/ \E lv \in {Error, Warning} : \E sp \in Spans(len) : nerr < 2 /\ Diag(lv, <<sp>>)
  \/ /\ n < MaxTok
     /\ \E t \in pos..len, k \in MKinds, role \in {"leaf", "open", "close"}, mate \in 0..MaxTok, br \in Brs,
          fk \in {"", "()", "{}"} :
          Emit(n + 1, pos, t, k, role, mate, br, fk, TRUE, << >>)
  \/ End(n, TRUE, TRUE)
MSpec == Init /\ [][MNext]_tvars

(* the property, stated directly on the finished observation *)
DoneIsTiling == phase = "done" => (pos = len /\ stack = << >> /\ strrun = 0)

(* witnesses: each of these must be VIOLATED (= the situation is reachable) *)
NoDoneWithPair      == ~(phase = "done" /\ n >= 2 /\ len = 2 /\ nerr = 0)
NoDoneWithUnmatched == ~(phase = "done" /\ nerr > 0 /\ n >= 1)
=============================================================================
