------------------------------- MODULE MCSrcInfo -------------------------------
(* C23 case generator: every valid (syntax, feature set) of FileFeatures.tla that contains one of
   the layout bases (none / comments / comments + weird_layout) plus at most MaxFeatures further
   features, and the maximal valid set of each syntax; larger random sets come from -simulate.
   Each case carries the expected element kinds / imports (FileFeatures) and the expected SHAPE and
   custom-option schema (SrcInfoShape) against which location paths are interpreted.  The four
   source-info modes are not enumerated here: every case is compiled in all four.            *)
EXTENDS SrcInfoShape, SrcInfoPaths, TLC, Json
CONSTANTS MaxFeatures, ExportMin
VARIABLES syntax, fs, added
vars == <<syntax, fs, added>>

Bases == {{}, {"comments"}, {"comments", "weird_layout"}}
MaxValid(s) == {f \in Features : SyntaxOK(s, f)}
Init == /\ syntax \in Syntaxes /\ added = 0
        /\ (fs \in Bases \/ fs = MaxValid(syntax))
Next == /\ added < MaxFeatures
        /\ \E f \in Features \ fs : fs' = fs \cup {f} \cup Needs(f)
        /\ \A g \in fs' : SyntaxOK(syntax, g)
        /\ added' = added + 1
        /\ UNCHANGED syntax
Spec == Init /\ [][Next]_vars

Case == [syntax |-> syntax, features |-> fs, deps |-> Deps(fs), kinds |-> Kinds(syntax, fs),
         shape |-> Shape(syntax, fs)]
(* the descriptor.proto schema the path grammar uses, exported once per run for the cross-check
   against descriptorpb's reflection data *)
SchemaCase == [schema |-> [m \in SchemaMessages |-> FieldTab[m]]]
Export == /\ (syntax = "proto2" /\ fs = {} /\ added = 0) => PrintT("CASE " \o ToJson(SchemaCase))
          /\ (Valid(syntax, fs) /\ added >= ExportMin) => PrintT("CASE " \o ToJson(Case))

(* design-level sanity of the path grammar on every enumerated shape (TLC checks it in each state) *)
NMsgs == 1 + (IF "extgroup" \in fs THEN 2 ELSE 0) + (IF "service" \in fs THEN 2 ELSE 0) + (IF "customopt" \in fs THEN 1 ELSE 0)
GrammarSane ==
  LET sh == Shape(syntax, fs)  ex == Exts(fs)  cu == Custom(fs)
      ok(p) == Interpretable(p, sh, ex, cu)
      why(p) == PathProblems(p, sh, ex, cu)
  IN Valid(syntax, fs) =>
     /\ ok(<<>>) /\ ok(<<12>>) /\ ok(<<2>>) /\ ok(<<8>>) /\ ok(<<8, 1>>) /\ ok(<<4, 0>>) /\ ok(<<4, 0, 1>>)
     /\ ok(<<4, 0, 2, 0, 8>>) /\ ok(<<4, 0, 2, 1, 8, 21, 1>>) /\ ok(<<4, 0, 7, 999, 5, 2, 0, 1>>)
     /\ ok(<<4, 0, 2>>) /\ ok(<<4, NMsgs - 1, 1>>)
     /\ why(<<4, NMsgs>>) = {"index_out_of_range"}
     /\ why(<<4, 0, 2, TopFields(fs), 1>>) = {"index_out_of_range"}
     /\ why(<<13>>) = {"undeclared_field"} /\ why(<<4, 0, 12>>) = {"undeclared_field"}
     /\ why(<<4, 0, 1, 0>>) = {"step_below_scalar"}
     /\ why(<<4, 0, 2, 0, 8, 50004, 1>>) = (IF "customopt" \in fs THEN {"step_below_scalar"} ELSE {"undeclared_option_field"})
     /\ why(<<8, 50002>>) = {"undeclared_option_field"}     \* mopt extends MessageOptions, not FileOptions
     /\ ("customopt" \in fs => ok(<<4, 0, 7, 50003, 3, 3, 2, 5>>) /\ why(<<4, 0, 7, 50003, 4>>) = {"undeclared_option_field"})
     /\ ("enum" \in fs => ok(<<5, 0, 2, 2, 1>>) /\ why(<<5, 0, 2, 3>>) = {"index_out_of_range"})
     /\ ("enum" \notin fs => why(<<5, 0>>) = {"index_out_of_range"})
     /\ UnderOptions(<<8, 1>>, ex, cu) /\ ~UnderOptions(<<8>>, ex, cu) /\ UnderOptions(<<4, 0, 2, 0, 8, 3>>, ex, cu)
     /\ ~UnderOptions(<<4, 0, 2, 0, 7>>, ex, cu) /\ ~UnderOptions(<<4, 0, 1>>, ex, cu)
     /\ SpanProblems(<<0, 0, 3>>, <<3, 0>>) = {} /\ SpanProblems(<<0, 0, 1, 0>>, <<3, 0>>) = {}
     /\ SpanProblems(<<0, 2, 1>>, <<3, 0>>) = {"span_start_after_end"}
     /\ SpanProblems(<<0, 0, 4>>, <<3, 0>>) = {"span_end_col_outside_line"}
     /\ SpanProblems(<<0, 0, 2, 0>>, <<3, 0>>) = {"span_line_outside_file"}
     /\ SpanProblems(<<0, 0>>, <<3, 0>>) = {"span_arity"}
=============================================================================
