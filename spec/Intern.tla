------------------------------- MODULE Intern -------------------------------
(* C38: internal/intern.Table on top of syncx.Log (SyncLog) and the inline encoding (Char6).

   Strings are sequences of byte values.  The concrete part follows the code's atomic
   operations, one action each (the names are the names of the hook events):

     Query(s):   inline s            -> return (Encode(s), true) without touching shared state
                 q.load              index.Load(s): absent -> (0,false)
                 q.read              p.Load(): 0 (reserved, mid-insertion) -> (0,false) ; id -> (id,true)
     Intern(s):  Query(s) as above; on (_, false):
                 los                 index.LoadOrStore(s, reserved): stored -> Append(s) (SyncLog steps)
                 los.read            loaded: p.Load(): 0 -> yield and retry los ; id -> return id
                 commit              p.Store(i+1) after Append returned i ; return i+1
     Value(id):  id <= 0 -> Decode(id) ; else Log.Load(id-1)  (SyncLog steps)

   The abstract part (variables abs, abs0) is the property statement turned into a monitor over
   call / return events only; it never looks at index / log:
     - two strings have the same id exactly when they are equal; every Intern(s) returns THE id of s;
     - Value(id of s) = s;
     - Query(s) is true iff s is inline or has been interned (for overlapping calls: a "false"
       needs a moment inside the call at which no completed observation had seen s interned; a
       "true" for a string nobody finished interning needs an Intern(s) in flight).
   MonitorAccepts (invariant of the concrete model) says that every return the concrete model
   can perform is accepted by the monitor; trace validation then applies either both parts
   (hooked runs) or the monitor alone (runs without hooks). *)
EXTENDS SyncLog, Char6, TLC

CONSTANTS MaxOps, MaxSpin

VARIABLES index,   \* string -> 0 (reserved) | id > 0 ; absent strings are not in the domain
          pc, reg, \* per goroutine: control point and registers of the call in flight
          ops,     \* per goroutine: calls started
          abs,     \* monitor: string -> id, the ids that completed calls have revealed
          abs0,    \* monitor: per goroutine, was the string already in abs when the call started
          issued   \* id -> string, ids returned so far (what clients may pass to Value)
ivars == <<index, pc, reg, ops, abs, abs0, issued>>
allvars == <<lvars, ivars>>

Reg0 == [op |-> "none", s |-> <<>>, arg |-> 0, id |-> 0, ok |-> FALSE, res |-> <<>>, spin |-> 0]
Range(f) == {f[x] : x \in DOMAIN f}

IInit == /\ LInit
         /\ index = << >> /\ abs = << >> /\ issued = << >>
         /\ pc = [g \in Procs |-> "idle"] /\ reg = [g \in Procs |-> Reg0]
         /\ ops = [g \in Procs |-> 0] /\ abs0 = [g \in Procs |-> FALSE]

Goto(g, to) == pc' = [pc EXCEPT ![g] = to]
Absent(s) == s \notin DOMAIN index

(* ------------------------------- monitor (from the statement) ------------------------------- *)
InFlightIntern(s, g) == \E h \in Procs \ {g} : pc[h] # "idle" /\ reg[h].op = "intern" /\ reg[h].s = s

MonCall(g, s) == abs0' = [abs0 EXCEPT ![g] = s \in DOMAIN abs]

(* is the return value in register record r acceptable for goroutine g, and what does it reveal *)
MonOKr(g, r) ==
  CASE r.op = "intern" ->
         IF Inlineable(r.s) THEN r.id = Encode(r.s)
         ELSE /\ r.id > 0
              /\ IF r.s \in DOMAIN abs THEN r.id = abs[r.s] ELSE r.id \notin Range(abs)
    [] r.op = "query" ->
         IF Inlineable(r.s) THEN r.ok /\ r.id = Encode(r.s)
         ELSE IF r.ok
              THEN /\ r.id > 0
                   /\ IF r.s \in DOMAIN abs THEN r.id = abs[r.s]
                      ELSE r.id \notin Range(abs) /\ InFlightIntern(r.s, g)
              ELSE r.id = 0 /\ ~abs0[g]
    [] r.op = "value" ->
         IF r.arg <= 0 THEN r.res = Decode(r.arg)
         ELSE \E s \in DOMAIN abs : abs[s] = r.arg /\ r.res = s
    [] OTHER -> FALSE
MonOK(g) == MonOKr(g, reg[g])
MonReveals(r) ==
  r.op \in {"intern", "query"} /\ ~Inlineable(r.s) /\ r.id > 0 /\ r.s \notin DOMAIN abs
MonRetR(g, r) ==
  /\ MonOKr(g, r)
  /\ abs' = IF MonReveals(r) THEN (r.s :> r.id) @@ abs ELSE abs
  /\ issued' = IF r.op = "intern" \/ (r.op = "query" /\ r.ok) THEN (r.id :> r.s) @@ issued ELSE issued
MonRet(g) == MonRetR(g, reg[g])

(* ------------------------------------- calls ------------------------------------------------ *)
Call(g, op, s, arg) ==
  /\ pc[g] = "idle" /\ ops[g] < MaxOps
  /\ ops' = [ops EXCEPT ![g] = @ + 1]
  /\ MonCall(g, s)
  /\ UNCHANGED <<index, abs, issued>>
  /\ CASE op = "value" /\ arg > 0 ->
            /\ reg' = [reg EXCEPT ![g] = [Reg0 EXCEPT !.op = op, !.arg = arg]]
            /\ Goto(g, "load") /\ LoadBegin(g, arg - 1)
       [] op = "value" /\ arg <= 0 ->
            /\ reg' = [reg EXCEPT ![g] = [Reg0 EXCEPT !.op = op, !.arg = arg, !.res = Decode(arg)]]
            /\ Goto(g, "ret") /\ UNCHANGED lvars
       [] op \in {"intern", "query"} /\ Inlineable(s) ->
            /\ reg' = [reg EXCEPT ![g] = [Reg0 EXCEPT !.op = op, !.s = s, !.id = Encode(s), !.ok = TRUE]]
            /\ Goto(g, "ret") /\ UNCHANGED lvars
       [] op \in {"intern", "query"} /\ ~Inlineable(s) ->
            /\ reg' = [reg EXCEPT ![g] = [Reg0 EXCEPT !.op = op, !.s = s]]
            /\ Goto(g, "q.load") /\ UNCHANGED lvars

(* after a Query that found nothing: Query returns, Intern goes on to internSlow *)
Miss(g) == IF reg[g].op = "query" THEN "ret" ELSE "los"

QLoad(g) == /\ pc[g] = "q.load"
            /\ Goto(g, IF Absent(reg[g].s) THEN Miss(g) ELSE "q.read")
            /\ UNCHANGED <<lvars, index, reg, ops, abs, abs0, issued>>

QRead(g) == /\ pc[g] = "q.read"
            /\ LET id == index[reg[g].s] IN
               IF id = 0 THEN Goto(g, Miss(g)) /\ UNCHANGED reg
               ELSE Goto(g, "ret") /\ reg' = [reg EXCEPT ![g].id = id, ![g].ok = TRUE]
            /\ UNCHANGED <<lvars, index, ops, abs, abs0, issued>>

Los(g) == /\ pc[g] = "los"
          /\ IF Absent(reg[g].s)
             THEN /\ index' = (reg[g].s :> 0) @@ index
                  /\ Goto(g, "append") /\ AppendBegin(g, reg[g].s)
             ELSE /\ Goto(g, "los.read") /\ UNCHANGED <<index, lvars>>
          /\ UNCHANGED <<reg, ops, abs, abs0, issued>>

LosRead(g) == /\ pc[g] = "los.read"
              /\ LET id == index[reg[g].s] IN
                 IF id = 0
                 THEN Goto(g, "los") /\ reg' = [reg EXCEPT ![g].spin = IF @ < MaxSpin THEN @ + 1 ELSE @]
                 ELSE Goto(g, "ret") /\ reg' = [reg EXCEPT ![g].id = id, ![g].ok = TRUE]
              /\ UNCHANGED <<lvars, index, ops, abs, abs0, issued>>

(* a step of the log on behalf of the Append / Load in flight *)
LogStep(g) == /\ pc[g] \in {"append", "load"}
              /\ LStepFixed(g)
              /\ UNCHANGED ivars
LogGrow(g, nc) == /\ pc[g] = "append" /\ LGCopy(g, nc) /\ UNCHANGED ivars

Commit(g) == /\ pc[g] = "append" /\ AppendReturned(g)
             /\ index' = [index EXCEPT ![reg[g].s] = lreg[g].i + 1]
             /\ reg' = [reg EXCEPT ![g].id = lreg[g].i + 1, ![g].ok = TRUE]
             /\ Goto(g, "ret") /\ LogEnd(g)
             /\ UNCHANGED <<ops, abs, abs0, issued>>

ValueDone(g) == /\ pc[g] = "load" /\ lpc[g] = "ldone"
                /\ reg' = [reg EXCEPT ![g].res = lreg[g].ret]
                /\ Goto(g, "ret") /\ LogEnd(g)
                /\ UNCHANGED <<index, ops, abs, abs0, issued>>

(* Value(id > 0) as the hooks see it: the slot read, the return from Log.Load and the return from
   Value are one logged event (LLRead . ValueDone . Ret) *)
ValueRetFused(g) ==
  /\ pc[g] = "load" /\ lpc[g] = "lread"
  /\ LET l == lreg[g] IN
     /\ l.idx >= 0 /\ l.idx < l.ln /\ l.ln <= Len(heap[l.p])
     /\ LET r == [reg[g] EXCEPT !.res = heap[l.p][l.idx + 1]] IN
        /\ MonRetR(g, r)
        /\ reg' = [reg EXCEPT ![g] = r]
        /\ lreg' = [lreg EXCEPT ![g].ret = r.res]
  /\ Goto(g, "idle") /\ LGoto(g, "idle")
  /\ UNCHANGED <<lshared, index, ops, abs0>>

(* Calls and returns of a run without hooks: only the monitor moves *)
ApiCall(g, op, s, arg) ==
  /\ pc[g] = "idle"
  /\ Goto(g, "api")
  /\ reg' = [reg EXCEPT ![g] = [Reg0 EXCEPT !.op = op, !.s = s, !.arg = arg]]
  /\ MonCall(g, s)
  /\ UNCHANGED <<lvars, index, ops, abs, issued>>
ApiRet(g, id, ok, res) ==
  /\ pc[g] = "api"
  /\ LET r == [reg[g] EXCEPT !.id = id, !.ok = ok, !.res = res] IN
     MonRetR(g, r) /\ reg' = [reg EXCEPT ![g] = r]
  /\ Goto(g, "idle")
  /\ UNCHANGED <<lvars, index, ops, abs0>>

Ret(g) == /\ pc[g] = "ret"
          /\ MonRet(g)
          /\ Goto(g, "idle")
          /\ UNCHANGED <<lvars, index, reg, ops, abs0>>

(* ------------------------------ invariants (from the statement) ----------------------------- *)
Committed == {s \in DOMAIN index : index[s] > 0}
(* ids unique per string *)
IdsUnique == \A s, t \in Committed : index[s] = index[t] => s = t
(* Value(Intern(s)) = s : the published id is a loadable log index holding s *)
Published == [i \in {index[s] - 1 : s \in Committed} |-> CHOOSE s \in Committed : index[s] = i + 1]
ValueOfId == Loadable(Published)
(* every call about to return returns what the statement demands (linearizability of Intern,
   Query true iff interned or inline, Value is the inverse) *)
MonitorAccepts == \A g \in Procs : pc[g] = "ret" => MonOK(g)
(* the monitor's table is the committed part of the index, never ahead of it *)
AbsIsCommitted == \A s \in DOMAIN abs : s \in Committed /\ index[s] = abs[s]
InlineNeverStored == \A s \in DOMAIN index : ~Inlineable(s)
InternReturnsCommitted == \A g \in Procs :
   pc[g] = "ret" /\ reg[g].op = "intern" /\ ~Inlineable(reg[g].s) => reg[g].id = index[reg[g].s]
(* the monitor's own table is one-to-one (checked on traces of runs without hooks, too) *)
AbsInjective == \A s, t \in DOMAIN abs : abs[s] = abs[t] => s = t
IssuedConsistent == \A id \in DOMAIN issued :
   IF id <= 0 THEN issued[id] = Decode(id) ELSE issued[id] \in DOMAIN abs /\ abs[issued[id]] = id
MonSafe == AbsInjective /\ IssuedConsistent
ISafe == /\ MonSafe /\ NoLogPanic /\ IdsUnique /\ ValueOfId /\ MonitorAccepts /\ AbsIsCommitted
         /\ InlineNeverStored /\ InternReturnsCommitted /\ TicketsDense
=============================================================================
