------------------------------- MODULE Features -------------------------------
(* C04.  The Protobuf *editions* feature model and the descriptor attributes derived from it, written from
   the editions design ("Protobuf Editions: Features", "Edition Zero Features", the comments of
   google/protobuf/descriptor.proto on FeatureSet and its edition_defaults / targets, and the documented
   contracts of protoreflect.FieldDescriptor / EnumDescriptor / MessageDescriptor) -- NOT from
   linker/descriptors.go, internal/editions or protodesc.

   A *file value* F is a syntax plus a fixed skeleton of elements with explicit feature overrides:

       file                       F.fov
         enum E                   F.eov    (first value zero iff F.ezero)
         message T  {}            (a message type defined at file level)
         message X  { extensions 100 to 199; }          (not in proto3)
         message M                F.mov
           enum NE                F.neov   (first value zero iff F.nezero)
           message N              F.nov
           <fields / oneof O / extend blocks / sibling messages Grp<k> / map entries>  whose scope is "M" or "N"
         <extend blocks / Grp<k>> whose scope is "file"

   F.fields is a sequence of field specs (see FieldSpecFields).  An override map is a function from a subset of
   FN to feature values.  Everything below is a pure operator over F.                                      *)
EXTENDS Naturals, Sequences, FiniteSets

Syntaxes == {"proto2", "proto3", "editions"}

(* ---------------------------------------------------------------------------------------------------- *)
(* The six features of edition 2023                                                                      *)

FN == {"field_presence", "enum_type", "repeated_field_encoding", "utf8_validation", "message_encoding", "json_format"}
FNSeq == <<"field_presence", "enum_type", "repeated_field_encoding", "utf8_validation", "message_encoding", "json_format">>

Values(f) == CASE f = "field_presence"          -> {"EXPLICIT", "IMPLICIT", "LEGACY_REQUIRED"}
               [] f = "enum_type"               -> {"OPEN", "CLOSED"}
               [] f = "repeated_field_encoding" -> {"PACKED", "EXPANDED"}
               [] f = "utf8_validation"         -> {"VERIFY", "NONE"}
               [] f = "message_encoding"        -> {"LENGTH_PREFIXED", "DELIMITED"}
               [] f = "json_format"             -> {"ALLOW", "LEGACY_BEST_EFFORT"}

(* edition_defaults of descriptor.proto: EDITION_LEGACY (= proto2), EDITION_PROTO3, EDITION_2023 *)
Default(syn, f) ==
  CASE f = "field_presence"          -> IF syn = "proto3" THEN "IMPLICIT" ELSE "EXPLICIT"
    [] f = "enum_type"               -> IF syn = "proto2" THEN "CLOSED" ELSE "OPEN"
    [] f = "repeated_field_encoding" -> IF syn = "proto2" THEN "EXPANDED" ELSE "PACKED"
    [] f = "utf8_validation"         -> IF syn = "proto2" THEN "NONE" ELSE "VERIFY"
    [] f = "message_encoding"        -> "LENGTH_PREFIXED"
    [] f = "json_format"             -> IF syn = "proto2" THEN "LEGACY_BEST_EFFORT" ELSE "ALLOW"

(* `targets` of each feature field in descriptor.proto: where an explicit override may be written *)
Targets(f) == CASE f = "field_presence"          -> {"file", "field"}
                [] f = "enum_type"               -> {"file", "enum"}
                [] f = "repeated_field_encoding" -> {"file", "field"}
                [] f = "utf8_validation"         -> {"file", "field"}
                [] f = "message_encoding"        -> {"file", "field"}
                [] f = "json_format"             -> {"file", "message", "enum"}

EditionNumber(syn) == CASE syn = "proto2" -> 998 [] syn = "proto3" -> 999 [] syn = "editions" -> 1000

NoOv == <<>>                                 \* the empty override map
IsOv(ov) == /\ DOMAIN ov \subseteq FN /\ \A f \in DOMAIN ov : ov[f] \in Values(f)
OvFor(kind, ov) == \A f \in DOMAIN ov : kind \in Targets(f)

(* ---------------------------------------------------------------------------------------------------- *)
(* Inheritance: an element's feature is its own override, else its lexical parent's resolved value,      *)
(* else ... the file's override, else the default of the file's edition.  `chain` lists the override     *)
(* maps from the element outwards to the file.                                                           *)

RECURSIVE Walk(_, _, _)
Walk(chain, syn, f) == IF chain = <<>> THEN Default(syn, f)
                       ELSE IF f \in DOMAIN Head(chain) THEN Head(chain)[f]
                       ELSE Walk(Tail(chain), syn, f)

Scopes == {"file", "M", "N"}
(* override maps of the lexical ancestors of something declared in `scope`, innermost first *)
ScopeChain(F, scope) == CASE scope = "file" -> <<F.fov>>
                          [] scope = "M"    -> <<F.mov, F.fov>>
                          [] scope = "N"    -> <<F.nov, F.mov, F.fov>>
ScopeFQN(scope) == CASE scope = "file" -> "pkg" [] scope = "M" -> "pkg.M" [] scope = "N" -> "pkg.M.N"

(* ---------------------------------------------------------------------------------------------------- *)
(* Field specs                                                                                           *)

Types == {"int32", "string", "bytes", "enumE", "enumNE", "message", "group"}
(* a field spec is a record with these components plus `ov`, the field's own override map: *)
FieldSpecFields == [type   : Types,                      \* "group" = proto2 group syntax
               rep    : BOOLEAN,                         \* `repeated`
               mapkey : {"", "string", "int32"},         \* # "" : map<mapkey, type>
               lab    : {"none", "optional", "required"},\* keyword written in the source (singular fields)
               where  : {"plain", "oneof", "ext"},
               scope  : Scopes,                          \* lexical scope of the declaration
               tgt    : {"", "T", "G"},                  \* message-typed: pkg.T, or a sibling message Grp<k> declared in `scope`
               lname  : BOOLEAN,                         \* the field is named like its message type in lower case
               packed : {"unset", "true", "false"},      \* [packed = ...]   (proto2 / proto3 only)
               dflt   : BOOLEAN]                         \* [default = ...]

IsMap(s) == s.mapkey # ""
IsRepeated(s) == s.rep \/ IsMap(s)
IsMsgTyped(s) == s.type \in {"message", "group"} \/ IsMap(s)
IsEnumTyped(s) == s.type \in {"enumE", "enumNE"}
Packable(s) == ~IsMap(s) /\ s.type \in {"int32", "enumE", "enumNE"}      \* numeric, bool and enum types; never string / bytes / message

(* features the legacy syntaxes spell with keywords / options ("feature inference" of the editions design):
   proto2 `required` = LEGACY_REQUIRED, proto3 `optional` = EXPLICIT, proto2 group = DELIMITED, [packed = true / false] =
   PACKED / EXPANDED.  "" = nothing inferred for feature f. *)
Inferred(syn, s, f) ==
  CASE f = "field_presence" ->
         IF syn = "proto2" /\ s.lab = "required" THEN "LEGACY_REQUIRED"
         ELSE IF syn = "proto3" /\ s.lab = "optional" THEN "EXPLICIT" ELSE ""
    [] f = "message_encoding" -> IF s.type = "group" THEN "DELIMITED" ELSE ""
    [] f = "repeated_field_encoding" ->
         IF s.packed = "true" THEN "PACKED" ELSE IF s.packed = "false" THEN "EXPANDED" ELSE ""
    [] OTHER -> ""

(* resolved feature of field spec s of file F, as the editions design defines it for every syntax *)
FieldChain(F, s) == <<s.ov>> \o ScopeChain(F, s.scope)
FieldFeature(F, s, f) == LET i == Inferred(F.syntax, s, f) IN
                         IF i # "" THEN i ELSE Walk(FieldChain(F, s), F.syntax, f)

EnumChain(F, e) == IF e = "E" THEN <<F.eov, F.fov>> ELSE <<F.neov, F.mov, F.fov>>
EnumFeature(F, e, f) == Walk(EnumChain(F, e), F.syntax, f)
EnumOfType(t) == IF t = "enumE" THEN "E" ELSE "NE"

(* ---------------------------------------------------------------------------------------------------- *)
(* Derived descriptor attributes                                                                         *)

(* a map entry is a synthesized message; its key / value fields never use delimited encoding, and the map field
   itself is a repeated length-prefixed message field *)
Kind(F, s) ==
  IF IsMap(s) THEN "message"
  ELSE IF s.type = "group" THEN "group"
  ELSE IF s.type = "message" THEN (IF FieldFeature(F, s, "message_encoding") = "DELIMITED" THEN "group" ELSE "message")
  ELSE IF IsEnumTyped(s) THEN "enum"
  ELSE s.type

CardinalityOf(F, s) ==
  IF IsRepeated(s) THEN "repeated"
  ELSE IF FieldFeature(F, s, "field_presence") = "LEGACY_REQUIRED" THEN "required"
  ELSE "optional"

(* explicit presence: a singular field that is an extension, a oneof member (proto3 `optional` makes the field the
   only member of a synthetic oneof), message-typed, or whose field_presence is not IMPLICIT *)
HasPresence(F, s) ==
  /\ ~IsRepeated(s)
  /\ \/ s.where \in {"ext", "oneof"}
     \/ IsMsgTyped(s)
     \/ FieldFeature(F, s, "field_presence") # "IMPLICIT"

IsPacked(F, s) == IsRepeated(s) /\ Packable(s) /\ FieldFeature(F, s, "repeated_field_encoding") = "PACKED"

IsClosed(F, e) == EnumFeature(F, e, "enum_type") = "CLOSED"

HasOptionalKeyword(s) == s.lab = "optional"
InSyntheticOneof(F, s) == F.syntax = "proto3" /\ s.lab = "optional" /\ s.where = "plain"

(* text-format name: group-like fields (delimited, named like the lower-cased message type, message declared in the
   same scope as the field) are called by their type name *)
SiblingType(s) == s.tgt = "G" \/ (s.tgt = "T" /\ s.where = "ext" /\ s.scope = "file")
GroupLike(F, s) == Kind(F, s) = "group" /\ s.lname /\ SiblingType(s)

EnforceUTF8(F, s) == FieldFeature(F, s, "utf8_validation") = "VERIFY"

(* position-dependent names and numbers *)
Letters == <<"a", "b", "c", "d">>
Upper(l) == CASE l = "a" -> "A" [] l = "b" -> "B" [] l = "c" -> "C" [] l = "d" -> "D"
GrpName(k) == "Grp" \o Letters[k]
TypeName(s, k) == IF s.tgt = "G" THEN GrpName(k) ELSE "T"
FieldName(s, k) == IF s.lname THEN (IF s.tgt = "G" THEN "grp" \o Letters[k] ELSE "t") ELSE "f_" \o Letters[k]
JsonName(s, k) == IF s.lname THEN FieldName(s, k) ELSE "f" \o Upper(Letters[k])          \* lowerCamelCase
EntryName(k) == "F" \o Upper(Letters[k]) \o "Entry"
FieldNumber(F, s, k) == IF s.where = "ext" THEN (IF F.syntax = "proto3" THEN 50000 + k ELSE 100 + k) ELSE k
Extendee(F) == IF F.syntax = "proto3" THEN "google.protobuf.MessageOptions" ELSE "pkg.X"
FieldFQN(s, k) == ScopeFQN(s.scope) \o "." \o FieldName(s, k)
TextName(F, s, k) == IF s.where = "ext" THEN "[" \o FieldFQN(s, k) \o "]"
                     ELSE IF GroupLike(F, s) THEN TypeName(s, k) ELSE FieldName(s, k)

Idx(F) == 1..Len(F.fields)
MemberIdx(F, scope) == {k \in Idx(F) : F.fields[k].where # "ext" /\ F.fields[k].scope = scope}
SeqOfSet(S) == LET RECURSIVE R(_) R(T) == IF T = {} THEN <<>> ELSE LET m == CHOOSE x \in T : \A y \in T : x <= y IN <<m>> \o R(T \ {m}) IN R(S)

(* numbers of the required fields of message `scope`, in declaration order *)
RequiredNumbers(F, scope) ==
  LET ks == SeqOfSet({k \in MemberIdx(F, scope) : CardinalityOf(F, F.fields[k]) = "required"})
  IN [i \in 1..Len(ks) |-> FieldNumber(F, F.fields[ks[i]], ks[i])]

(* ---------------------------------------------------------------------------------------------------- *)
(* Which file values the language accepts (protoc's rules, as far as this skeleton can break them)        *)

ShapeOK(syn, s) ==
  /\ (s.type = "group") => (syn = "proto2" /\ s.tgt = "G" /\ s.lname)
  /\ (s.tgt # "") <=> (s.type \in {"message", "group"})
  /\ s.lname => s.tgt # ""
  /\ IsMap(s) => /\ ~s.rep /\ s.where = "plain" /\ s.lab = "none" /\ s.type \in {"int32", "string", "enumE", "message"}
                 /\ s.tgt \in {"", "T"} /\ ~s.lname
  /\ (s.where = "oneof") => (~s.rep /\ s.lab = "none")
  /\ (s.where # "ext") => s.scope # "file"
  /\ s.rep => s.lab = "none"
  /\ (~IsRepeated(s) /\ s.where # "oneof") =>
        CASE syn = "proto2"   -> s.lab \in (IF s.where = "ext" THEN {"optional"} ELSE {"optional", "required"})
          [] syn = "proto3"   -> s.lab \in {"none", "optional"}
          [] syn = "editions" -> s.lab = "none"
  /\ (s.packed # "unset") => (syn # "editions" /\ s.rep /\ Packable(s))
  /\ s.dflt => /\ syn # "proto3" /\ ~IsRepeated(s) /\ ~IsMsgTyped(s)
  /\ IsOv(s.ov) /\ OvFor("field", s.ov)
  /\ (s.ov # NoOv) => syn = "editions"
  /\ ("field_presence" \in DOMAIN s.ov) =>
        /\ s.where = "plain" /\ ~IsRepeated(s)
        /\ IsMsgTyped(s) => s.ov["field_presence"] # "IMPLICIT"
  /\ ("repeated_field_encoding" \in DOMAIN s.ov) =>
        /\ IsRepeated(s)
        /\ (s.ov["repeated_field_encoding"] = "PACKED") => Packable(s)
  /\ ("utf8_validation" \in DOMAIN s.ov) => (s.type = "string" \/ s.mapkey = "string")
  /\ ("message_encoding" \in DOMAIN s.ov) => (s.type = "message" /\ ~IsMap(s))

(* structural validity: well-formed and well-targeted overrides, admissible field shapes, unique names *)
Core(F) ==
  /\ F.syntax \in Syntaxes
  /\ \A o \in {F.fov, F.eov, F.neov, F.mov, F.nov} : IsOv(o) /\ (o # NoOv => F.syntax = "editions")
  /\ OvFor("file", F.fov) /\ OvFor("enum", F.eov) /\ OvFor("enum", F.neov) /\ OvFor("message", F.mov) /\ OvFor("message", F.nov)
  /\ ("field_presence" \in DOMAIN F.fov) => F.fov["field_presence"] # "LEGACY_REQUIRED"     \* not as a file default
  /\ \A k \in Idx(F) : ShapeOK(F.syntax, F.fields[k])
  \* names are unique per scope: at most one field called "t" in a scope
  /\ \A k1, k2 \in Idx(F) : (k1 # k2 /\ F.fields[k1].lname /\ F.fields[k2].lname /\ F.fields[k1].tgt = "T" /\ F.fields[k2].tgt = "T")
                               => F.fields[k1].scope # F.fields[k2].scope

(* rules on *resolved* features and enum numbering.  A file value that breaks one of them is rejected by protoc; the
   generator also exports file values that break exactly one (flagged), because the property quantifies over what the
   compiler under test accepts: if it accepts such a file the runtime must still accept the result. *)
EnumZero(F, e) == IF e = "E" THEN F.ezero ELSE F.nezero
RuleIds == {"open-enum-first-zero", "implicit-field-closed-enum", "implicit-field-default", "map-value-closed-enum-implicit",
            "map-value-enum-first-zero"}
RuleHolds(F, r) ==
  CASE r = "open-enum-first-zero" ->            \* an open enum starts at zero
         \A e \in {"E", "NE"} : (~IsClosed(F, e)) => EnumZero(F, e)
    [] r = "implicit-field-closed-enum" ->      \* a singular field without presence needs an open enum
         \A k \in Idx(F) : LET s == F.fields[k] IN
            (IsEnumTyped(s) /\ ~IsRepeated(s) /\ ~HasPresence(F, s)) => ~IsClosed(F, EnumOfType(s.type))
    [] r = "implicit-field-default" ->          \* ... and cannot have a default
         \A k \in Idx(F) : F.fields[k].dflt => HasPresence(F, F.fields[k])
    [] r = "map-value-closed-enum-implicit" ->  \* the value field of a map entry is such a singular field
         \A k \in Idx(F) : LET s == F.fields[k] IN
            (IsMap(s) /\ IsEnumTyped(s) /\ FieldFeature(F, s, "field_presence") = "IMPLICIT") => ~IsClosed(F, EnumOfType(s.type))
    [] r = "map-value-enum-first-zero" ->       \* "enum value in map must define 0 as the first value"
         \A k \in Idx(F) : LET s == F.fields[k] IN (IsMap(s) /\ IsEnumTyped(s)) => EnumZero(F, EnumOfType(s.type))
Broken(F) == {r \in RuleIds : ~RuleHolds(F, r)}

Valid(F) == Core(F) /\ Broken(F) = {}
=============================================================================
