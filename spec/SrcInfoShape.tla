---------------------------- MODULE SrcInfoShape ----------------------------
(* C23 ground truth per FileFeatures case: the SHAPE (SrcInfoPaths) of the FileDescriptorProto
   that main.proto of a (syntax, feature set) workspace compiles to, i.e. how many elements every
   repeated field outside options has, and which custom options / option message types exist.
   Written from what each language feature contributes to a file (the concrete text of a feature
   lives in harness/_common/featgen; the driver measures the shape of the really compiled
   descriptor and any difference is a generator/spec mismatch, exit 2, never a verdict).

   Element counts contributed by each feature:
     always     message Top { id, name }
     stdopt     Top.nums                      nested     Top.Inner{v}, Top.Kind{2 values}, Top.inner, Top.kind
     map        Top.m + its entry message{key, value}
     group      one nested message {g} + one field (proto2 group / editions DELIMITED message)
     oneof      oneof choice { a, b }         p3opt      Top.maybe + its synthetic oneof
     extrange   one extension range           reserved   Top: 2 ranges + 2 names; TopEnum: 1 range + 1 name
     default    dflt, ds, db, dd, di, fi (+ dk with nested)
     required   req      features  implicit   import     d, de          public   dp
     enum       enum TopEnum { 3 values }     extend     2 file-level extensions
     service    messages Req, Resp; service Svc { 2 methods }
     customopt  message OptSub { leaf, names, sub }; 4 file-level extensions (fopt, mopt, mopt2, fldopt)
     srcret     1 more file-level extension (srcopt)
     extgroup   after Top: message ExtGrp{eg} (a group declared in a file-level `extend`: 1 more file-level
                extension), message ExtHolder with nested NestedExtGrp{neg} and 1 nested extension
     jsoncollide  Top.foo_bar, Top.fooBar
     mapfeatures  Top.mf1, Top.mf2 + their two entry messages{key, value} (after the group's message)  *)
EXTENDS FileFeatures

N(b) == IF b THEN 1 ELSE 0
Leaf0 == [k |-> <<>>, c |-> <<>>]
Leaves(n) == IF n = 0 THEN <<>> ELSE [i \in 1..n |-> Leaf0]

(* node from <<num, children>> pairs (ascending field numbers); fields without elements are dropped *)
RECURSIVE DropEmpty(_)
DropEmpty(ps) == IF ps = <<>> THEN <<>>
                 ELSE IF Head(ps)[2] = <<>> THEN DropEmpty(Tail(ps)) ELSE <<Head(ps)>> \o DropEmpty(Tail(ps))
Node(pairs) == LET ps == DropEmpty(pairs)
               IN IF ps = <<>> THEN Leaf0
                  ELSE [k |-> [i \in DOMAIN ps |-> ps[i][1]], c |-> [i \in DOMAIN ps |-> ps[i][2]]]

MsgWithFields(n) == Node(<< <<2, Leaves(n)>> >>)
EnumWith(values, ranges, names) == Node(<< <<2, Leaves(values)>>, <<4, Leaves(ranges)>>, <<5, Leaves(names)>> >>)

TopFields(fs) ==
  2 + N("stdopt" \in fs) + 2 * N("nested" \in fs) + N("map" \in fs) + N("group" \in fs) + 2 * N("oneof" \in fs)
    + N("p3opt" \in fs) + 6 * N("default" \in fs) + N("default" \in fs /\ "nested" \in fs) + N("required" \in fs)
    + N("features" \in fs) + 2 * N("import" \in fs) + N("public" \in fs)
    + 2 * N("jsoncollide" \in fs) + 2 * N("mapfeatures" \in fs)

TopShape(fs) ==
  Node(<< <<2, Leaves(TopFields(fs))>>,
          <<3, (IF "nested" \in fs THEN <<MsgWithFields(1)>> ELSE <<>>)
               \o (IF "map" \in fs THEN <<MsgWithFields(2)>> ELSE <<>>)
               \o (IF "group" \in fs THEN <<MsgWithFields(1)>> ELSE <<>>)
               \o (IF "mapfeatures" \in fs THEN <<MsgWithFields(2), MsgWithFields(2)>> ELSE <<>>)>>,
          <<4, IF "nested" \in fs THEN <<EnumWith(2, 0, 0)>> ELSE <<>> >>,
          <<5, Leaves(N("extrange" \in fs))>>,
          <<8, Leaves(N("oneof" \in fs) + N("p3opt" \in fs))>>,
          <<9, Leaves(2 * N("reserved" \in fs))>>,
          <<10, Leaves(2 * N("reserved" \in fs))>> >>)

Shape(s, fs) ==
  Node(<< <<3, Leaves(Len(Deps(fs)))>>,
          <<4, <<TopShape(fs)>>
               \o (IF "extgroup" \in fs
                     THEN <<MsgWithFields(1), Node(<< <<3, <<MsgWithFields(1)>> >>, <<6, Leaves(1)>> >>)>> ELSE <<>>)
               \o (IF "service" \in fs THEN <<Leaf0, Leaf0>> ELSE <<>>)
               \o (IF "customopt" \in fs THEN <<MsgWithFields(3)>> ELSE <<>>)>>,
          <<5, IF "enum" \in fs THEN <<EnumWith(3, N("reserved" \in fs), N("reserved" \in fs))>> ELSE <<>> >>,
          <<6, IF "service" \in fs THEN <<Node(<< <<2, Leaves(2)>> >>)>> ELSE <<>> >>,
          <<7, Leaves(2 * N("extend" \in fs) + N("extgroup" \in fs) + 4 * N("customopt" \in fs) + N("srcret" \in fs))>> >>)

(* hand-written linkable skeletons of LayoutSkel (text in harness/srcinfo/layout.go):
     t1   import "dep.proto"; message A { f, d }; enum E { 1 value }; two file options last *)
LocalSkels == {"t1"}
LocalShape(id) == Node(<< <<3, Leaves(1)>>, <<4, <<MsgWithFields(2)>> >>, <<5, <<EnumWith(1, 0, 0)>> >> >>)

(* custom options: <<extendee options message, number, type, repeated>> *)
Exts(fs) ==
  IF "customopt" \notin fs THEN {}
  ELSE {<<"FileOptions", 50001, "scalar", FALSE>>, <<"MessageOptions", 50002, "OptSub", FALSE>>,
        <<"MessageOptions", 50003, "OptSub", FALSE>>, <<"FieldOptions", 50004, "scalar", FALSE>>}
       \cup (IF "srcret" \in fs THEN {<<"FieldOptions", 50005, "scalar", FALSE>>} ELSE {})
(* message types option values are made of: <<message, number, type, repeated>> *)
Custom(fs) ==
  IF "customopt" \notin fs THEN {}
  ELSE {<<"OptSub", 1, "scalar", FALSE>>, <<"OptSub", 2, "scalar", TRUE>>, <<"OptSub", 3, "OptSub", FALSE>>}
=============================================================================
