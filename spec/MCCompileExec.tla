--------------------------- MODULE MCCompileExec ---------------------------
(* Exhaustive configurations for CompileExec: every import graph over Files with at most two
   imports per file (self-imports, 2- and 3-cycles, diamonds, chains included), every request
   sequence of distinct files, fault plans with at most one faulty file.                   *)
EXTENDS CompileExec, Json, Randomization
CONSTANT Pars,        \* set of parallelism settings to explore
         SampleSize   \* 0 = every graph; otherwise a TLC -seed dependent sample of that many graphs

Pairs == {<<a, b>> : a, b \in Files} \ {<<a, a>> : a \in Files}
ImportLists == {<<>>} \cup {<<a>> : a \in Files} \cup Pairs
AllGraphs == [Files -> ImportLists]
Graphs == IF SampleSize = 0 THEN AllGraphs ELSE RandomSubset(SampleSize, AllGraphs)
Triples == {s \in [1..3 -> Files] : Cardinality({s[1], s[2], s[3]}) = 3}
ReqSeqs == {<<a>> : a \in Files} \cup Pairs \cup Triples
ReqSeqsSmall == {<<a>> : a \in Files} \cup Pairs
AllOk == [f \in Files |-> "ok"]
OneFault(kinds) == {[f \in Files |-> IF f = g THEN k ELSE "ok"] : g \in Files, k \in kinds}

ConfigsNoFault == {[imports |-> g, req |-> r, plan |-> AllOk, par |-> n, ovr |-> FALSE] : g \in Graphs, r \in ReqSeqs, n \in Pars}
ConfigsNoFaultSmall == {[imports |-> g, req |-> r, plan |-> AllOk, par |-> n, ovr |-> FALSE] : g \in Graphs, r \in ReqSeqsSmall, n \in Pars}
ConfigsMissing == {[imports |-> g, req |-> r, plan |-> p, par |-> n, ovr |-> FALSE] :
                     g \in Graphs, r \in ReqSeqsSmall, p \in {AllOk} \cup OneFault({"err"}), n \in Pars}
ConfigsFaults  == {[imports |-> g, req |-> r, plan |-> p, par |-> n, ovr |-> FALSE] :
                     g \in Graphs, r \in ReqSeqsSmall, p \in {AllOk} \cup OneFault({"err", "panic", "short"}), n \in Pars}

(* override of descriptor.proto: DP imports nothing, is never imported explicitly; the other files
   form every graph over Files \ {DP} *)
NonDP == Files \ {DP}
PairsN == {<<a, b>> : a, b \in NonDP} \ {<<a, a>> : a \in NonDP}
ListsN == {<<>>} \cup {<<a>> : a \in NonDP} \cup PairsN
GraphsOvr == {g \in [Files -> ListsN] : g[DP] = <<>>}
ReqN == {<<a>> : a \in NonDP} \cup PairsN
ConfigsOvr == {[imports |-> g, req |-> r, plan |-> p, par |-> n, ovr |-> TRUE] :
                 g \in GraphsOvr, r \in ReqN, p \in {AllOk} \cup OneFault({"err"}), n \in Pars}

(* Direction A: one case per configuration, with the outcomes the statements allow *)
Case == [imports |-> imports, req |-> req, plan |-> plan, par |-> par, ovr |-> ovr,
         allowed |-> AllowedNoCancel, hasCycle |-> HasCycle, hasFault |-> HasFault]
Export == (mpc = "start") => PrintT("CASE " \o ToJson(Case))
=============================================================================
