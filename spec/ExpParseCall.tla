------------------------------- MODULE ExpParseCall -------------------------------
(* C28 -- "For any source text, the experimental lexer and parser finish without an internal
   compiler error or panic.  Parsing reports success exactly when no error diagnostics were
   produced, and every diagnostic span lies inside the file."

   One call of experimental/parser.Parse observed at call return:
        Call(len) ; Diag(level, spans, edits)* ; Return(ok, file)
   A Panic or Hang event is no action of this specification.

   Levels (experimental/report): ICE = 1 < Error = 2 < Warning = 3 < Remark = 4; "an error
   diagnostic" is any diagnostic of level Error or worse (ICE counts as worse).
   spans:  <<s, t>> byte offsets of every annotation of the diagnostic
   edits:  <<as, at, es, et>> a suggested edit [es, et) relative to its annotation [as, at)      *)
EXTENDS Naturals, Sequences, FiniteSets

ICE == 1   Error == 2   Warning == 3   Remark == 4
NoDiag == 5
Min(a, b) == IF a < b THEN a ELSE b

VARIABLES len,     \* byte length of the file
          phase,   \* "idle" | "running" | "returned"
          worst,   \* numerically smallest level reported so far (NoDiag when none)
          ndiag
pvars == <<len, phase, worst, ndiag>>

Init == len = 0 /\ phase = "idle" /\ worst = NoDiag /\ ndiag = 0

Failed(checks) == {c \in DOMAIN checks : ~checks[c]}

CallChecks(l) == [ call_when_idle |-> phase \in {"idle", "returned"} ]
CallEffect(l) == len' = l /\ phase' = "running" /\ worst' = NoDiag /\ ndiag' = 0
Call(l) == Failed(CallChecks(l)) = {} /\ CallEffect(l)

SpanInside(sp)  == sp[1] >= 0 /\ sp[1] <= sp[2] /\ sp[2] <= len
EditInside(ed)  == ed[3] >= 0 /\ ed[3] <= ed[4] /\ ed[4] <= ed[2] - ed[1]

DiagChecks(level, spans, edits) ==
  [ diag_while_running |-> phase = "running",
    level_valid        |-> level \in ICE..Remark,
    no_ice             |-> level # ICE,                                   \* no internal compiler error
    spans_inside_file  |-> \A k \in DOMAIN spans : SpanInside(spans[k]),  \* start <= end, inside the file
    edits_inside_span  |-> \A k \in DOMAIN edits : EditInside(edits[k]) ]
DiagEffect(level, spans, edits) ==
  /\ worst' = Min(worst, level) /\ ndiag' = ndiag + 1 /\ UNCHANGED <<len, phase>>
Diag(level, spans, edits) == Failed(DiagChecks(level, spans, edits)) = {} /\ DiagEffect(level, spans, edits)

(* success exactly when no diagnostic of level Error or worse was produced *)
ExpectedOk == worst > Error

ReturnChecks(ok, file) ==
  [ return_while_running |-> phase = "running",
    ok_iff_no_error      |-> ok = ExpectedOk,
    file_returned        |-> file ]
ReturnEffect(ok, file) == phase' = "returned" /\ UNCHANGED <<len, worst, ndiag>>
Return(ok, file) == Failed(ReturnChecks(ok, file)) = {} /\ ReturnEffect(ok, file)

TypeOK == /\ len \in Nat /\ ndiag \in Nat /\ worst \in ICE..NoDiag
          /\ phase \in {"idle", "running", "returned"}
(* along behaviours of this specification no ICE is ever recorded *)
NeverICE == worst # ICE
=============================================================================
