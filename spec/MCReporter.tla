----------------------------- MODULE MCReporter -----------------------------
EXTENDS Reporter, Json, TLC
MCItemSeqs == {<<>>, <<"E">>, <<"S">>, <<"W">>, <<"N">>, <<"E", "E">>, <<"S", "S">>, <<"W", "E">>, <<"E", "W">>, <<"E", "E", "E">>}
MustFail == \E t \in Tasks : \E i \in 1..Len(items[t]) : items[t][i] \in {"E", "S", "N"}
MaxErrs == LET n(t) == Cardinality({i \in 1..Len(items[t]) : items[t][i] \in {"E", "S"}}) IN
           IF Tasks = {} THEN 0 ELSE n(CHOOSE t \in Tasks : \A u \in Tasks : n(u) <= n(t))
Case == [items |-> items, abortAt |-> abortAt, mustFail |-> MustFail]
IsInit == tpc = [t \in Tasks |-> "idle"] /\ nerr = 0 /\ nwarn = 0 /\ mres = "running" /\ lock = "free"
            /\ tres = [t \in Tasks |-> "running"] /\ chRep = [t \in Tasks |-> FALSE]
Export == IsInit => PrintT("CASE " \o ToJson(Case))
=============================================================================
