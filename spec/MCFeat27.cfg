SPECIFICATION Spec
INVARIANTS Export
CHECK_DEADLOCK FALSE
