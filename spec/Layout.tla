------------------------------- MODULE Layout -------------------------------
(* C11 (and layout-shaped inputs for C23): a source file as a sequence of ITEMS.

   A SKELETON (LayoutSkel) is the token sequence of a valid file: toks[j] = <<text, class>> (plus the
   UTF-8 byte length when the text holds <U+XXXX> placeholders) with
   class "w" (identifier / keyword / number), "s" (string literal), "p" (punctuation), and a default
   white-space run for every GAP: gaps[g + 1] for gap g \in 0..n, gap 0 before the first token, gap g
   between token g and token g + 1, gap n before the end of the file.

   A LAYOUT replaces the content of some gaps by a sequence of trivia CHOICES; a choice expands to
   primitive trivia ITEMS:
       SP TAB LF CRLF CR FF VT   one white-space character (CRLF: two)
       BLANK                     -> LF LF       (an empty line)
       LC / LCR                  -> a line comment followed by LF / by CRLF
       LCE                       -> a line comment ended by the end of the file (last choice of gap n only)
       BC BCM BCE DOC            block comment / with multi-byte text / empty `/**/` / doc-style multi-line
       BOM                       a UTF-8 byte order mark (first choice of gap 0 only)
   Comments carry a number (10 * gap + position in the gap) in their text, so every comment of a
   file is distinct and the numbers increase through the file.  Trivia never changes the token sequence: every replaced gap is non-empty,
   which also keeps adjacent word tokens apart, and a line comment always brings its own line end.

   By construction   source = Concat(Text(item) : item \in Items)   -- the oracle of C11:
     (1) printing the AST (leading comments and white space, raw text, trailing comments of every
         terminal in order, then the trivia before EOF) must give Concat again, except for the BOM;
     (2) the tokens and comments the AST reports, in order, are exactly the token / comment items.

   Characters that TLA+ strings cannot hold are written <U+XXXX> in Text and replaced by the
   driver (a homomorphism, so Concat commutes with it); ByteLen counts the real UTF-8 bytes.      *)
EXTENDS Naturals, Integers, Sequences, FiniteSets, TLC

WsKinds      == {"SP", "TAB", "LF", "CRLF", "CR", "FF", "VT"}
CommentKinds == {"LC", "BC", "BCM", "BCE", "DOC"}
AllChoices   == WsKinds \cup {"BLANK", "LC", "LCR", "LCE", "BC", "BCM", "BCE", "DOC", "BOM"}

Expand(c) == CASE c = "BLANK" -> <<"LF", "LF">>
               [] c = "LC"    -> <<"LC", "LF">>
               [] c = "LCR"   -> <<"LC", "CRLF">>
               [] c = "LCE"   -> <<"LC">>
               [] OTHER       -> <<c>>

(* an item is <<kind, n>>: kind "TOK" with n = token index, a comment kind with n = its number,
   or a white-space kind / "BOM" with n = 0 *)
IsComment(it) == it[1] \in CommentKinds
IsToken(it)   == it[1] = "TOK"

Num(n) == ToString(n)
Text(sk, it) ==
  CASE it[1] = "TOK"  -> sk.toks[it[2]][1]
    [] it[1] = "SP"   -> " "
    [] it[1] = "TAB"  -> "\t"
    [] it[1] = "LF"   -> "\n"
    [] it[1] = "CRLF" -> "\r\n"
    [] it[1] = "CR"   -> "\r"
    [] it[1] = "FF"   -> "\f"
    [] it[1] = "VT"   -> "<U+000B>"
    [] it[1] = "BOM"  -> "<U+FEFF>"
    [] it[1] = "LC"   -> "// c" \o Num(it[2])
    [] it[1] = "BC"   -> "/* c" \o Num(it[2]) \o " */"
    [] it[1] = "BCM"  -> "/* c" \o Num(it[2]) \o " <U+00E9><U+20AC><U+1F600> */"
    [] it[1] = "BCE"  -> "/**/"
    [] it[1] = "DOC"  -> "/** d" \o Num(it[2]) \o "\n   * more\n   */"

(* UTF-8 length; a token with non-ASCII characters carries its byte length as a third component *)
TokBytes(tok) == IF Len(tok) = 3 THEN tok[3] ELSE Len(tok[1])
ByteLen(sk, it) ==
  CASE it[1] = "TOK"  -> TokBytes(sk.toks[it[2]])
    [] it[1] = "CRLF" -> 2
    [] it[1] = "BOM"  -> 3
    [] it[1] \in WsKinds -> 1
    [] it[1] = "LC"   -> 4 + Len(Num(it[2]))
    [] it[1] = "BC"   -> 7 + Len(Num(it[2]))
    [] it[1] = "BCM"  -> 5 + Len(Num(it[2])) + (2 + 3 + 4) + 3
    [] it[1] = "BCE"  -> 4
    [] it[1] = "DOC"  -> 5 + Len(Num(it[2])) + 16

(* number of line feeds in an item: the file has 1 + sum of these lines *)
LFs(it) == CASE it[1] \in {"LF", "CRLF"} -> 1 [] it[1] = "DOC" -> 2 [] OTHER -> 0

-----------------------------------------------------------------------------
(* a layout is a sequence of <<gap, <<choices>>>> with strictly increasing gaps *)
NGaps(sk) == Len(sk.toks)          \* gaps are 0..NGaps

RECURSIVE FlatExpand(_)
FlatExpand(cs) == IF cs = <<>> THEN <<>> ELSE Expand(Head(cs)) \o FlatExpand(Tail(cs))

(* kinds of one gap -> items; the k-th item of gap g, when a comment, gets the number 10 * g + k,
   so comment numbers are distinct and increase through the file *)
Numbered(kinds, g) == [k \in DOMAIN kinds |-> <<kinds[k], IF kinds[k] \in CommentKinds THEN 10 * g + k ELSE 0>>]

Replaced(layout, g) == {j \in DOMAIN layout : layout[j][1] = g}
GapItems(sk, layout, g) ==
  LET at == Replaced(layout, g)
  IN Numbered(IF at = {} THEN sk.gaps[g + 1] ELSE FlatExpand(layout[CHOOSE j \in at : TRUE][2]), g)

(* the file:  gap 0, token 1, gap 1, ..., token n, gap n  (divide and conquer keeps it n log n) *)
RECURSIVE Flat(_, _, _, _)
Flat(sk, layout, lo, hi) ==
  IF lo = hi THEN GapItems(sk, layout, lo) \o (IF lo < NGaps(sk) THEN << <<"TOK", lo + 1>> >> ELSE <<>>)
  ELSE LET mid == (lo + hi) \div 2 IN Flat(sk, layout, lo, mid) \o Flat(sk, layout, mid + 1, hi)
Items(sk, layout) == Flat(sk, layout, 0, NGaps(sk))

RECURSIVE ConcatRange(_, _, _, _)
ConcatRange(sk, its, lo, hi) ==
  IF lo > hi THEN "" ELSE IF lo = hi THEN Text(sk, its[lo])
  ELSE LET mid == (lo + hi) \div 2 IN ConcatRange(sk, its, lo, mid) \o ConcatRange(sk, its, mid + 1, hi)
Concat(sk, its) == ConcatRange(sk, its, 1, Len(its))

RECURSIVE SumOver(_, _, _)
SumOver(its, F(_), j) == IF j > Len(its) THEN 0 ELSE F(its[j]) + SumOver(its, F, j + 1)
Bytes(sk, its) == SumOver(its, LAMBDA it : ByteLen(sk, it), 1)
LineFeeds(its) == SumOver(its, LFs, 1)
NComments(its) == SumOver(its, LAMBDA it : IF IsComment(it) THEN 1 ELSE 0, 1)

(* size of the skeleton's own layout: <<bytes, line feeds>> *)
RECURSIVE BaseFrom(_, _, _)
BaseFrom(sk, g, acc) ==
  LET its == GapItems(sk, <<>>, g)
      a2  == <<acc[1] + Bytes(sk, its) + (IF g < NGaps(sk) THEN TokBytes(sk.toks[g + 1]) ELSE 0), acc[2] + LineFeeds(its)>>
  IN IF g = NGaps(sk) THEN a2 ELSE BaseFrom(sk, g + 1, a2)
Base(sk) == BaseFrom(sk, 0, <<0, 0>>)

(* sizes of a layout relative to the skeleton's: sum over the replaced gaps of (new - default) *)
RECURSIVE DeltaFrom(_, _, _, _)
DeltaFrom(sk, layout, j, acc) ==
  IF j > Len(layout) THEN acc
  ELSE LET g   == layout[j][1]
           new == GapItems(sk, layout, g)
           old == GapItems(sk, <<>>, g)
       IN DeltaFrom(sk, layout, j + 1,
                    <<(acc[1] + Bytes(sk, new)) - Bytes(sk, old), (acc[2] + LineFeeds(new)) - LineFeeds(old), acc[3] + NComments(new)>>)
(* <<bytes, line feeds, comments>> of the whole file, given Base(sk) *)
Sizes(sk, base, layout) == DeltaFrom(sk, layout, 1, <<base[1], base[2], 0>>)

-----------------------------------------------------------------------------
(* GAP CLASSES.  ctx = the bracket context between the two neighbours of the gap: a stack over
   "blk" (declaration body), "lit" (message literal), "br" ([...]), "par" ((...)), "ang" (<...>) *)
Push(stack, L, R) ==     \* R is the token being consumed, L its left neighbour ("" at the start)
  CASE R = "[" -> Append(stack, "br")
    [] R = "(" -> Append(stack, "par")
    [] R = "<" -> Append(stack, "ang")
    [] R = "{" -> Append(stack, IF L \in {"=", ":"} \/ \E j \in DOMAIN stack : stack[j] = "lit" THEN "lit" ELSE "blk")
    [] R \in {"]", ")", ">", "}"} -> IF stack = <<>> THEN stack ELSE SubSeq(stack, 1, Len(stack) - 1)
    [] OTHER -> stack

(* j is the index of a "." token; index of the first component of the dotted name it belongs to
   (j itself for a leading dot) *)
RECURSIVE HeadOf(_, _)
HeadOf(sk, j) ==
  IF j = 1 \/ sk.toks[IF j > 1 THEN j - 1 ELSE 1][2] # "w" THEN j
  ELSE IF j >= 3 /\ sk.toks[IF j >= 3 THEN j - 2 ELSE 1][1] = "." THEN HeadOf(sk, j - 2) ELSE j - 1

ClassOf(sk, g, stack) ==
  LET n  == NGaps(sk)
      L  == IF g = 0 THEN "" ELSE sk.toks[g][1]
      R  == IF g = n THEN "" ELSE sk.toks[g + 1][1]
      Lc == IF g = 0 THEN "" ELSE sk.toks[g][2]
      Rc == IF g = n THEN "" ELSE sk.toks[g + 1][2]
      top == IF stack = <<>> THEN "" ELSE stack[Len(stack)]
  IN CASE g = 0 -> "bof"
       [] g = n -> "eof"
       [] Lc = "s" /\ Rc = "s" -> "adjacent-strings"
       [] (L = "." \/ R = ".") /\ sk.toks[HeadOf(sk, IF L = "." THEN g ELSE g + 1)][1] \in {"export", "local"}
                               -> "name-part-kw"    \* inside a dotted name that starts with a contextual keyword
       [] L = "." \/ R = "." -> "name-part"
       [] \E j \in DOMAIN stack : stack[j] = "lit" -> "in-msglit"
       [] top = "br"  -> "in-brackets"
       [] top = "par" -> "in-parens"
       [] top = "ang" -> "in-angle"
       [] R = "}" -> "before-close"
       [] L = ";" -> "after-semi"
       [] L = "{" -> "after-open"
       [] L = "}" -> "after-close"
       [] R = ";" -> "before-semi"
       [] R = "{" -> "before-open"
       [] L = "=" \/ R = "=" -> "around-equals"
       [] OTHER -> "decl"

(* classes of gaps 0..n as a sequence (index g + 1) *)
RECURSIVE ClassesFrom(_, _, _, _)
ClassesFrom(sk, g, stack, acc) ==
  LET acc2 == Append(acc, ClassOf(sk, g, stack))
  IN IF g = NGaps(sk) THEN acc2
     ELSE ClassesFrom(sk, g + 1,
                      Push(stack, IF g = 0 THEN "" ELSE sk.toks[g][1], sk.toks[g + 1][1]), acc2)
Classes(sk) == ClassesFrom(sk, 0, <<>>, <<>>)

(* representatives: the first, second and last gap of every class *)
Reps(cls) ==
  {g \in 0..(Len(cls) - 1) :
     LET same == {h \in 0..(Len(cls) - 1) : cls[h + 1] = cls[g + 1]}
     IN Cardinality({h \in same : h < g}) <= 1 \/ \A h \in same : h <= g}

(* the first gap of every class *)
Firsts(cls) ==
  {g \in 0..(Len(cls) - 1) : \A h \in 0..(g - 1) : cls[h + 1] # cls[g + 1]}

(* where a choice may stand *)
ChoiceOK(sk, g, pos, c) ==
  /\ (c = "BOM" => g = 0 /\ pos = 1)
  /\ (c = "LCE" => g = NGaps(sk))
  \* a comment directly after the token `/` (type URLs) would fuse with it into a comment opener
  /\ ((g > 0 /\ pos = 1 /\ sk.toks[IF g > 0 THEN g ELSE 1][1] = "/") => c \in WsKinds \cup {"BLANK"})
=============================================================================
