-------------------------- MODULE CompileExecTrace --------------------------
(* Trace validation (direction B) for CompileExec: consumes trace.ndjson, one event per line,
   recorded by the build-tagged hooks in compiler.go (see DESIGN.md Appendix A).  Each event is
   matched by exactly one step that re-uses the action of CompileExec with the logged fields
   bound; the design invariants of CompileExec are evaluated in every state along the way.
   Many runs are concatenated: a "Config" event resets the state (only after an "End").       *)
EXTENDS CompileExec, Json

Trace == ndJsonDeserialize("trace.ndjson")
VARIABLES l,      \* next line of the trace
          rw,     \* the cycle reports CERTAINLY in the handler when the caller woke up from its last wait
          firm    \* the cycle reports certainly recorded in the handler: those whose reporting task has
                  \* logged its Done event (the Cycle event itself is logged just BEFORE the handler call)
tvars == <<vars, l, rw, firm>>

Ev == Trace[l]
IsEvent0(e) == l <= Len(Trace) /\ Trace[l].ev = e /\ l' = l + 1
IsEvent1(e) == IsEvent0(e) /\ rw' = rw
IsEvent(e) == IsEvent1(e) /\ firm' = firm
CfgOf(e) == [imports |-> e.imports, req |-> e.req, plan |-> e.plan, par |-> e.par, ovr |-> e.ovr]
Top(f) == stack[f][Len(stack[f])]

TraceInit ==
  /\ Trace[1].ev = "Config"
  /\ l = 2 /\ rw = {} /\ firm = {}
  /\ LET v == InitVal(CfgOf(Trace[1])) IN
    /\ imports = v.imports /\ req = v.req /\ plan = v.plan /\ par = v.par /\ ovr = v.ovr
    /\ created = v.created /\ pc = v.pc /\ idx = v.idx /\ blocked = v.blocked /\ stack = v.stack
    /\ checked = v.checked /\ sem = v.sem /\ holding = v.holding /\ out = v.out
    /\ reports = v.reports /\ mpc = v.mpc /\ midx = v.midx /\ mres = v.mres
    /\ ctxDone = v.ctxDone /\ cancels = v.cancels

(* next run of the batch *)
TConfig ==
  /\ IsEvent0("Config") /\ rw' = {} /\ firm' = {} /\ l > 1 /\ Trace[l - 1].ev = "End"
  /\ LET v == InitVal(CfgOf(Ev)) IN
    /\ imports' = v.imports /\ req' = v.req /\ plan' = v.plan /\ par' = v.par /\ ovr' = v.ovr
    /\ created' = v.created /\ pc' = v.pc /\ idx' = v.idx /\ blocked' = v.blocked /\ stack' = v.stack
    /\ checked' = v.checked /\ sem' = v.sem /\ holding' = v.holding /\ out' = v.out
    /\ reports' = v.reports /\ mpc' = v.mpc /\ midx' = v.midx /\ mres' = v.mres
    /\ ctxDone' = v.ctxDone /\ cancels' = v.cancels

(* compileLocked created a result (under e.mu).  In CompileExec creation is part of MainStart /
   Loop; here it is its own step because the hook under e.mu cannot know the caller.          *)
TCreate ==
  /\ IsEvent("Create")
  /\ LET d == Ev.f IN
     /\ d \notin created
     /\ Ev.explicit = (d \in Requested)      \* a requested file is always registered as explicit (C19 depends on it)
     /\ \/ mpc = "start" /\ d \in Requested
        \/ \E f \in Files : pc[f] = "loop" /\ imports[f][idx[f]] = d /\ d # f
        \/ \E f \in Files : pc[f] = "loopdp" /\ d = DP
     /\ created' = created \cup {d}
     /\ pc' = [pc EXCEPT ![d] = "acq"]
  /\ UNCHANGED <<cfgvars, idx, blocked, stack, checked, sem, holding, out, reports, mpc, midx, mres, ctxDone, cancels>>

TMainStart ==
  /\ IsEvent("MainStart")
  /\ mpc = "start" /\ Ev.files = req /\ Ev.par = par /\ Requested \subseteq created
  /\ mpc' = "wait" /\ midx' = 1
  /\ UNCHANGED <<cfgvars, created, pc, idx, blocked, stack, checked, sem, holding, out, reports, mres, ctxDone, cancels>>

TAcquired == IsEvent("Acquired") /\ AcquireOk(Ev.f)

TParsed ==
  /\ IsEvent("Parsed")
  /\ LET f == Ev.f IN
     /\ pc[f] = "find" /\ plan[f] = "ok" /\ Ev.imports = EffImports(f)
     /\ IF EffImports(f) = <<>> THEN Find(f) ELSE UNCHANGED vars

TSetBlocked ==
  /\ IsEvent("SetBlocked")
  /\ LET f == Ev.f IN
     \/ pc[f] = "find" /\ plan[f] = "ok" /\ Ev.list # <<>> /\ Find(f) /\ blocked'[f] = Ev.list
     \/ pc[f] = "unblock" /\ Ev.list = <<>> /\ Unblock(f)

TLoop ==
  /\ IsEvent("Loop")
  /\ LET f == Ev.f IN
     /\ pc[f] = "loop" /\ imports[f][idx[f]] = Ev.dep /\ Ev.dep # f /\ Ev.dep \in created
     /\ Loop(f)

TLoopDP == IsEvent("LoopDP") /\ DP \in created /\ LoopDP(Ev.f)

TWokeDP ==
  /\ IsEvent("WokeDP")
  /\ \/ Ev.how = "ready" /\ WaitDPReady(Ev.f)
     \/ Ev.how = "ctx" /\ WaitDPCtx(Ev.f)

(* getBlockedOn logs under the result's mutex and does not know the reader: TLC infers it *)
TReadBlocked ==
  /\ IsEvent("ReadBlocked")
  /\ \E f \in Files :
       /\ pc[f] = "chk" /\ ~Top(f).rd /\ Top(f).n = Ev.n /\ blocked[Ev.n] = Ev.list
       /\ CheckRead(f)

TLookup ==
  /\ IsEvent("Lookup")
  /\ LET f == Ev.f IN
     /\ pc[f] = "chk" /\ Top(f).rd /\ Top(f).ds[Top(f).j] = Ev.dep
     /\ ~Contains(Top(f).sq, Ev.dep) /\ Ev.found = (Ev.dep \in created)
     /\ CheckLookup(f)

TCycle ==
  /\ IsEvent("Cycle")
  /\ LET f == Ev.seq[1] IN
     \/ /\ pc[f] = "loop" /\ imports[f][idx[f]] = f /\ Ev.seq = <<f>> /\ Ev.dep = f
        /\ Loop(f)
     \/ /\ pc[f] = "chk" /\ Top(f).rd /\ Top(f).ds[Top(f).j] = Ev.dep /\ Top(f).sq = Ev.seq
        /\ Contains(Top(f).sq, Ev.dep)
        /\ CheckLookup(f)

TReleased ==
  /\ IsEvent("Released")
  /\ LET f == Ev.f IN
     \/ Release(f)
     \/ FinalRelease(f)
     \/ PanicRelease(f)
     \/ (* the resolver panicked: Find(f) has no event of its own; compose it with the unwinding release *)
        /\ pc[f] = "find" /\ plan[f] = "panic"
        /\ sem' = sem + 1 /\ holding' = [holding EXCEPT ![f] = FALSE] /\ pc' = [pc EXCEPT ![f] = "pfail"]
        /\ UNCHANGED <<cfgvars, created, idx, blocked, stack, checked, out, reports, mpc, midx, mres, ctxDone, cancels>>

TWoke ==
  /\ IsEvent("Woke")
  /\ LET f == Ev.f IN
     /\ pc[f] = "wait" /\ imports[f][idx[f]] = Ev.dep
     /\ \/ Ev.how = "ready" /\ WaitReady(f)
        \/ Ev.how = "ctx" /\ WaitCtx(f)

(* result.fail / result.complete, logged just before close(r.ready).  Where CompileExec publishes
   the outcome together with the step that caused it (cycle report, failed or cancelled wait) the
   later Done event only has to agree with it.                                                 *)
TDone ==
  /\ IsEvent1("Done")
  /\ firm' = firm \cup {r \in reports : r[1][1] = Ev.f}
  /\ LET f == Ev.f
         cls == Ev.err IN
     \/ out[f] # "pending" /\ out[f] = cls /\ pc[f] \in {"fin", "done"} /\ UNCHANGED vars
     \/ out[f] = "pending" /\ cls = "ok" /\ Link(f)
     \/ out[f] = "pending" /\ cls = "ctx" /\ AcquireFail(f)
     \/ out[f] = "pending" /\ pc[f] = "find" /\ plan[f] \in {"err", "short"} /\ Find(f) /\ out'[f] = cls
     \/ out[f] = "pending" /\ cls = "panic" /\ PanicFail(f)

TMainWoke ==
  /\ IsEvent0("MainWoke") /\ rw' = firm /\ firm' = firm
  /\ mpc = "wait" /\ midx = Ev.i + 1
  /\ \/ Ev.how = "ready" /\ MainWaitReady
     \/ Ev.how = "ctx" /\ MainWaitCtx

(* The caller reads h.Error() somewhere between its last wake-up and the moment the Return event is
   logged (the handler's mutex is in package reporter and carries no hook), and a task's Cycle event is
   logged just before the handler is updated.  So the value returned is the model's result computed
   either with the reports known now, or - if no cycle report was CERTAINLY recorded (its task Done)
   when the caller woke up for the last time - the first task failure.  (Until vp check 3 the window
   used the reports whose Cycle event had been logged; a task preempted between that event and the
   handler call made the caller legitimately return the first failure: false alarm, DESIGN 9.5.)   *)
TReturn == /\ IsEvent("Return")
           /\ MainReturn
           /\ \/ mres' = Ev.err
              \/ rw = {} /\ mres' = "cycle" /\ Ev.err = FirstFailure

TCancel == IsEvent("Cancel") /\ ExternalCancel

(* the driver saw the goroutine count back at its baseline *)
TEnd ==
  /\ IsEvent("End")
  /\ mpc = "done" /\ \A f \in created : pc[f] = "done"
  /\ sem = par
  /\ UNCHANGED vars

TraceNext == \/ TConfig \/ TCreate \/ TMainStart \/ TAcquired \/ TParsed \/ TSetBlocked \/ TLoop
             \/ TReadBlocked \/ TLookup \/ TCycle \/ TReleased \/ TWoke \/ TDone \/ TMainWoke
             \/ TReturn \/ TCancel \/ TEnd \/ TLoopDP \/ TWokeDP

TraceSpec == TraceInit /\ [][TraceNext]_tvars

(* accepted iff some behaviour consumed every line: BFS depth = number of lines *)
TraceAccepted ==
  LET d == TLCGet("stats").diameter IN
  IF d = Len(Trace) THEN TRUE
  ELSE Print(<<"TRACE-REJECTED matched", d, "of", Len(Trace), "next", IF d + 1 <= Len(Trace) THEN Trace[d + 1] ELSE "none">>, FALSE)
=============================================================================
