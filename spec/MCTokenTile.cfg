SPECIFICATION MSpec
CONSTANTS
  MaxInput = 2
  MaxTok = 3
INVARIANTS TypeOK NoOverrun Tiled WellNested DoneIsTiling
CHECK_DEADLOCK FALSE
