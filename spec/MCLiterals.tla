------------------------------- MODULE MCLiterals -------------------------------
(* C14: enumerate source texts of literals and export, per text, what Literals.tla says protoc
   reads.  A run explores a set of FAMILIES at once; a family is
     [id, mode, q, prefix, chunks, maxlen, exportmin, rand]
   mode "str": text is the body between the delimiters q (34 or 39)
   mode "num": text is the whole value position ([-] token), q = 0
   The text starts as `prefix` and grows by appending one chunk (a sequence of character codes).
   In the exhaustive configurations every chunk is a single character, so a family is "every
   string over this alphabet of length <= maxlen that starts with prefix"; in -simulate runs
   chunks are whole escape sequences / digit groups so that long literals stay interesting.
   Texts that touch a rule that is not certain are filtered HERE, inside Next, and therefore
   never reach the driver.  Families are written per tier by engines/literals.py into a small
   module that instantiates the constant (TLC configuration files cannot hold tuples). *)
EXTENDS Literals, TLC, Json
CONSTANTS Families
VARIABLES fam, text, res      \* res = Res(fam, text), kept in the state so that it is computed once
vars == <<fam, text, res>>

Res(f, t) == IF f.mode = "str" THEN Decode(t, f.q) ELSE NumDecode(t)

(* numeric value positions start with a digit, '.', or a sign (not with a letter: that is an
   identifier, not a numeric literal) *)
NumFirst == Dig \cup {46, 43, 45}
Shape(f, t) == f.mode = "num" =>
                 /\ t # <<>> => t[1] \in NumFirst
                 /\ (Len(t) >= 2 /\ t[1] = 45) => t[2] \in NumFirst

Init == /\ fam \in Families
        /\ text = fam.prefix
        /\ res = Res(fam, text)
(* exhaustive families try every chunk; random families (fam.rand, used with tlc -simulate) draw one
   chunk per step with TLC's seeded RandomElement, so a simulated behaviour is one random literal
   growing chunk by chunk and costs one decode per step *)
Candidates == IF fam.rand THEN {RandomElement(fam.chunks)} ELSE fam.chunks
Next == /\ \E c \in Candidates :
             LET t == text \o c
                 r == Res(fam, t)
             IN /\ Len(t) <= fam.maxlen
                /\ Shape(fam, t)
                /\ r.st # "uncertain"          \* the filter: uncertain rules never leave the spec
                /\ text' = t
                /\ res' = r
        /\ UNCHANGED fam
Spec == Init /\ [][Next]_vars

Case == [fam |-> fam.id, m |-> fam.mode, q |-> fam.q, text |-> text, r |-> res]

(* nothing uncertain is ever exported (the condition also guards the prefixes of a family) *)
Export == (Len(text) >= fam.exportmin /\ Shape(fam, text) /\ res.st # "uncertain")
             => PrintT("CASE " \o ToJson(Case))

(* spec-level sanity, checked by TLC in every state:
   Sane       an accepted string literal yields at most 4 bytes per source character, all in
              0..255; an accepted integer token has canonical digits (no leading zero); a
              numeric text with a Go-ism ('_', 0b, 0o, hex float) is rejected
   SaneDelim  reading does not depend on which delimiter is used when the body has no quote *)
Sane ==
    IF fam.mode = "str"
    THEN res.st = "ok" => /\ Len(res.bytes) <= 4 * Len(text)
                          /\ \A i \in 1..Len(res.bytes) : res.bytes[i] \in 0..255
    ELSE /\ (res.st = "ok" /\ res.kind = "int") => (res.digits = <<>> \/ res.digits[1] # 0)
         /\ LET body == IF text # <<>> /\ text[1] = 45 THEN Tail(text) ELSE text
            IN GoIsms(body) # {} => res.st = "reject"      \* Go-isms are rejected, with certainty
SaneDelim ==
    (fam.mode = "str" /\ \A i \in 1..Len(text) : text[i] \notin {DQ, SQ}) =>
        LET o == Decode(text, IF fam.q = DQ THEN SQ ELSE DQ)
        IN o.st = res.st /\ o.bytes = res.bytes
=============================================================================
