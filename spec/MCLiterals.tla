------------------------------- MODULE MCLiterals -------------------------------
(* C14: enumerate source texts of literals and export, per text, what Literals.tla says protoc
   reads.  The text grows by appending one chunk (a sequence of character codes; in the
   exhaustive configurations every chunk is a single character, in -simulate runs chunks are
   whole escape sequences / digit groups so that long literals stay interesting).
   Texts that touch a rule that is not certain are filtered HERE, inside Next, and therefore never
   reach the driver.  Mode "str": text is the body between the delimiters q.  Mode "num": text is
   the whole value position ([-] token), q = 0. *)
EXTENDS Literals, TLC, Json
CONSTANTS Mode, Chunks, Prefixes, Quotes, MaxLen, ExportMin
VARIABLES text, q, res      \* res = Res(text, q), kept in the state so that it is computed once
vars == <<text, q, res>>

Res(t, d) == IF Mode = "str" THEN Decode(t, d) ELSE NumDecode(t)

NumFirst == Dig \cup {46, 43, 45}
Shape(t) == Mode = "num" =>
              /\ t # <<>> => t[1] \in NumFirst
              /\ (Len(t) >= 2 /\ t[1] = 45) => t[2] \in NumFirst

Init == /\ text \in Prefixes
        /\ q \in Quotes
        /\ res = Res(text, q)
Next == /\ \E c \in Chunks :
             LET t == text \o c
                 r == Res(t, q)
             IN /\ Len(t) <= MaxLen
                /\ Shape(t)
                /\ r.st # "uncertain"          \* the filter: uncertain rules never leave the spec
                /\ text' = t
                /\ res' = r
        /\ UNCHANGED q
Spec == Init /\ [][Next]_vars

Case == [m |-> Mode, q |-> q, text |-> text, r |-> res]

(* nothing uncertain is ever exported (also guards the Prefixes chosen in a configuration) *)
Export == (Len(text) >= ExportMin /\ Shape(text) /\ res.st # "uncertain")
             => PrintT("CASE " \o ToJson(Case))

(* spec-level sanity, checked by TLC in every state:
   - an accepted string literal never yields more than 4 bytes per source character, all bytes
   - an accepted integer token has canonical digits (no leading zero) *)
Sane ==
    IF Mode = "str"
    THEN res.st = "ok" => /\ Len(res.bytes) <= 4 * Len(text)
                          /\ \A i \in 1..Len(res.bytes) : res.bytes[i] \in 0..255
    ELSE (res.st = "ok" /\ res.kind = "int") => (res.digits = <<>> \/ res.digits[1] # 0)
=============================================================================
