--------------------------- MODULE ReportUniverse ---------------------------
(* A universe of diagnostics for the Canonicalize configurations (MCReportCanon, MCReportOps),
   built so that ties occur on every prefix of the documented sort key AND on the complete key
   (then the diagnostics differ only in a field that is not a key: level, in-file, notes, help,
   debug, a secondary annotation): all diagnostics that differ from Base in at most Dist of the
   dimensions  path x stage x start x end x tag x message x level x extra.                    *)
EXTENDS Report

CONSTANTS Dist, BaseTag,
          ExtraDim     \* which "extra" variations are in use: ExtrasBasic or ExtrasFull (cfg: ExtraDim <- ...)

FA == [path |-> "a.proto", text |-> <<"a", "b", "c">>]
FB == [path |-> "b.proto", text |-> <<"a", "b">>]
Files == {FA, FB}
FileOf(p) == CHOOSE f \in Files : f.path = p

PathDim  == {"", "a.proto", "b.proto"}      \* "" = no annotation at all (no primary span)
StageDim == {0, 1}
StartDim == {0, 1}
EndDim   == {1, 2}
TagDim   == {"", "t", "u"}
MsgDim   == {"m", "n"}
LevelDim == {"error", "warning"}
(* The "extra" dimension varies exactly one field that is NOT a sort key.  ExtrasFull has, for
   every field of a diagnostic and of its annotations and edits, two values that differ only in
   that field (so each pair of them ties on all six documented keys):
     note/note2, help/help2, debug/debug2   the text of a note / help / debug line
     note vs help vs debug                   the same text in a different list
     notes2                                  the number of notes
     infile/infile2                          the in-file path
     pmsg, ppb                               the primary annotation's message / page break
     pedit, pedit2, pedit3, pedits2          the primary annotation's edits: one edit, another
                                             replacement, another edit range, two edits
     ann2, ann2m, ann2s, ann2f, ann2pb, ann2e  a secondary annotation, and its message / span /
                                             file / page break / edit varied                    *)
ExtrasBasic == {"", "note", "help", "debug", "ann2", "infile"}
ExtrasFull  == ExtrasBasic \cup {"note2", "help2", "debug2", "notes2", "infile2", "pmsg", "ppb",
                                 "pedit", "pedit2", "pedit3", "pedits2",
                                 "ann2m", "ann2s", "ann2f", "ann2pb", "ann2e"}

Vec == [path : PathDim, stage : StageDim, start : StartDim, end : EndDim, tag : TagDim,
        msg : MsgDim, level : LevelDim, extra : ExtraDim]
Base == [path |-> "a.proto", stage |-> 0, start |-> 0, end |-> 1, tag |-> BaseTag,
         msg |-> "m", level |-> "error", extra |-> ""]
Dims == {"path", "stage", "start", "end", "tag", "msg", "level", "extra"}
Distance(v) == Cardinality({k \in Dims : v[k] # Base[k]})

(* the diagnostic a vector stands for, built with the constructor operators *)
Build(v) ==
  LET x  == v.extra
      hasP == v.path # ""
      E(a, b, r) == [start |-> a, end |-> b, replace |-> r]
      d0 == NewDiag(v.level, v.msg, v.stage)
      d1 == IF v.tag = "" THEN d0 ELSE WithTag(d0, v.tag)
      d2 == CASE x = "infile" -> WithInFile(d1, "z.proto") [] x = "infile2" -> WithInFile(d1, "e.proto") [] OTHER -> d1
      (* the primary annotation; spans are at least one byte long, so edit ranges 0..1 fit *)
      d3 == IF ~ hasP THEN d2
            ELSE CASE x = "pmsg"    -> WithSnippet(d2, FileOf(v.path), v.start, v.end, "am")
                   [] x = "ppb"     -> WithPageBreak(WithSnippet(d2, FileOf(v.path), v.start, v.end, ""))
                   [] x = "pedit"   -> WithSuggest(d2, FileOf(v.path), v.start, v.end, "", << E(0, 0, "r") >>)
                   [] x = "pedit2"  -> WithSuggest(d2, FileOf(v.path), v.start, v.end, "", << E(0, 0, "ru") >>)
                   [] x = "pedit3"  -> WithSuggest(d2, FileOf(v.path), v.start, v.end, "",
                                                   << E(0, IF v.end > v.start THEN 1 ELSE 0, "r") >>)
                   [] x = "pedits2" -> WithSuggest(d2, FileOf(v.path), v.start, v.end, "", << E(0, 0, "r"), E(0, 0, "ru") >>)
                   [] OTHER         -> WithSnippet(d2, FileOf(v.path), v.start, v.end, "")
      d4 == IF ~ hasP THEN d3
            ELSE CASE x = "ann2"   -> WithSnippet(d3, FB, 0, 0, "am")
                   [] x = "ann2m"  -> WithSnippet(d3, FB, 0, 0, "au")
                   [] x = "ann2s"  -> WithSnippet(d3, FB, 0, 1, "am")
                   [] x = "ann2f"  -> WithSnippet(d3, FA, 0, 0, "am")
                   [] x = "ann2pb" -> WithPageBreak(WithSnippet(d3, FB, 0, 0, "am"))
                   [] x = "ann2e"  -> WithSuggest(d3, FB, 0, 0, "am", << E(0, 0, "r") >>)
                   [] OTHER        -> d3
      d5 == CASE x = "note" -> WithNote(d4, "x1") [] x = "note2" -> WithNote(d4, "x2")
              [] x = "notes2" -> WithNote(WithNote(d4, "x1"), "x1") [] OTHER -> d4
      d6 == CASE x = "help" -> WithHelp(d5, "x1") [] x = "help2" -> WithHelp(d5, "x2") [] OTHER -> d5
      d7 == CASE x = "debug" -> WithDebug(d6, "x1") [] x = "debug2" -> WithDebug(d6, "x2") [] OTHER -> d6
  IN d7

Universe == {Build(v) : v \in {w \in Vec : Distance(w) <= Dist}}

(* each diagnostic paired with its Report!FullKey (evaluated once) *)
Keyed == {<<FullKey(d), d>> : d \in Universe}
TieKeyInjective == \A a, b \in Keyed : a[1] = b[1] => a[2] = b[2]
ASSUME TieKeyInjective
=============================================================================
