--------------------------- MODULE ReportUniverse ---------------------------
(* A universe of diagnostics for the Canonicalize configurations (MCReportCanon, MCReportOps),
   built so that ties occur on every prefix of the documented sort key AND on the complete key
   (then the diagnostics differ only in a field that is not a key: level, in-file, notes, help,
   debug, a secondary annotation): all diagnostics that differ from Base in at most Dist of the
   dimensions  path x stage x start x end x tag x message x level x extra.                    *)
EXTENDS Report

CONSTANTS Dist, BaseTag

FA == [path |-> "a.proto", text |-> <<"a", "b", "c">>]
FB == [path |-> "b.proto", text |-> <<"a", "b">>]
Files == {FA, FB}
FileOf(p) == CHOOSE f \in Files : f.path = p

PathDim  == {"", "a.proto", "b.proto"}      \* "" = no annotation at all (no primary span)
StageDim == {0, 1}
StartDim == {0, 1}
EndDim   == {1, 2}
TagDim   == {"", "t", "u"}
MsgDim   == {"m", "n"}
LevelDim == {"error", "warning"}
ExtraDim == {"", "note", "help", "debug", "ann2", "infile"}

Vec == [path : PathDim, stage : StageDim, start : StartDim, end : EndDim, tag : TagDim,
        msg : MsgDim, level : LevelDim, extra : ExtraDim]
Base == [path |-> "a.proto", stage |-> 0, start |-> 0, end |-> 1, tag |-> BaseTag,
         msg |-> "m", level |-> "error", extra |-> ""]
Dims == {"path", "stage", "start", "end", "tag", "msg", "level", "extra"}
Distance(v) == Cardinality({k \in Dims : v[k] # Base[k]})

(* the diagnostic a vector stands for, built with the constructor operators *)
Build(v) ==
  LET d0 == NewDiag(v.level, v.msg, v.stage)
      d1 == IF v.tag = "" THEN d0 ELSE WithTag(d0, v.tag)
      d2 == IF v.extra = "infile" THEN WithInFile(d1, "z.proto") ELSE d1
      d3 == IF v.path = "" THEN d2 ELSE WithSnippet(d2, FileOf(v.path), v.start, v.end, "")
      d4 == IF v.extra = "ann2" /\ v.path # "" THEN WithSnippet(d3, FB, 0, 0, "am") ELSE d3
      d5 == IF v.extra = "note" THEN WithNote(d4, "x1") ELSE d4
      d6 == IF v.extra = "help" THEN WithHelp(d5, "x1") ELSE d5
      d7 == IF v.extra = "debug" THEN WithDebug(d6, "x1") ELSE d6
  IN d7

Universe == {Build(v) : v \in {w \in Vec : Distance(w) <= Dist}}

(* each diagnostic paired with its Report!FullKey (evaluated once) *)
Keyed == {<<FullKey(d), d>> : d \in Universe}
TieKeyInjective == \A a, b \in Keyed : a[1] = b[1] => a[2] = b[2]
ASSUME TieKeyInjective
=============================================================================
