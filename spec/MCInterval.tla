------------------------------- MODULE MCInterval -------------------------------
(* C40: every insertion history over the points 0..MaxP up to MaxLen inserts (TLC BFS), or random
   longer ones (tlc -simulate).  `obs` carries the naive model's answer after EVERY insert; states
   of length ExportLen are exported as replay cases for harness/interval. *)
EXTENDS Interval, TLC, Json
CONSTANTS MaxP, MaxLen, ExportLen,
          Only        \* {} = explore everything; else a set of histories <<<<lo,hi>>,...>> to replay
VARIABLES hist, obs
vars == <<hist, obs>>
View == hist          \* obs is a function of hist: keep it out of the fingerprint

Points == 0..MaxP
Probe  == (0 - 1)..(MaxP + 1)          \* Get is asked at every point and one beyond each side
Ivs    == {[lo |-> a, hi |-> b] : a \in Points, b \in Points} \cap
          UNION {{[lo |-> a, hi |-> b] : b \in a..MaxP} : a \in Points}

Observe(h, iv) ==
  LET h2 == Append(h, iv)
  IN [ret     |-> InsertDisjoint(h, iv),
      entries |-> Entries(h2, Probe),
      get     |-> [k \in 1..(MaxP + 3) |-> Get(h2, k - 2)]]

HistT(h)   == [i \in 1..Len(h) |-> <<h[i].lo, h[i].hi>>]
Allowed(h) == Only = {} \/ \E o \in Only : Len(h) <= Len(o) /\ SubSeq(o, 1, Len(h)) = HistT(h)
Wanted     == IF Only = {} THEN Len(hist) = ExportLen ELSE HistT(hist) \in Only

Init == hist = <<>> /\ obs = <<>>
Next == /\ Len(hist) < MaxLen
        /\ \E iv \in Ivs : /\ hist' = Append(hist, iv)
                           /\ obs'  = Append(obs, Observe(hist, iv))
        /\ Allowed(hist')
Spec == Init /\ [][Next]_vars

Case == [maxp   |-> MaxP,
         hist   |-> HistT(hist),
         steps  |-> obs,
         compat |-> CompatMatrix(hist)]

(* the oracle satisfies the statement's own structural requirements (guards the spec) *)
OracleSane == (Wanted /\ Len(hist) > 0) =>
                /\ EntriesWellFormed(obs[Len(obs)].entries)
                /\ EntriesAgreeWithGet(hist, Probe, obs[Len(obs)].entries)
                /\ obs[Len(obs)].get[1] = <<>> /\ obs[Len(obs)].get[MaxP + 3] = <<>>
Export == (Wanted /\ Len(hist) > 0) => PrintT("CASE " \o ToJson(Case))
=============================================================================
