------------------------------- MODULE MCInterval -------------------------------
(* C40: every insertion history over the points 0..MaxP up to MaxLen inserts (TLC BFS), or random
   longer ones (tlc -simulate).  `obs` carries the naive model's answer after EVERY insert; states
   of length ExportLen are exported as replay cases for harness/interval.

   "Stacked" family (StackMax > 0): k \in 1..StackMax copies of one interval (piles values on one
   entry, i.e. builds value lists with spare capacity) followed by every sequence of exactly
   MaxFree further inserts; reaches 6-insert shapes such as [0,2]x3,[1,1],[0,0],[2,2] (split an
   entry that holds several values, then touch both leftovers) without enumerating |Ivs|^6.
   RepeatWeight > 0 (simulation only): every earlier interval is offered RepeatWeight more times as
   successor, which biases the random walk towards re-inserting intervals. *)
EXTENDS Interval, TLC, Json
CONSTANTS MaxP, MaxLen, ExportLen,
          StackMax, MaxFree,      \* stacked family (StackMax = 0: off)
          StackMod, StackRem,     \* stacked family: only base intervals with (7*lo + hi) % StackMod = StackRem
          RepeatWeight,           \* simulation bias (0: off)
          Only        \* {} = explore everything; else a set of histories <<<<lo,hi>>,...>> to replay
VARIABLES hist, obs
vars == <<hist, obs>>
View == hist          \* obs is a function of hist: keep it out of the fingerprint

Points == 0..MaxP
Probe  == (0 - 1)..(MaxP + 1)          \* Get is asked at every point and one beyond each side
Ivs    == {[lo |-> a, hi |-> b] : a \in Points, b \in Points} \cap
          UNION {{[lo |-> a, hi |-> b] : b \in a..MaxP} : a \in Points}

Observe(h, iv) ==
  LET h2 == Append(h, iv)
  IN [ret     |-> InsertDisjoint(h, iv),
      entries |-> Entries(h2, Probe),
      get     |-> [k \in 1..(MaxP + 3) |-> Get(h2, k - 2)]]

HistT(h)   == [i \in 1..Len(h) |-> <<h[i].lo, h[i].hi>>]
AllEq(h, k)  == \A i \in 1..k : h[i] = h[1]
BaseOK(iv)   == (7 * iv.lo + iv.hi) % StackMod = StackRem
StackOK(h)   == Len(h) = 0 \/ (BaseOK(h[1]) /\ \E k \in 1..StackMax : k <= Len(h) /\ AllEq(h, k) /\ Len(h) - k <= MaxFree)
StackLeaf(h) == Len(h) > MaxFree /\ Len(h) - MaxFree <= StackMax /\ AllEq(h, Len(h) - MaxFree)
Allowed(h) == IF Only # {} THEN \E o \in Only : Len(h) <= Len(o) /\ SubSeq(o, 1, Len(h)) = HistT(h)
              ELSE IF StackMax > 0 THEN StackOK(h) ELSE TRUE
Wanted     == IF Only # {} THEN HistT(hist) \in Only
              ELSE IF StackMax > 0 THEN StackLeaf(hist) ELSE Len(hist) = ExportLen

Step(iv) == /\ hist' = Append(hist, iv)
            /\ obs'  = Append(obs, Observe(hist, iv))
            /\ Allowed(hist')
Init == hist = <<>> /\ obs = <<>>
Next == /\ Len(hist) < MaxLen
        /\ \/ \E iv \in Ivs : Step(iv)
           \/ \E w \in 1..RepeatWeight, i \in 1..Len(hist) : Step(hist[i])
Spec == Init /\ [][Next]_vars

Case == [maxp   |-> MaxP,
         hist   |-> HistT(hist),
         steps  |-> obs,
         compat |-> CompatMatrix(hist)]

(* the oracle satisfies the statement's own structural requirements (guards the spec) *)
OracleSane == (Wanted /\ Len(hist) > 0) =>
                /\ EntriesWellFormed(obs[Len(obs)].entries)
                /\ EntriesAgreeWithGet(hist, Probe, obs[Len(obs)].entries)
                /\ obs[Len(obs)].get[1] = <<>> /\ obs[Len(obs)].get[MaxP + 3] = <<>>
Export == (Wanted /\ Len(hist) > 0) => PrintT("CASE " \o ToJson(Case))
=============================================================================
