SPECIFICATION Spec
CONSTANTS
  Texts <- MCTexts
  MaxLine = 3
  MaxCol = 10
  ErrCap = 2
INVARIANTS TypeOK ErrIffReported AbortStopsReports TableSane
CHECK_DEADLOCK FALSE
