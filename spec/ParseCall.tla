------------------------------- MODULE ParseCall -------------------------------
(* C12: the contract of ONE call of the stable parser, as the set of event sequences a caller may
   observe (written from the property statement; nothing here is taken from the Go code):

     Call(mode, line table of the input)
       ReportError(line, col, endLine, endCol)*     -- the handler's reporter is invoked
     Return(astNonNil, errNonNil)
       ReportError(...)*                            -- reports made while converting
     ToDescriptor(panicked)
     Reset                                          -- next call

   * every reported position lies inside the input's line table: the line exists and the
     column is between 1 and (width of that line in Col8 columns) + 1;
   * Return carries a non-nil AST, and a non-nil error exactly when an error was reported;
   * a reporter that returns an error (mode "abort") is not called again by the parser;
   * there is no Panic event, and ToDescriptor does not panic.

   The line table is SrcText's: lines are separated by LF, the width of a line is the Col8
   column of its end minus one (TAB to the next multiple of eight, one column per character; an
   invalid byte is counted as one column, which is the permissive choice). *)
EXTENDS SrcLines

CONSTANTS Texts,        \* model checking only: the inputs
          MaxLine, MaxCol,   \* model checking only: the positions a parser might report
          ErrCap        \* the error counter saturates here (only "none / some" matters)

VARIABLES st,       \* "idle" | "parsing" | "returned" | "converted"
          mode,     \* "tolerant" (reporter returns nil) | "abort" (reporter returns the error)
          nlines,   \* number of lines of the input
          widths,   \* function: line -> width in columns (for the lines somebody asks about)
          nerr,     \* errors reported during Parse (saturating)
          derr,     \* errors reported during conversion (saturating)
          retErr    \* did Parse return a non-nil error
cvars == <<st, mode, nlines, widths, nerr, derr, retErr>>

Modes == {"tolerant", "abort"}

-----------------------------------------------------------------------------
(* the contract's guards *)
LineExists(l) == l \in 1..nlines /\ l \in DOMAIN widths
InFile(l, c)  == LineExists(l) /\ c >= 1 /\ c <= widths[l] + 1
MayReport     == \/ st = "returned"
                 \/ st = "parsing" /\ (mode = "abort" => nerr = 0)
ReportAllowed(l, c, el, ec) == MayReport /\ InFile(l, c) /\ InFile(el, ec)
ReturnAllowed(astNonNil, errNonNil) == astNonNil /\ (errNonNil <=> nerr > 0)
ConvertAllowed(panicked) == ~panicked

Bump(n) == IF n < ErrCap THEN n + 1 ELSE n

Call(m, n, w) ==
  /\ st = "idle"
  /\ m \in Modes
  /\ st' = "parsing" /\ mode' = m /\ nlines' = n /\ widths' = w
  /\ nerr' = 0 /\ derr' = 0 /\ retErr' = FALSE

ReportError(l, c, el, ec) ==
  /\ st \in {"parsing", "returned"}
  /\ ReportAllowed(l, c, el, ec)
  /\ IF st = "parsing" THEN nerr' = Bump(nerr) /\ UNCHANGED derr
                       ELSE derr' = Bump(derr) /\ UNCHANGED nerr
  /\ UNCHANGED <<st, mode, nlines, widths, retErr>>

Return(astNonNil, errNonNil) ==
  /\ st = "parsing"
  /\ ReturnAllowed(astNonNil, errNonNil)
  /\ st' = "returned" /\ retErr' = errNonNil
  /\ UNCHANGED <<mode, nlines, widths, nerr, derr>>

ToDescriptor(panicked) ==
  /\ st = "returned"
  /\ ConvertAllowed(panicked)
  /\ st' = "converted"
  /\ UNCHANGED <<mode, nlines, widths, nerr, derr, retErr>>

Reset ==
  /\ st = "converted"
  /\ st' = "idle"
  /\ UNCHANGED <<mode, nlines, widths, nerr, derr, retErr>>

-----------------------------------------------------------------------------
(* stand-alone model (MCParseCall.cfg): every small text, every position a parser might name *)
Init == /\ st = "idle" /\ mode = "tolerant" /\ nlines = 1 /\ widths = <<0>>
        /\ nerr = 0 /\ derr = 0 /\ retErr = FALSE
Next ==
  \/ \E t \in Texts, m \in Modes : Call(m, NLines(t), LineTable(t))
  \/ \E l, el \in 1..MaxLine, c, ec \in 1..MaxCol : ReportError(l, c, el, ec)
  \/ \E a, r \in BOOLEAN : Return(a, r)
  \/ \E p \in BOOLEAN : ToDescriptor(p)
  \/ Reset
Spec == Init /\ [][Next]_cvars

TypeOK ==
  /\ st \in {"idle", "parsing", "returned", "converted", "violated"}
  /\ mode \in Modes
  /\ nlines \in Nat /\ nlines >= 1
  /\ nerr \in 0..ErrCap /\ derr \in 0..ErrCap
  /\ retErr \in BOOLEAN
ErrIffReported == st \in {"returned", "converted"} => (retErr <=> nerr > 0)
AbortStopsReports == (mode = "abort" /\ st \in {"parsing", "returned", "converted"}) => nerr <= 1
(* the table handed to Call is a line table: at least one line, no negative width *)
TableSane == \A l \in DOMAIN widths : widths[l] >= 0
=============================================================================
