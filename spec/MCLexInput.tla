------------------------------- MODULE MCLexInput -------------------------------
(* Input generator for C28 / C29 (direction A): every text over a class alphabet chosen to hit
   the experimental lexer's case analysis, up to MaxLen symbols.  Each exported case carries the
   symbol sequence and what the specification knows about the concrete input: its byte length,
   whether it is valid UTF-8, whether one of its first two bytes is NUL.  The Go driver
   concretises the symbols and refuses to run if its bytes disagree with these.

   Symbols (concretisation in harness/explex/main.go):
     dq "   sq '   bs \   sl /   st *   lp ( rp ) lb [ rb ] lc { rc } lt < gt >   sc ;  eq =  co ,  cl :
     d0 0   d1 1   d8 8   x   X   e   E   p   b   a   n   u   dot .   mi -   pl +   us _   qm ?  am &  pi |  ex !  hash #
     lf LF  cr CR  tab TAB  sp space  nul 0x00   inv 0x80 (never valid UTF-8)
     u2 a 2-byte character (U+00E9)   u3 a 3-byte character (U+20AC)   bom U+FEFF (3 bytes)

   Token symbols "t:<word>" stand for <word> followed by one space (grammar-level alphabets for
   the parser: keywords, punctuation, a name, a number, a string; t:STR is "s", t:PROTO2/3 "proto2"/"proto3", t:E2023 "2023" with their quotes); TokLen gives their byte length.
   Every text starts with a header (Headers) and a context (PrefixName), e.g. syntax = "proto2" ; message M { ; MaxLen and
   ExportMin count the symbols after it.                                                       *)
EXTENDS Naturals, Sequences, FiniteSets, TLC, Json
CONSTANTS Alphabet, MaxLen, ExportMin, PrefixName, Headers
VARIABLES text, plen
vars == <<text, plen>>

TokLen == "t:syntax" :> 7 @@
          "t:edition" :> 8 @@
          "t:import" :> 7 @@
          "t:package" :> 8 @@
          "t:option" :> 7 @@
          "t:message" :> 8 @@
          "t:enum" :> 5 @@
          "t:service" :> 8 @@
          "t:extend" :> 7 @@
          "t:rpc" :> 4 @@
          "t:returns" :> 8 @@
          "t:stream" :> 7 @@
          "t:reserved" :> 9 @@
          "t:extensions" :> 11 @@
          "t:to" :> 3 @@
          "t:max" :> 4 @@
          "t:optional" :> 9 @@
          "t:repeated" :> 9 @@
          "t:required" :> 9 @@
          "t:oneof" :> 6 @@
          "t:group" :> 6 @@
          "t:map" :> 4 @@
          "t:int32" :> 6 @@
          "t:string" :> 7 @@
          "t:default" :> 8 @@
          "t:M" :> 2 @@
          "t:a" :> 2 @@
          "t:1" :> 2 @@
          "t:STR" :> 4 @@
          "t:PROTO3" :> 9 @@
          "t:{" :> 2 @@
          "t:}" :> 2 @@
          "t:(" :> 2 @@
          "t:)" :> 2 @@
          "t:[" :> 2 @@
          "t:]" :> 2 @@
          "t:<" :> 2 @@
          "t:>" :> 2 @@
          "t:;" :> 2 @@
          "t:=" :> 2 @@
          "t:," :> 2 @@
          "t:." :> 2 @@
          "t:-" :> 2 @@
          "t::" :> 2 @@
          "t:G" :> 2 @@
          "t:a.b" :> 4 @@
          "t:(x)" :> 4 @@
          "t:PROTO2" :> 9 @@
          "t:E2023" :> 7

(* PrefixName is a set of context names; Headers a set of header names; every text starts with
   Header(h) \o Context(c) for some h, c of them (several initial states). *)
Context(c) == CASE c = "msg"   -> <<"t:message", "t:M", "t:{">>
                [] c = "ext"   -> <<"t:extend", "t:M", "t:{">>
                [] c = "oneof" -> <<"t:message", "t:M", "t:{", "t:oneof", "t:a", "t:{">>
                [] c = "msg.group"    -> <<"t:message", "t:M", "t:{", "t:group">>
                [] c = "msg.optgroup" -> <<"t:message", "t:M", "t:{", "t:optional", "t:group">>
                [] c = "ext.group"    -> <<"t:extend", "t:M", "t:{", "t:group">>
                [] c = "oneof.group"  -> <<"t:message", "t:M", "t:{", "t:oneof", "t:a", "t:{", "t:group">>
                [] c = "hex"   -> <<"d0", "x">>                                   \* byte-level contexts for numeric literals
                [] c = "HEX"   -> <<"d0", "X">>
                [] c = "eq"    -> <<"a", "sp", "eq", "sp">>
                [] c = "eqhex" -> <<"a", "sp", "eq", "sp", "d0", "x">>
                [] c = "enum"  -> <<"t:enum", "t:M", "t:{">>
                [] c = "svc"   -> <<"t:service", "t:M", "t:{">>
                [] c = "opt"   -> <<"t:option", "t:a", "t:=">>
                [] OTHER       -> << >>
Header(h) == CASE h = "p2"  -> <<"t:syntax", "t:=", "t:PROTO2", "t:;">>
               [] h = "p3"  -> <<"t:syntax", "t:=", "t:PROTO3", "t:;">>
               [] h = "e23" -> <<"t:edition", "t:=", "t:E2023", "t:;">>
               [] OTHER     -> << >>

ByteLen(c) == IF c \in DOMAIN TokLen THEN TokLen[c]
              ELSE CASE c = "u2" -> 2 [] c = "u3" -> 3 [] c = "bom" -> 3 [] OTHER -> 1
RECURSIVE Bytes(_, _)
Bytes(t, k) == IF k = 0 THEN 0 ELSE ByteLen(t[k]) + Bytes(t, k - 1)

ValidUTF8(t) == \A k \in DOMAIN t : t[k] # "inv"
(* byte 0 is NUL, or byte 1 is NUL (only a one-byte first symbol puts the second symbol at byte 1) *)
NulPrefix(t) == \/ (Len(t) >= 1 /\ t[1] = "nul")
                \/ (Len(t) >= 2 /\ ByteLen(t[1]) = 1 /\ t[2] = "nul")

Init == \E h \in Headers, c \in PrefixName :
          /\ text = Header(h) \o Context(c)
          /\ plen = Len(text)
Next == /\ Len(text) < plen + MaxLen
        /\ \E c \in Alphabet : text' = Append(text, c)
        /\ UNCHANGED plen
Spec == Init /\ [][Next]_vars

Case == [kind |-> "exh", syms |-> text, len |-> Bytes(text, Len(text)),
         utf8 |-> ValidUTF8(text), nulp |-> NulPrefix(text)]
Export == Len(text) >= plen + ExportMin => PrintT("CASE " \o ToJson(Case))
=============================================================================
