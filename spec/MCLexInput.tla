------------------------------- MODULE MCLexInput -------------------------------
(* Input generator for C28 / C29 (direction A): every text over a class alphabet chosen to hit
   the experimental lexer's case analysis, up to MaxLen symbols.  Each exported case carries the
   symbol sequence and what the specification knows about the concrete input: its byte length,
   whether it is valid UTF-8, whether one of its first two bytes is NUL.  The Go driver
   concretises the symbols and refuses to run if its bytes disagree with these.

   Symbols (concretisation in harness/explex/main.go):
     dq "   sq '   bs \   sl /   st *   lp ( rp ) lb [ rb ] lc { rc } lt < gt >   sc ;  eq =  co ,  cl :
     d0 0   d8 8   x   e   b   a   n   u   dot .   mi -   pl +   us _   qm ?  am &  pi |  ex !  hash #
     lf LF  cr CR  tab TAB  sp space  nul 0x00   inv 0x80 (never valid UTF-8)
     u2 a 2-byte character (U+00E9)   u3 a 3-byte character (U+20AC)   bom U+FEFF (3 bytes)      *)
EXTENDS Naturals, Sequences, FiniteSets, TLC, Json
CONSTANTS Alphabet, MaxLen, ExportMin
VARIABLE text
vars == <<text>>

ByteLen(c) == CASE c = "u2" -> 2 [] c = "u3" -> 3 [] c = "bom" -> 3 [] OTHER -> 1
RECURSIVE Bytes(_, _)
Bytes(t, k) == IF k = 0 THEN 0 ELSE ByteLen(t[k]) + Bytes(t, k - 1)

ValidUTF8(t) == \A k \in DOMAIN t : t[k] # "inv"
(* byte 0 is NUL, or byte 1 is NUL (only a one-byte first symbol puts the second symbol at byte 1) *)
NulPrefix(t) == \/ (Len(t) >= 1 /\ t[1] = "nul")
                \/ (Len(t) >= 2 /\ ByteLen(t[1]) = 1 /\ t[2] = "nul")

Init == text = << >>
Next == /\ Len(text) < MaxLen
        /\ \E c \in Alphabet : text' = Append(text, c)
Spec == Init /\ [][Next]_vars

Case == [kind |-> "exh", syms |-> text, len |-> Bytes(text, Len(text)),
         utf8 |-> ValidUTF8(text), nulp |-> NulPrefix(text)]
Export == Len(text) >= ExportMin => PrintT("CASE " \o ToJson(Case))
=============================================================================
