---------------------------- MODULE IntervalTrace ----------------------------
(* C40, direction B: the Nesting observable is not a function of the history (any split into
   strictly nesting sets is allowed), so the real Nesting.Sets() observed after every insert is
   recorded by harness/interval and validated here against Interval!NestingOK.
   One ndjson line per history: {"h": [[lo,hi],...], "obs": [sets after insert 1, ...]},
   a set = [{"s":start,"e":end,"v":insertion index}, ...].
   A record that is not a behaviour of the contract is printed as REJECT <line> and skipped, so
   one run classifies the whole file; the POSTCONDITION says the whole file was consumed. *)
EXTENDS Interval, TLC, Json, IOUtils
CONSTANT TraceFile
VARIABLES i, rejected
vars == <<i, rejected>>

Trace == ndJsonDeserialize(TraceFile)

Hist(r) == [k \in 1..Len(r.h) |-> [lo |-> r.h[k][1], hi |-> r.h[k][2]]]
Accept(r) == /\ Len(r.obs) = Len(r.h)
             /\ \A n \in 1..Len(r.h) : NestingOK(SubSeq(Hist(r), 1, n), r.obs[n])

Init == i = 1 /\ rejected = 0
Next == /\ i <= Len(Trace)
        /\ i' = i + 1
        /\ IF Accept(Trace[i]) THEN rejected' = rejected
           ELSE /\ PrintT("REJECT " \o ToString(i))
                /\ rejected' = rejected + 1
Spec == Init /\ [][Next]_vars

Consumed == TLCGet("stats").diameter = Len(Trace) + 1
=============================================================================
