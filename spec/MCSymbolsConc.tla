---------------------------- MODULE MCSymbolsConc ----------------------------
(* C16 (and the model half of C17): NProc importing processes share one table; each process Imports
   its own list of files (one "compilation").  Init chooses every partition of every multiset of
   at most MaxFiles files of the generated universe into NProc ordered lists; Next interleaves the
   critical sections of the processes (StepP of Symbols.tla) in every order.

   Properties, from the statements:
     PartitionEquivalence   when all processes are done: some Import failed  <=>  the files (with their
                            imports) collide when taken together                                  [C16]
     NoFailureAllCommitted  no failure => the table is exactly the union of the files              [C16]
     TableSound             always: every answer of Lookup / LookupExtension is a declaration of a file
                            that some process imported                                             [C16]
   and, for one process (sequential use, TrackSeq = TRUE):
     SeqMatchesRef          every completed Import agrees with the reference semantics
     FailedImportIsNoOp     a failed Import leaves the table as it was (Acceptable)                [C17]
     ReimportFailsAgain     importing the failed file again fails again                            [C17]

   Direction A: every transition (state, process) is exported once as a schedule: the steps that led
   to the state (hist, hidden from the fingerprint by VIEW), the step itself, and a deterministic
   completion (processes run to the end in index order), each step with the gate the goroutine must
   be parked at, what it must observe and what it adds to the table.  *)
EXTENDS Symbols, SymbolsUniverse, Json

CONSTANTS NProc, MaxFiles, TrackSeq, ExportSched, ExportUniverse, SchedFiles

VARIABLES tbl, procs, parts, hist, snap
vars == <<tbl, procs, parts, hist, snap>>
View == <<tbl, procs, parts, snap>>

Procs == 1..NProc
Usable == {f \in FileIds : Compilable(f)}
(* files the partitions are drawn from: all usable ones, or a named subset *)
Pool == IF SchedFiles = {} THEN Usable ELSE SchedFiles \cap Usable

SeqsUpTo(S, n) == UNION {[1..k -> S] : k \in 0..n}
RECURSIVE SumLen(_, _)
SumLen(ps, i) == IF i = 0 THEN 0 ELSE Len(ps[i]) + SumLen(ps, i - 1)
(* partitions: process 1 never idle; processes are interchangeable, so lists are ordered by length to
   drop mirror images of unequal splits *)
Partitions == {ps \in [Procs -> SeqsUpTo(Pool, MaxFiles)] :
                 /\ SumLen(ps, NProc) \in 1..MaxFiles
                 /\ \A p \in 1..(NProc - 1) : Len(ps[p]) >= Len(ps[p + 1])}

AllFiles(ps) == UNION {{ps[p][i] : i \in 1..Len(ps[p])} : p \in Procs}

(* the literal universe module is the universe this run is configured with *)
FDConsistent == /\ FileIds = AllIds
                /\ \A f \in FileIds : FDOf(f) = UFD0[f]
UsableCase == [kind |-> "usable", ids |-> Usable]

Init == /\ FDConsistent
        /\ tbl = EmptyTable
        /\ parts \in Partitions
        /\ procs = [p \in Procs |-> NewProc(parts[p])]
        /\ hist = <<>>
        /\ snap = EmptyTable
        /\ (ExportUniverse => PrintT("CASE " \o ToJson(UsableCase)))

AllDone(ps) == \A p \in Procs : Done(ps[p])

(* the record of one step in a schedule *)
StepRecOf(p, r, before) ==
  [p |-> p, a |-> r.lab.a, f |-> r.lab.f, name |-> r.lab.name, tag |-> r.lab.tag, r |-> r.lab.r,
   add |-> r.lab.add,
   done |-> IF Len(r.p.res) > Len(before.res) THEN <<r.p.res[Len(r.p.res)]>> ELSE <<>>]

(* deterministic completion: lowest unfinished process runs to its end, then the next *)
RECURSIVE Completion(_, _)
Completion(T, ps) ==
  IF AllDone(ps) THEN [steps |-> <<>>, t |-> T, ps |-> ps]
  ELSE LET p == CHOOSE q \in Procs : ~Done(ps[q]) /\ \A o \in Procs : ~Done(ps[o]) => q <= o
           r == StepP(T, ps[p])
           rest == Completion(r.t, [ps EXCEPT ![p] = r.p])
       IN [steps |-> <<StepRecOf(p, r, ps[p])>> \o rest.steps, t |-> rest.t, ps |-> rest.ps]

ProjSyms(T) == {[n |-> n, f |-> T.syms[n].f] : n \in DOMAIN T.syms}
ProjExts(T) == {[e |-> k[1], t |-> k[2], f |-> T.exts[k]] : k \in DOMAIN T.exts}
SomeFail(ps) == \E p \in Procs : \E i \in 1..Len(ps[p].res) : ~ps[p].res[i].ok

SchedCase(h, T, ps) ==
  LET c == Completion(T, ps)
  IN [kind |-> "sched", parts |-> parts, prefix |-> Len(h), steps |-> h \o c.steps,
      res |-> [p \in Procs |-> c.ps[p].res],
      final |-> [syms |-> ProjSyms(c.t), exts |-> ProjExts(c.t)],
      somefail |-> SomeFail(c.ps),
      collide |-> UnionHasCollision(AllFiles(parts))]

Next == \E p \in Procs :
          /\ ~Done(procs[p])
          /\ LET r == StepP(tbl, procs[p])
                 h == Append(hist, StepRecOf(p, r, procs[p]))
                 ps == [procs EXCEPT ![p] = r.p]
             IN /\ tbl' = r.t
                /\ procs' = ps
                /\ hist' = h
                /\ snap' = IF TrackSeq /\ Len(r.p.res) > Len(procs[p].res) THEN r.t ELSE snap
                /\ UNCHANGED parts
                /\ (ExportSched => PrintT("CASE " \o ToJson(SchedCase(h, r.t, ps))))
Spec == Init /\ [][Next]_vars

-----------------------------------------------------------------------------
(* C16 *)
PartitionEquivalence ==
  AllDone(procs) => (SomeFail(procs) <=> UnionHasCollision(AllFiles(parts)))

NoFailureAllCommitted ==
  (AllDone(procs) /\ ~SomeFail(procs)) =>
     LET F == Closure(AllFiles(parts))
     IN /\ tbl.files = F
        /\ DOMAIN tbl.syms = UNION {SymNames(f) : f \in F}
        /\ DOMAIN tbl.exts = UNION {ExtKeys(f) : f \in F}
        /\ tbl.pkgs = UNION {PkgPrefs(f) : f \in F}

TableSound ==
  LET F == Closure(AllFiles(parts))
  IN /\ \A n \in DOMAIN tbl.syms : tbl.syms[n].f \in F /\ n \in SymNames(tbl.syms[n].f)
     /\ \A k \in DOMAIN tbl.exts : tbl.exts[k] \in F /\ k \in ExtKeys(tbl.exts[k])
     /\ tbl.files \subseteq F
     /\ DOMAIN tbl.syms \cap tbl.pkgs = {}

(* C17 on the lock-granularity model, sequential use (NProc = 1, TrackSeq) *)
Completes(p) == Len(procs'[p].res) > Len(procs[p].res)
LastRes(p) == procs'[p].res[Len(procs'[p].res)]

SeqMatchesRef ==
  [][\A p \in Procs : (TrackSeq /\ Completes(p)) =>
        LET ref == RefImport(snap, LastRes(p).f)
        IN /\ LastRes(p).ok = ref.ok
           /\ (ref.ok => tbl' = ref.t)]_vars

FailedImportIsNoOp ==
  [][\A p \in Procs : (TrackSeq /\ Completes(p) /\ ~LastRes(p).ok) =>
        tbl' \in Acceptable(snap, LastRes(p).f)]_vars

ReimportFailsAgain ==
  [][\A p \in Procs : (TrackSeq /\ Completes(p) /\ ~LastRes(p).ok) =>
        ~SeqImport(tbl', LastRes(p).f).ok]_vars
=============================================================================
