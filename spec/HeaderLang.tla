------------------------------ MODULE HeaderLang ------------------------------
(* C25: what a file's header means, independent of how it is spelled.
   A file is a sequence of top-level items.  Only PKG and IMP items contribute to the result of
   a header scan; FILL items are legal top-level constructs that contain the words `import` /
   `package`, string literals, brackets and comments in places where they must be ignored.
   Layout (what separates tokens) never changes the meaning.

   PKG forms : how the package name is spelled            -> the dotted name
   IMP       : kind (plain / public / weak) and the spelling of the path literal
                                                           -> path "f<i>.proto" for the i-th import
   The concrete spelling of each form lives in the Go renderer (harness/fastscan), keyed by the
   form name; the expected scan result is computed here.                                     *)
EXTENDS Naturals, Sequences, FiniteSets

PkgForms == {"a", "a.b", "a . b", "a/**/.b", "a.\nb", "pkgkw"}   \* pkgkw: a component that is a keyword (package import.public;)
PkgName(form) == CASE form = "a" -> "a" [] form = "pkgkw" -> "import.public" [] OTHER -> "a.b"

ImpKinds == {"plain", "public", "weak"}
PathForms == {"dq", "sq", "split", "hexesc", "split3", "octesc"}   \* "f1.proto" | 'f1.proto' | "f1." "proto" | "\x66" "1.proto" | three pieces

FillKinds == {"linecomment", "blockcomment", "option_str", "option_msglit", "option_angle", "message_kwfields",
              "message_named_import", "enum_kwvalues", "empty_stmt", "service", "extend_brackets", "nested_close",
              "blockcomment_stars",   \* /** doc **/  /***/  /* x **/ : comment ends after an even / odd run of stars
              "option_str_octal"}     \* string literals with 1-, 2- and 3-digit octal escapes followed by non-octal characters

Layouts == {"space", "newline", "blockcomment", "linecomment", "tab_crlf", "starcomment",
            "tight"}   \* no trivia at all between tokens unless two word-like tokens would fuse

Items == [k : {"PKG"}, form : PkgForms] \cup [k : {"IMP"}, kind : ImpKinds, path : PathForms] \cup [k : {"FILL"}, fill : FillKinds]

(* the parser accepts at most one package statement *)
WellFormed(items) == Cardinality({i \in 1..Len(items) : items[i].k = "PKG"}) <= 1

ExpectedPackage(items) ==
  LET ps == {i \in 1..Len(items) : items[i].k = "PKG"}
  IN IF ps = {} THEN "" ELSE PkgName(items[CHOOSE i \in ps : TRUE].form)

RECURSIVE ImportsFrom(_, _, _)
ImportsFrom(items, i, n) ==
  IF i > Len(items) THEN <<>>
  ELSE IF items[i].k = "IMP"
         THEN <<[n |-> n + 1, public |-> items[i].kind = "public", weak |-> items[i].kind = "weak"]>>
                \o ImportsFrom(items, i + 1, n + 1)
         ELSE ImportsFrom(items, i + 1, n)
(* the i-th import statement of the file imports "f<i>.proto" *)
ExpectedImports(items) == ImportsFrom(items, 1, 0)
=============================================================================
