-------------------------- MODULE ReporterContract --------------------------
(* C08: the contract between a compilation and the user's Reporter, as the observable interface:
   callbacks (Error / Warning, each with an entry and an exit) and the result of Compile.
   Written from the property statement:
     - the reporter is never entered concurrently;
     - once Error() returned non-nil, no further Error() call is made and the compilation fails
       with that same error;
     - if every error was accepted but at least one was reported, the result is ErrInvalidSource;
     - warnings never make a compilation fail; it succeeds only if no error was reported.
   The reporter's policy is a parameter: it returns an error on its AbortAt-th Error call
   (0 = accepts everything).                                                              *)
EXTENDS Naturals

CONSTANT AbortAtMax
VARIABLES abortAt,    \* policy of this run
          inflight,   \* number of callbacks currently executing
          aborted,    \* an Error() callback has returned non-nil
          nerr,       \* Error() callbacks started
          nwarn,      \* Warning() callbacks started
          result      \* "running" | "nil" | "abort" (the reporter's own error) | "invalid" | "other"

cvars == <<abortAt, inflight, aborted, nerr, nwarn, result>>

CInit == /\ abortAt \in 0..AbortAtMax
         /\ inflight = 0 /\ aborted = FALSE /\ nerr = 0 /\ nwarn = 0 /\ result = "running"

ErrEnter == /\ result = "running" /\ inflight = 0 /\ ~aborted
            /\ inflight' = 1 /\ nerr' = nerr + 1
            /\ UNCHANGED <<abortAt, aborted, nwarn, result>>

(* r = TRUE: the reporter returned a non-nil error *)
ErrExit(r) == /\ inflight = 1
              /\ r = (abortAt > 0 /\ nerr = abortAt)
              /\ inflight' = 0 /\ aborted' = (aborted \/ r)
              /\ UNCHANGED <<abortAt, nerr, nwarn, result>>

WarnEnter == /\ result = "running" /\ inflight = 0
             /\ inflight' = 1 /\ nwarn' = nwarn + 1
             /\ UNCHANGED <<abortAt, aborted, nerr, result>>

WarnExit == /\ inflight = 1
            /\ inflight' = 0
            /\ UNCHANGED <<abortAt, aborted, nerr, nwarn, result>>

(* Compile returns res *)
Return(res) == /\ result = "running" /\ inflight = 0
               /\ res = IF aborted THEN "abort" ELSE IF nerr > 0 THEN "invalid" ELSE res
               /\ res \in {"nil", "abort", "invalid", "other"}
               /\ (res = "nil" => nerr = 0)
               /\ (res = "other" => nerr = 0)          \* a failure that never reached the reporter
               /\ result' = res
               /\ UNCHANGED <<abortAt, inflight, aborted, nerr, nwarn>>

CNext == \/ ErrEnter \/ ErrExit(TRUE) \/ ErrExit(FALSE) \/ WarnEnter \/ WarnExit
         \/ \E res \in {"nil", "abort", "invalid", "other"} : Return(res)
CSpec == CInit /\ [][CNext]_cvars

NeverConcurrent == inflight <= 1
=============================================================================
