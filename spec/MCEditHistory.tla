--------------------------- MODULE MCEditHistory ---------------------------
(* Enumerate (BFS, every history up to MaxLen) or sample (-simulate, long histories) the edit
   histories of EditHistory.tla from a set of named initial workspaces, and export them as cases
   for harness/incbatch.  A case = the initial workspace + the history; every step carries the
   changed paths, their new content and the spec's classification (see EditHistory.tla).

   ViewMode: "full"  every history is a distinct state (exhaustive over histories),
             "trans" states are identified by (workspace, request, length, last edit): every
                     TRANSITION at every depth is covered with one representative prefix,
   the history variable itself is output-only.                                                  *)
EXTENDS EditHistory, Json

CONSTANTS InitNames, ReqModes, ViewMode, ExportAt   \* ExportAt: "all" | "end"

Ref(p, n) == [pkg |-> p, name |-> n]
Imp(g, pub) == [f |-> g, pub |-> pub]
Refs1(r) == [s \in Slots |-> IF s = "f1" THEN r ELSE NoRef]
Mk(pres, pkg, imps, decls, r1) ==
  [present |-> pres, pkg |-> pkg, imports |-> imps, decls |-> decls \cap DeclPool, refs |-> Refs1(r1),
   defect |-> "none", cmt |-> FALSE]
P == CHOOSE p \in Pkgs : TRUE
Q == IF Cardinality(Pkgs) > 1 THEN CHOOSE p \in Pkgs \ {P} : TRUE ELSE P

(* named initial workspaces over files a, b, c (any further file starts absent and empty) *)
Base(name, f) ==
  CASE name = "chain" ->   \* a -> b -> c, a uses b's host, b uses c's A
         (CASE f = "a" -> Mk(TRUE, P, <<Imp("b", FALSE)>>, {}, Ref(P, "Hb"))
            [] f = "b" -> Mk(TRUE, P, <<Imp("c", FALSE)>>, {"B"}, Ref(P, "A"))
            [] f = "c" -> Mk(TRUE, P, <<>>, {"A", "E"}, NoRef)
            [] OTHER -> DefaultFile)
    [] name = "public" ->  \* a -> b -public-> c, a uses c's A through b
         (CASE f = "a" -> Mk(TRUE, P, <<Imp("b", FALSE)>>, {}, Ref(Q, "A"))
            [] f = "b" -> Mk(TRUE, P, <<Imp("c", TRUE)>>, {"B"}, NoRef)
            [] f = "c" -> Mk(TRUE, Q, <<>>, {"A", "E"}, NoRef)
            [] OTHER -> DefaultFile)
    [] name = "flat" ->    \* no imports
         (CASE f = "a" -> Mk(TRUE, P, <<>>, {"A"}, NoRef)
            [] f = "b" -> Mk(TRUE, Q, <<>>, {"A"}, NoRef)
            [] f = "c" -> Mk(TRUE, P, <<>>, {"E"}, NoRef)
            [] OTHER -> DefaultFile)
    [] name = "hole" ->    \* a imports b and the absent c and uses c's A
         (CASE f = "a" -> Mk(TRUE, P, <<Imp("b", FALSE), Imp("c", FALSE)>>, {}, Ref(P, "A"))
            [] f = "b" -> Mk(TRUE, P, <<>>, {"B"}, NoRef)
            [] f = "c" -> Mk(FALSE, P, <<>>, {"A"}, NoRef)
            [] OTHER -> DefaultFile)
    [] name = "cycle" ->   \* a -> b -> a, c imports a
         (CASE f = "a" -> Mk(TRUE, P, <<Imp("b", FALSE)>>, {"A"}, Ref(P, "Hb"))
            [] f = "b" -> Mk(TRUE, P, <<Imp("a", FALSE)>>, {}, Ref(P, "A"))
            [] f = "c" -> Mk(TRUE, P, <<Imp("a", FALSE)>>, {}, Ref(P, "A"))
            [] OTHER -> DefaultFile)
    [] name = "twins" ->   \* a and b in one package, unrelated by imports, both declare B: duplicate at link level
         (CASE f = "a" -> Mk(TRUE, P, <<>>, {"B"}, NoRef)
            [] f = "b" -> Mk(TRUE, P, <<>>, {"B"}, NoRef)
            [] f = "c" -> Mk(TRUE, P, <<Imp("a", FALSE), Imp("b", FALSE)>>, {}, NoRef)
            [] OTHER -> DefaultFile)
    [] name = "late" ->    \* a imports the absent b and c; b and c collide once both exist
         (CASE f = "a" -> Mk(TRUE, P, <<Imp("b", FALSE), Imp("c", FALSE)>>, {}, NoRef)
            [] f = "b" -> Mk(FALSE, P, <<>>, {"A", "B"}, NoRef)
            [] f = "c" -> Mk(TRUE, P, <<>>, {}, NoRef)
            [] OTHER -> DefaultFile)
    [] OTHER -> DefaultFile

InitWs(name) == [f \in Files |-> Base(name, f)]

Init ==
  /\ \E name \in InitNames, m \in ReqModes :
       /\ origin = [name |-> name, ws |-> WsV(InitWs(name)), req |-> m,
                    exists |-> Present(InitWs(name)), request |-> Request(InitWs(name), m),
                    cyclic |-> HasCycle(InitWs(name), ReachStar(InitWs(name), Request(InitWs(name), m))),
                    tainted |-> Tainted(InitWs(name), ReachStar(InitWs(name), Request(InitWs(name), m))),
                    valid |-> Verdict(InitWs(name), m),
                    bad |-> {f \in ReachStar(InitWs(name), Request(InitWs(name), m)) \cap Present(InitWs(name)) :
                               LocalBad(InitWs(name), f)}]
       /\ ws = InitWs(name)
       /\ req = m
  /\ hist = <<>>
  /\ done = FALSE

Spec == Init /\ [][Next]_vars

View == IF ViewMode = "full" THEN <<ws, req, origin.name, hist, done>>
        ELSE <<ws, req, origin.name, Len(hist), IF Len(hist) = 0 THEN <<>> ELSE hist[Len(hist)].edit, done>>

Case == [kind |-> "hist", origin |-> origin, steps |-> [i \in 1..Len(hist) |-> StepV(hist[i])], final |-> WsV(ws)]

Export ==
  ((ExportAt = "all" /\ Len(hist) >= 1 /\ ~done) \/ (ExportAt = "end" /\ done))
     => PrintT("CASE " \o ToJson(Case))
=============================================================================
