------------------------------- MODULE MCExpParseCall -------------------------------
(* Design-level check of ExpParseCall.tla: every call history the specification accepts, for files
   of up to MaxInput bytes and up to MaxDiag diagnostics, never records an ICE, and its result is
   ok exactly when no Error-or-worse diagnostic was recorded. *)
EXTENDS ExpParseCall, TLC
CONSTANTS MaxInput, MaxDiag
VARIABLE okret
mvars == <<pvars, okret>>

Spans(l) == {<<s, t>> : s \in 0..l, t \in 0..l}

MInit == Init /\ okret = "none"
MNext ==
  \/ \E l \in 0..MaxInput : phase = "idle" /\ Call(l) /\ UNCHANGED okret
  \/ \E lv \in ICE..Remark : \E sp \in Spans(len) \cup {<<0, len + 1>>} :
        ndiag < MaxDiag /\ Diag(lv, <<sp>>, << >>) /\ UNCHANGED okret
  \/ \E ok \in BOOLEAN : Return(ok, TRUE) /\ okret' = ok
MSpec == MInit /\ [][MNext]_mvars

Contract == phase = "returned" => /\ worst # ICE
                                  /\ (okret = TRUE) = (worst \in {Warning, Remark, NoDiag})
=============================================================================
