--------------------------- MODULE MCDiagWorkspace ---------------------------
(* Enumerate (or, with -simulate, sample) every workspace of n \in NFilesSet files over the given
   import-set size, defect kinds and "missing import" choices, and export the invalid ones as
   cases for harness/reportdrv (mode ws): the driver renders the files, compiles the workspace
   with the real experimental compiler at parallelism 1..16, repeatedly, and compares the
   canonicalized reports.  Only the files with inws = TRUE are handed to the compiler.  `rev` chooses the order in which the files are handed to the
   compiler (an input, fixed per case).                                                        *)
EXTENDS DiagWorkspace, TLC, Json

CONSTANTS NFilesSet, Kinds, MaxImports, AllowSelf, MissingChoices, RevChoices, InWsChoices,
          OnlyPinned    \* export only the ImportedOnlyClash shapes (acyclic)

VARIABLES ws, rev, nfiles
vars == <<ws, rev, nfiles>>

Init == ws = <<>> /\ rev \in RevChoices /\ nfiles \in NFilesSet

AddFile ==
  /\ Len(ws) < nfiles
  /\ LET me == Len(ws) + 1
     IN \E imps \in {s \in SUBSET (1..nfiles) : Cardinality(s) <= MaxImports /\ (AllowSelf \/ me \notin s)} :
        \E m \in MissingChoices : \E k \in Kinds : \E w \in InWsChoices :
           ws' = Append(ws, [inws |-> w, imports |-> imps, missing |-> m, kind |-> k])
  /\ UNCHANGED <<rev, nfiles>>
Next == AddFile
Spec == Init /\ [][Next]_vars

Complete == Len(ws) = nfiles

Case == [kind |-> "ws",
         files |-> [i \in 1..Len(ws) |->
                      [name |-> Names[i], imports |-> {Names[j] : j \in ws[i].imports},
                       missing |-> ws[i].missing, kind |-> ws[i].kind, inws |-> ws[i].inws]],
         rev |-> rev,
         cyclic |-> Cyclic(ws),
         selfimport |-> SelfImport(ws),
         tainted |-> {Names[i] : i \in TaintedByCycle(ws)},
         compiled |-> {Names[i] : i \in Compiled(ws)},
         expect |-> IF Cyclic(ws) THEN {} ELSE Expect(ws),
         unsettled |-> Unsettled(ws),
         pinned |-> ImportedOnlyClash(ws) /\ ~ Cyclic(ws),
         shape |-> Shape(ws)]

Export == (Complete /\ Workspace(ws) # {} /\ Invalid(ws)
           /\ (OnlyPinned => (ImportedOnlyClash(ws) /\ ~ Cyclic(ws)))) => PrintT("CASE " \o ToJson(Case))
=============================================================================
