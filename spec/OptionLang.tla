------------------------------ MODULE OptionLang ------------------------------
(* C20 / C21 / C22: how option statements are interpreted, written from protoc's rules
   (descriptor.cc OptionInterpreter::InterpretSingleOption / SetOptionValue / ExamineIfOptionIsSet,
   parser.cc ParseOption, text_format.cc for message literals, retention.cc StripMessage) and from
   the property statements.  NOT a transcription of options/options.go.

   A fixed custom-option schema (rendered by harness/optionlang/render.go, package p, proto2):

     enum E { E_ZERO = 0; E_ONE = 1; E_NEG = -1; }
     message Sub { optional int32 x; optional string y; repeated int32 rx; }
     message Opt { optional <t> f_<t> for the 15 scalar types; optional E f_enum; optional Sub sub;
                   repeated int32 ri; repeated string rs; repeated Sub rm; map<string,int32> mp;
                   optional group Grp { optional int32 g; } (field name grp);
                   optional google.protobuf.Any any; map<string,Sub> mm;
                   repeated group RG { optional int32 g; optional int32 h; } (field name rg); extensions; }
     extend Opt { optional int32 oext; optional Sub osub; }
     extend google.protobuf.<Kind>Options { optional <t> x_<t>; optional E x_enum; optional Opt m;
                   repeated int32 r; repeated Sub rm; }
   plus the standard options of the element kind (StdTop) and the field pseudo-options.

   Schema parameters (record sch):
     tf, tk   one schema field (by id) declared with  targets = tk  (tf = "none": no restriction)
     ret      retention (unset | RUNTIME | SOURCE) of the schema fields in RetIds
     ed       "proto2" (the file above) | "open" | "closed": an  edition = "2023"  file in which enum E is
              OPEN (the edition's default) resp. CLOSED by  option features.enum_type = CLOSED

   Source values (what is written in the .proto):        SV  = [k, neg, s, fs]
     k = int (s decimal magnitude) | flt | id | str | msg (fs = <<[nm, v, colon]>>) | lst
   Canonical values (what the options message holds):    CV  = [k, neg, s, fs]
     k = int | flt | bool | str | bytes | enum (s = value NAME) | msg (fs = <<[n, v]>>) | lst | map
         | packed (a bytes field holding the encoding of the message fs of type p.<s>)

   Result of interpreting:  [ok, unc, pre, rule, v]
     unc   the case touches a rule that is not certain without protoc -> never exported
     pre   rejected before option interpretation (syntax error / name resolution in the linker)
   Rule ids are evidence features; accept/reject and values are what is compared.

   Certain rules (rule ids in parentheses are the reject reasons):
     * int field: integer literal only (int-type), range by width and sign (int-range);
       "-0" is not generated (protoc rejects it for unsigned types, stated uncertain here)
     * float / double: integer literal, float literal, identifiers inf / nan, optionally negated
     * bool: identifiers true / false; inside a message literal also True t False f
       (integers 0 / 1 inside a literal: uncertain)
     * enum: by value name only; inside a message literal also by the number of a declared value;
       an undeclared number is rejected when E is closed (proto2, or features.enum_type = CLOSED) and
       accepted, stored as that number, when E is open (text_format.cc: unknown numbers are set for
       enums that are not closed); a number outside int32 rejects either way
     * string / bytes: string literal only; message / group: message literal only
     * a path component before the last must be a singular message or group (path-not-message,
       path-repeated); unknown names reject
     * non-repeated field: a second set rejects (already-set), also for a message set as a whole
       after one of its sub-fields was set; a sub-field after the whole message MERGES when that
       sub-field is still unset (ExamineIfOptionIsSet looks inside the earlier value)
     * repeated field: values append in statement order; a list literal is legal only inside a
       message literal and only for a repeated field; two entries of a map with the same key: uncertain
     * inside a message literal a singular field may appear once (ml-duplicate); a scalar needs ':'
     * a field of type google.protobuf.Any may be written  { [type.googleapis.com/p.Sub] { ... } }  (also
       type.googleprod.com): type_url is that text, value the encoding of the literal read as a p.Sub; any
       other host, an unknown message type, a type reference in a message that is not Any, or an invalid
       inner literal reject; a type reference mixed with other fields: uncertain
     * a field declared with targets may only be used on elements of those kinds, wherever it
       occurs: option name component or message literal field (target)                         *)
EXTENDS Naturals, Sequences, FiniteSets, TLC

(* ------------------------------------------------------------------------------------------ *)
(* element kinds; "extension" is a field declared in an extend block (target type FIELD)        *)
Kinds == {"file", "message", "field", "extension", "oneof", "enum", "enumvalue", "service", "method",
          "extrange"}
Target(kind) == IF kind = "extension" THEN "field" ELSE kind

(* ------------------------------------------------------------------------------------------ *)
(* values *)
V(k, neg, s, fs) == [k |-> k, neg |-> neg, s |-> s, fs |-> fs]
Int(s)    == V("int", FALSE, s, <<>>)
NegInt(s) == V("int", TRUE, s, <<>>)
Flt(s)    == V("flt", FALSE, s, <<>>)
NegFlt(s) == V("flt", TRUE, s, <<>>)
Id(s)     == V("id", FALSE, s, <<>>)
NegId(s)  == V("id", TRUE, s, <<>>)
Str(s)    == V("str", FALSE, s, <<>>)
NP(n, ext) == [n |-> n, ext |-> ext]                       \* a name component; ext: written (p.n) / [p.n]
MF(n, v)   == [nm |-> NP(n, FALSE), v |-> v, colon |-> TRUE]   \* message literal field  n: v
MFx(n, v)  == [nm |-> NP(n, TRUE), v |-> v, colon |-> TRUE]    \*                       [p.n]: v
MFnc(n, v) == [nm |-> NP(n, FALSE), v |-> v, colon |-> FALSE]  \*                        n v   (no colon)
Msg(fs)    == V("msg", FALSE, "", fs)
Lst(vs)    == V("lst", FALSE, "", [i \in 1..Len(vs) |-> MF("", vs[i])])
Stmt(path, v) == [path |-> path, v |-> v]

CVal(k, neg, s) == V(k, neg, s, <<>>)
CMsg(es) == V("msg", FALSE, "", es)
E(n, v)  == [n |-> n, v |-> v]
NoVal    == V("none", FALSE, "", <<>>)

Ok(v)      == [ok |-> TRUE,  unc |-> FALSE, pre |-> FALSE, rule |-> "",   v |-> v]
Rej(rule)  == [ok |-> FALSE, unc |-> FALSE, pre |-> FALSE, rule |-> rule, v |-> NoVal]
RejPre(rule) == [ok |-> FALSE, unc |-> FALSE, pre |-> TRUE, rule |-> rule, v |-> NoVal]
Unc(rule)  == [ok |-> FALSE, unc |-> TRUE,  pre |-> FALSE, rule |-> rule, v |-> NoVal]

(* ------------------------------------------------------------------------------------------ *)
(* integer magnitudes: decimal strings in increasing order; TLC integers are 32 bit, so range     *)
(* checks are rank comparisons                                                                  *)
Mags == << "0", "1", "2", "5", "7", "2147483647", "2147483648", "2147483649", "4294967295", "4294967296",
           "9223372036854775807", "9223372036854775808", "18446744073709551615" >>
Rank(s) == CHOOSE i \in 1..Len(Mags) : Mags[i] = s
RMaxI32 == Rank("2147483647")              \* 2^31 - 1
RPow31  == Rank("2147483648")              \* 2^31
RMaxU32 == Rank("4294967295")              \* 2^32 - 1
RMaxI64 == Rank("9223372036854775807")     \* 2^63 - 1
RPow63  == Rank("9223372036854775808")     \* 2^63
RMaxU64 == Rank("18446744073709551615")    \* 2^64 - 1

S32 == {"int32", "sint32", "sfixed32"}
S64 == {"int64", "sint64", "sfixed64"}
U32 == {"uint32", "fixed32"}
U64 == {"uint64", "fixed64"}
IntTypes   == S32 \cup S64 \cup U32 \cup U64
FloatTypes == {"float", "double"}
ScalarTypes == IntTypes \cup FloatTypes \cup {"bool", "string", "bytes"}
ValueTypes  == ScalarTypes \cup {"enum"}

InRange(t, neg, r) ==
  CASE t \in S32 -> IF neg THEN r <= RPow31 ELSE r <= RMaxI32
    [] t \in S64 -> IF neg THEN r <= RPow63 ELSE r <= RMaxI64
    [] t \in U32 -> ~neg /\ r <= RMaxU32
    [] t \in U64 -> ~neg /\ r <= RMaxU64

(* enums: value names and numbers (numbers as [neg, s]) *)
EnumNames(et) ==
  CASE et = "E"            -> {"E_ZERO", "E_ONE", "E_NEG"}
    [] et = "OptimizeMode" -> {"SPEED", "CODE_SIZE", "LITE_RUNTIME"}
    [] et = "Retention"    -> {"RETENTION_UNKNOWN", "RETENTION_RUNTIME", "RETENTION_SOURCE"}
    [] et = "Idempotency"  -> {"IDEMPOTENCY_UNKNOWN", "NO_SIDE_EFFECTS", "IDEMPOTENT"}
    [] et = "TargetType"   -> {"TARGET_TYPE_FILE", "TARGET_TYPE_FIELD"}      \* (two of the declared names)
    [] OTHER -> {}
ENumName(neg, s) == CASE ~neg /\ s = "0" -> "E_ZERO" [] ~neg /\ s = "1" -> "E_ONE"
                      [] neg /\ s = "1" -> "E_NEG" [] OTHER -> ""

(* ------------------------------------------------------------------------------------------ *)
(* schema: fields of each message type                                                          *)
F(n, t, mt, card, ext, id) == [n |-> n, t |-> t, mt |-> mt, card |-> card, ext |-> ext, id |-> id]
ValT(t) == IF t = "enum" THEN "E" ELSE ""          \* enum type of the custom enum fields

SubFields == { F("x", "int32", "", "one", FALSE, "Sub.x"), F("y", "string", "", "one", FALSE, "Sub.y"),
               F("rx", "int32", "", "rep", FALSE, "Sub.rx") }
GrpFields == { F("g", "int32", "", "one", FALSE, "Grp.g") }
RGFields  == { F("g", "int32", "", "one", FALSE, "RG.g"), F("h", "int32", "", "one", FALSE, "RG.h") }
AnyFields == { F("type_url", "string", "", "one", FALSE, "Any.type_url"), F("value", "bytes", "", "one", FALSE, "Any.value") }
MapMFields == { F("key", "string", "", "one", FALSE, "MpM.key"), F("value", "msg", "Sub", "one", FALSE, "MpM.value") }
MapFields == { F("key", "string", "", "one", FALSE, "Mp.key"), F("value", "int32", "", "one", FALSE, "Mp.value") }
OptFields == { F("f_" \o t, t, ValT(t), "one", FALSE, "Opt.f_" \o t) : t \in ValueTypes } \cup
             { F("sub", "msg", "Sub", "one", FALSE, "Opt.sub"),
               F("ri", "int32", "", "rep", FALSE, "Opt.ri"),
               F("rs", "string", "", "rep", FALSE, "Opt.rs"),
               F("rm", "msg", "Sub", "rep", FALSE, "Opt.rm"),
               F("mp", "msg", "Mp", "map", FALSE, "Opt.mp"),
               F("grp", "grp", "Grp", "one", FALSE, "Opt.grp"),
               F("any", "msg", "Any", "one", FALSE, "Opt.any"),
               F("mm", "msg", "MpM", "map", FALSE, "Opt.mm"),
               F("rg", "grp", "RG", "rep", FALSE, "Opt.rg"),
               F("oext", "int32", "", "one", TRUE, "oext"),
               F("osub", "msg", "Sub", "one", TRUE, "osub") }
CustomTop == { F("x_" \o t, t, ValT(t), "one", TRUE, "x_" \o t) : t \in ValueTypes } \cup
             { F("m", "msg", "Opt", "one", TRUE, "m"),
               F("r", "int32", "", "rep", TRUE, "r"),
               F("rm", "msg", "Sub", "rep", TRUE, "rm") }

(* standard options of each kind that take scalar / enum values; json_name and default are the
   field pseudo-options (the host field is  optional int32)                                      *)
Std(n, t, mt) == F(n, t, mt, "one", FALSE, "std." \o n)
StdRep(n, t, mt) == F(n, t, mt, "rep", FALSE, "std." \o n)     \* a repeated standard option
StdTop(kind) ==
  CASE kind = "file"      -> { Std("deprecated", "bool", ""), Std("java_package", "string", ""),
                               Std("optimize_for", "enum", "OptimizeMode"), Std("cc_enable_arenas", "bool", "") }
    [] kind = "message"   -> { Std("deprecated", "bool", ""), Std("no_standard_descriptor_accessor", "bool", "") }
    [] kind = "field"     -> { Std("deprecated", "bool", ""), Std("debug_redact", "bool", ""),
                               Std("retention", "enum", "Retention"), StdRep("targets", "enum", "TargetType"),
                               Std("json_name", "string", ""), Std("default", "int32", "") }
    [] kind = "extension" -> { Std("deprecated", "bool", ""), Std("debug_redact", "bool", ""),
                               Std("retention", "enum", "Retention"), StdRep("targets", "enum", "TargetType"),
                               Std("default", "int32", "") }
    [] kind = "enum"      -> { Std("deprecated", "bool", "") }
    [] kind = "enumvalue" -> { Std("deprecated", "bool", ""), Std("debug_redact", "bool", "") }
    [] kind = "service"   -> { Std("deprecated", "bool", "") }
    [] kind = "method"    -> { Std("deprecated", "bool", ""), Std("idempotency_level", "enum", "Idempotency") }
    [] OTHER -> {}                                   \* oneof, extension range: none in the fragment

Fields(mt, kind) ==
  CASE mt = "TOP" -> CustomTop \cup StdTop(kind)
    [] mt = "Opt" -> OptFields
    [] mt = "Sub" -> SubFields
    [] mt = "Grp" -> GrpFields
    [] mt = "Mp"  -> MapFields
    [] mt = "Any" -> AnyFields
    [] mt = "MpM" -> MapMFields
    [] mt = "RG"  -> RGFields

(* an option-name component names a field by its name; extensions by (p.name) *)
Find(mt, kind, np) == { f \in Fields(mt, kind) : f.n = np.n /\ f.ext = np.ext }
(* inside a message literal a group is named by its TYPE name *)
FindML(mt, kind, np) == { f \in Fields(mt, kind) :
                            \/ (f.t # "grp" /\ f.n = np.n /\ f.ext = np.ext)
                            \/ (f.t = "grp" /\ ~np.ext /\ f.mt = np.n) }

(* type references  [host/p.Type]  of the expanded Any syntax (written as extension-like name components) *)
AnyRefs == {"type.googleapis.com/p.Sub", "type.googleprod.com/p.Sub", "example.com/p.Sub", "type.googleapis.com/p.Nope"}
AnyHostOk(n) == n \in {"type.googleapis.com/p.Sub", "type.googleprod.com/p.Sub", "type.googleapis.com/p.Nope"}
AnyType(n) == IF n \in {"type.googleapis.com/p.Sub", "type.googleprod.com/p.Sub", "example.com/p.Sub"} THEN "Sub" ELSE ""

RetIds == {"x_int32", "m", "Opt.f_int32", "Opt.sub", "Opt.rm", "Sub.x", "Sub.y", "Grp.g", "RG.g"}
NoSch == [tf |-> "none", tk |-> {}, ret |-> [i \in RetIds |-> "unset"], ed |-> "proto2"]
Allowed(f, kind, sch) == sch.tf # f.id \/ Target(kind) \in sch.tk
RetOf(f, sch) == IF f.id \in RetIds THEN sch.ret[f.id] ELSE "unset"

(* ------------------------------------------------------------------------------------------ *)
(* entries of a canonical message: sequence of [n, v], in first-set order                       *)
Has(es, n) == \E i \in 1..Len(es) : es[i].n = n
Get(es, n) == es[CHOOSE i \in 1..Len(es) : es[i].n = n].v
Put(es, n, v) == IF Has(es, n) THEN [i \in 1..Len(es) |-> IF es[i].n = n THEN E(n, v) ELSE es[i]]
                 ELSE Append(es, E(n, v))

(* ------------------------------------------------------------------------------------------ *)
(* scalar coercion                                                                              *)
Scalar(f, sv, inML, ed) ==
  LET t == f.t IN
  IF t \in IntTypes THEN
      IF sv.k # "int" THEN Rej("int-type")
      ELSE IF sv.neg /\ sv.s = "0" THEN Unc("unc:minus-zero")
      ELSE IF InRange(t, sv.neg, Rank(sv.s)) THEN Ok(CVal("int", sv.neg, sv.s)) ELSE Rej("int-range")
  ELSE IF t \in FloatTypes THEN
      IF sv.k = "int" THEN (IF sv.neg /\ sv.s = "0" THEN Unc("unc:minus-zero") ELSE Ok(CVal("flt", sv.neg, sv.s)))
      ELSE IF sv.k = "flt" THEN Ok(CVal("flt", sv.neg, sv.s))
      ELSE IF sv.k = "id" /\ sv.s = "inf" THEN Ok(CVal("flt", sv.neg, "inf"))
      ELSE IF sv.k = "id" /\ sv.s = "nan" THEN Ok(CVal("flt", FALSE, "nan"))
      ELSE Rej("float-type")
  ELSE IF t = "bool" THEN
      IF sv.k = "id" /\ ~sv.neg /\ sv.s \in (IF inML THEN {"true", "True", "t"} ELSE {"true"}) THEN Ok(CVal("bool", FALSE, "true"))
      ELSE IF sv.k = "id" /\ ~sv.neg /\ sv.s \in (IF inML THEN {"false", "False", "f"} ELSE {"false"}) THEN Ok(CVal("bool", FALSE, "false"))
      ELSE IF inML /\ sv.k = "int" THEN Unc("unc:bool-int-in-literal")
      ELSE Rej("bool-type")
  ELSE IF t = "string" THEN (IF sv.k = "str" THEN Ok(CVal("str", FALSE, sv.s)) ELSE Rej("string-type"))
  ELSE IF t = "bytes" THEN (IF sv.k = "str" THEN Ok(CVal("bytes", FALSE, sv.s)) ELSE Rej("bytes-type"))
  ELSE (* enum *)
      IF sv.k = "id" /\ ~sv.neg THEN
          (IF sv.s \in EnumNames(f.mt) THEN Ok(CVal("enum", FALSE, sv.s)) ELSE Rej("enum-name"))
      ELSE IF sv.k = "int" THEN
          IF ~inML THEN Rej("enum-number")
          ELSE IF f.mt # "E" THEN Unc("unc:std-enum-number")
          ELSE IF ENumName(sv.neg, sv.s) # "" THEN Ok(CVal("enum", FALSE, ENumName(sv.neg, sv.s)))
          ELSE IF ~InRange("int32", sv.neg, Rank(sv.s)) THEN Rej("enum-number-range")
          ELSE IF ed = "open" THEN Ok(CVal("enum", FALSE, (IF sv.neg THEN "#-" ELSE "#") \o sv.s))   \* unnamed number
          ELSE Rej("enum-number-undeclared")
      ELSE Rej("enum-type")

(* ------------------------------------------------------------------------------------------ *)
(* setting one field of a message whose entries are es; mutual recursion through message        *)
(* literals                                                                                     *)
RECURSIVE SetField(_, _, _, _, _, _), MLFold(_, _, _, _, _, _), AppendAll(_, _, _, _, _, _)

One(f, sv, inML, kind, sch) ==          \* one value for field f (an element if f is repeated)
  IF f.t \in {"msg", "grp"} THEN
      IF sv.k = "msg" THEN MLFold(f.mt, sv.fs, 1, <<>>, kind, sch) ELSE Rej("message-type")
  ELSE IF sv.k = "msg" THEN Rej("scalar-got-message")
  ELSE Scalar(f, sv, inML, sch.ed)

KeyOf(cv) == IF Has(cv.fs, "key") THEN Get(cv.fs, "key").s ELSE ""
AddElem(f, es, cv) ==                   \* append to a repeated / map field
  LET cur == IF Has(es, f.n) THEN Get(es, f.n).fs ELSE <<>> IN
  IF f.card = "map" /\ \E i \in 1..Len(cur) : KeyOf(cur[i].v) = KeyOf(cv) THEN Unc("unc:map-duplicate-key")
  ELSE Ok(CMsg(Put(es, f.n, V(IF f.card = "map" THEN "map" ELSE "lst", FALSE, "", Append(cur, E("", cv))))))

AppendAll(f, es, vs, j, kind, sch) ==   \* elements vs[j..] of a list literal
  IF j > Len(vs) THEN Ok(CMsg(es))
  ELSE IF vs[j].v.k = "lst" THEN RejPre("syntax:nested-list")
  ELSE LET c == One(f, vs[j].v, TRUE, kind, sch) IN
       IF ~c.ok THEN c
       ELSE LET a == AddElem(f, es, c.v) IN
            IF ~a.ok THEN a ELSE AppendAll(f, a.v.fs, vs, j + 1, kind, sch)

SetField(f, es, sv, inML, kind, sch) ==
  IF sv.k = "lst" THEN
      IF ~inML THEN RejPre("syntax:list-as-option-value")
      ELSE IF f.card = "one" THEN Rej("ml-list-for-singular")
      ELSE IF Len(sv.fs) = 0 THEN Unc("unc:empty-list")
      ELSE AppendAll(f, es, sv.fs, 1, kind, sch)
  ELSE LET c == One(f, sv, inML, kind, sch) IN
       IF ~c.ok THEN c
       ELSE IF f.card # "one" THEN AddElem(f, es, c.v)
       ELSE IF Has(es, f.n) THEN Rej(IF inML THEN "ml-duplicate" ELSE "already-set")
       ELSE Ok(CMsg(Put(es, f.n, c.v)))

MLFold(mt, fs, i, es, kind, sch) ==     \* fields fs[i..] of a message literal of type mt
  IF i > Len(fs) THEN Ok(CMsg(es))
  ELSE LET e == fs[i]
           cand == FindML(mt, kind, e.nm)
       IN IF e.nm.ext /\ e.nm.n \in AnyRefs THEN
            IF mt # "Any" THEN Rej("any-ref-outside-any")
            ELSE IF Len(fs) # 1 THEN Unc("unc:any-ref-mixed")
            ELSE IF ~AnyHostOk(e.nm.n) THEN Rej("any-host")
            ELSE IF AnyType(e.nm.n) = "" THEN Rej("any-unknown-type")
            ELSE IF e.v.k # "msg" THEN Rej("any-value-not-message")
            ELSE IF sch.tf # "none" THEN Unc("unc:targets-inside-any")
            ELSE LET inner == MLFold(AnyType(e.nm.n), e.v.fs, 1, <<>>, kind, sch) IN
                 IF ~inner.ok THEN inner
                 ELSE Ok(CMsg(<< E("type_url", CVal("str", FALSE, e.nm.n)),
                                 E("value", V("packed", FALSE, AnyType(e.nm.n), inner.v.fs)) >>))
          ELSE IF cand = {} THEN Rej(IF e.nm.ext THEN "ml-unknown-extension" ELSE "ml-unknown-field")
          ELSE LET f == CHOOSE c \in cand : TRUE IN
               IF ~Allowed(f, kind, sch) THEN Rej("target")
               ELSE IF ~e.colon /\ f.t \notin {"msg", "grp"} THEN RejPre("syntax:ml-missing-colon")
               ELSE LET r == SetField(f, es, e.v, TRUE, kind, sch) IN
                    IF ~r.ok THEN r ELSE MLFold(mt, fs, i + 1, r.v.fs, kind, sch)

(* the option name path[i..] applied inside a message of type mt with entries es *)
RECURSIVE Walk(_, _, _, _, _, _, _)
Walk(mt, es, path, i, sv, kind, sch) ==
  LET np == path[i]
      cand == Find(mt, kind, np)
  IN IF cand = {} THEN (IF np.ext /\ i = 1 THEN RejPre("link:unknown-extension")
                        ELSE Rej(IF np.ext THEN "unknown-extension" ELSE "unknown-field"))
     ELSE LET f == CHOOSE c \in cand : TRUE IN
          IF ~Allowed(f, kind, sch) THEN Rej("target")
          ELSE IF i < Len(path) THEN
              IF f.t \notin {"msg", "grp"} THEN Rej("path-not-message")
              ELSE IF f.card # "one" THEN Rej("path-repeated")
              ELSE LET child == IF Has(es, f.n) THEN Get(es, f.n).fs ELSE <<>>
                       r == Walk(f.mt, child, path, i + 1, sv, kind, sch)
                   IN IF r.ok THEN Ok(CMsg(Put(es, f.n, r.v))) ELSE r
          ELSE SetField(f, es, sv, FALSE, kind, sch)

(* InterpretOption: one statement applied to the options message (entries es) of an element of
   the given kind: the new entries, or the reject rule                                          *)
InterpretOption(es, stmt, kind, sch) == Walk("TOP", es, stmt.path, 1, stmt.v, kind, sch)

(* ------------------------------------------------------------------------------------------ *)
(* C21: what can be interpreted without linking: a standard option (or pseudo-option) given as   *)
(* a single name with a scalar / enum value                                                     *)
Local(stmt) == ~stmt.path[1].ext /\ Len(stmt.path) = 1 /\ stmt.v.k \notin {"msg", "lst"}

(* ------------------------------------------------------------------------------------------ *)
(* C22: stripping source-retention options.  Entries of a message of type mt.                   *)
FieldByEntry(mt, kind, n) == CHOOSE f \in Fields(mt, kind) : f.n = n
RECURSIVE StripEs(_, _, _, _), StripList(_, _, _, _)
StripEs(mt, es, kind, sch) ==
  LET keep == SelectSeq(es, LAMBDA e : RetOf(FieldByEntry(mt, kind, e.n), sch) # "SOURCE") IN
  [i \in 1..Len(keep) |->
     LET e == keep[i]
         f == FieldByEntry(mt, kind, e.n)
     IN IF f.t \in {"msg", "grp"} /\ f.card = "one" THEN E(e.n, CMsg(StripEs(f.mt, e.v.fs, kind, sch)))
        ELSE IF f.t \in {"msg", "grp"} /\ f.card = "rep" THEN E(e.n, V("lst", FALSE, "", StripList(f.mt, e.v.fs, kind, sch)))
        ELSE IF f.card = "map" THEN E(e.n, V("map", FALSE, "", StripList(f.mt, e.v.fs, kind, sch)))   \* entry = {key, value}
        ELSE e]
StripList(mt, ls, kind, sch) == [j \in 1..Len(ls) |-> E("", CMsg(StripEs(mt, ls[j].v.fs, kind, sch)))]

(* removed paths: sequences of entry names and list indices (as strings) *)
RECURSIVE RemovedEs(_, _, _, _, _)
RemovedEs(mt, es, kind, sch, prefix) ==
  UNION { LET e == es[i]
              f == FieldByEntry(mt, kind, e.n)
              p == Append(prefix, e.n)
          IN IF RetOf(f, sch) = "SOURCE" THEN {p}
             ELSE IF f.t \in {"msg", "grp"} /\ f.card = "one" THEN RemovedEs(f.mt, e.v.fs, kind, sch, p)
             ELSE IF f.t \in {"msg", "grp"} /\ f.card = "rep" THEN
                 UNION { RemovedEs(f.mt, e.v.fs[j].v.fs, kind, sch, Append(p, ToString(j - 1))) : j \in 1..Len(e.v.fs) }
             ELSE {}
          : i \in 1..Len(es) }

(* map fields: something is removed inside a VALUE of the map.  Entries of a map have no index that
   could be recovered from the value (protoc numbers them in statement order), so the locations below such
   a map field are not decided here: the driver ignores them (paths to the map fields are exported as fuzzy) *)
RECURSIVE FuzzyEs(_, _, _, _, _)
FuzzyEs(mt, es, kind, sch, prefix) ==
  UNION { LET e == es[i]
              f == FieldByEntry(mt, kind, e.n)
              p == Append(prefix, e.n)
          IN IF RetOf(f, sch) = "SOURCE" THEN {}
             ELSE IF f.t \in {"msg", "grp"} /\ f.card = "one" THEN FuzzyEs(f.mt, e.v.fs, kind, sch, p)
             ELSE IF f.t \in {"msg", "grp"} /\ f.card = "rep" THEN
                 UNION { FuzzyEs(f.mt, e.v.fs[j].v.fs, kind, sch, Append(p, ToString(j - 1))) : j \in 1..Len(e.v.fs) }
             ELSE IF f.card = "map" /\ \E j \in 1..Len(e.v.fs) : RemovedEs(f.mt, e.v.fs[j].v.fs, kind, sch, <<>>) # {}
                  THEN {p}
             ELSE {}
          : i \in 1..Len(es) }

(* the options message of an element: when every set field has source retention the options
   message itself goes away (documented: "we'll clear out the options by returning the zero
   value"), and with it every location under it; a NESTED message that loses all its fields stays
   as an empty message (protoc clears the fields, not the parent)                               *)
StripTop(es, kind, sch) ==
  LET out == StripEs("TOP", es, kind, sch)
      rem == RemovedEs("TOP", es, kind, sch, <<>>)
  IN IF Len(es) > 0 /\ Len(out) = 0 THEN [absent |-> TRUE, es |-> <<>>, removed |-> {<<>>}, fuzzy |-> {}, changed |-> TRUE]
     ELSE [absent |-> Len(es) = 0, es |-> out, removed |-> rem, fuzzy |-> FuzzyEs("TOP", es, kind, sch, <<>>),
           changed |-> out # es]
=============================================================================
