----------------------------- MODULE MCSymbolsGen -----------------------------
(* Evaluates the universe of SymbolsUniverse.tla for the configured tags once and prints it; the engine
   writes it out as the literal module SymbolsFD.tla (and hands the same JSON to the Go driver).  *)
EXTENDS SymbolsUniverse, Json
VARIABLE done
Init == /\ done = FALSE
        /\ PrintT("CASE " \o ToJson([kind |-> "universe",
              files |-> {[id |-> f, pkg |-> UFD0[f].pkg, syms |-> UFD0[f].syms, exts |-> UFD0[f].exts,
                          deps |-> UFD0[f].deps, pad |-> UFD0[f].pad] : f \in AllIds}]))
Next == done = FALSE /\ done' = TRUE
Spec == Init /\ [][Next]_done
=============================================================================
