------------------------------- MODULE MCVisible -------------------------------
(* C18: every import graph over N files with edge labels none / plain / public (acyclic), every
   file as resolver root, every element name / extension number / file path of the workspace as
   query.  Expected: found  <=>  the defining file is in ProtoLang!Visible(root).

   File i (x<i>.proto) defines, with names unique across files:
     message M<i> { optional int32 f<i> = 1; message N<i> {} enum E<i> { V<i> } oneof o<i> { int32 g<i> = 2; }
                    extend .pkg.M<i> { optional int32 nx<i> = 1000+10i+9; } }
     enum T<i> { TV<i> }     extend .pkg.M<i> { optional int32 x<i> = 1000+10i; }
     service S<i> { rpc R<i>(.pkg.M<i>) returns (.pkg.M<i>); }
     and, for every direct import k, an extension y<i>_<k> of M<k> (number 1000+10i+k): an extension
     is visible when ITS file is, whether or not the extendee's file is. *)
EXTENDS ProtoLang, TLC, Json

CONSTANTS
  N,           \* number of files (2..4)
  AnyOrder,    \* FALSE: only edges i -> j with i < j; TRUE: every acyclic orientation
  PkgMode      \* "same" | "distinct" | "nested" | "none"

VARIABLES k, lab
vars == <<k, lab>>

Digit(i) == CASE i = 1 -> "1" [] i = 2 -> "2" [] i = 3 -> "3" [] i = 4 -> "4" [] OTHER -> "5"
Pairs == IF AnyOrder THEN SetToSeq({<<i, j>> \in (1..N) \X (1..N) : i # j})
         ELSE SetToSeq({<<i, j>> \in (1..N) \X (1..N) : i < j})
PathOf(i) == "x" \o Digit(i) \o ".proto"
PkgFor(i) == CASE PkgMode = "same" -> <<"p">>
               [] PkgMode = "distinct" -> <<"p" \o Digit(i)>>
               [] PkgMode = "nested" -> (IF i = 1 THEN <<"p">> ELSE IF i = 2 THEN <<"p", "q">>
                                         ELSE IF i = 3 THEN <<"p", "q", "r">> ELSE <<"s">>)
               [] OTHER -> <<>>

(* edges chosen so far: lab[n] is the label of Pairs[n] *)
EdgeLabel(l, i, j) ==
  LET idx == {n \in 1..Len(l) : Pairs[n] = <<i, j>>}
  IN IF idx = {} THEN "none" ELSE l[CHOOSE n \in idx : TRUE]
ImportsOf(l, i) ==
  LET tg == {j \in 1..N : j # i /\ EdgeLabel(l, i, j) # "none"}
      RECURSIVE Build(_)
      Build(S) == IF S = {} THEN <<>>
                  ELSE LET j == CHOOSE x \in S : \A y \in S : x <= y
                       IN <<Imp(PathOf(j), EdgeLabel(l, i, j))>> \o Build(S \ {j})
  IN Build(tg)

MName(i) == "M" \o Digit(i)
DeclsOf(l, i) ==
  LET d == Digit(i)
      me == Abs(PkgFor(i) \o <<MName(i)>>)
      imps == ImportsOf(l, i)
  IN << Msg(MName(i), 0), Fld("f" \o d, 1, 1, NoRef), Msg("N" \o d, 1),
        Enum("E" \o d, 1), Val("V" \o d, 4), Oneof("o" \o d, 1), Fld("g" \o d, 6, 2, NoRef),
        Ext("nx" \o d, 1, 1000 + 10 * i + 9, me, NoRef),
        Enum("T" \o d, 0), Val("TV" \o d, 9), Ext("x" \o d, 0, 1000 + 10 * i, me, NoRef),
        Svc("S" \o d), Mtd("R" \o d, 12, me, me) >>
     \o [n \in 1..Len(imps) |->
           LET j == CHOOSE x \in 1..N : PathOf(x) = imps[n].path
           IN Ext("y" \o d \o "_" \o Digit(j), 0, 1000 + 10 * i + j, Abs(PkgFor(j) \o <<MName(j)>>), NoRef)]

Ws(l) == [i \in 1..N |->
            FileRec(PathOf(i), PkgFor(i), IF i % 2 = 1 THEN "proto2" ELSE "editions", ImportsOf(l, i), DeclsOf(l, i))]

Init == k = 0 /\ lab = <<>>
Next == /\ k < Len(Pairs)
        /\ \E x \in {"none", "plain", "public"} :
             /\ Acyclic(Ws(Append(lab, x))) = TRUE
             /\ lab' = Append(lab, x)
        /\ k' = k + 1
Spec == Init /\ [][Next]_vars

-----------------------------------------------------------------------------
(* how the defining file g relates to the root f: feature tag *)
Relation(ws, f, g) ==
  IF g = f THEN "self"
  ELSE IF g \in DirectImports(ws, f) THEN
         (IF g \in PublicImports(ws, f) THEN "direct-public" ELSE "direct-plain")
  ELSE IF g \in Visible(ws, f) THEN "public-reexport"
  ELSE IF g \in Closure(ws, f) THEN "transitive-hidden"
  ELSE "unrelated"

(* The case lists every element / extension / package once, and per root the oracle: the set
   Visible(root) (a query is expected to be found iff its defining file is in it) and the relation
   tags. *)
Case == LET ws == Ws(lab)
            xp == ExtPairs(ws)
        IN [check |-> "C18", ws |-> WsV(ws), fqns |-> [g \in Files(ws) |-> DeclFQNs(ws, g)],
            valid |-> ValidX(ws, xp),
            elems |-> {[name |-> JoinDots(s.fqn), kind |-> s.kind, file |-> s.file] : s \in AllDeclSyms(ws)},
            exts |-> {[extendee |-> x[1], num |-> x[2], target |-> JoinDots(FQN(ws[x[3]], x[4])), file |-> x[3]] : x \in xp},
            (* never found: a package is not an element; an enum value does not live under its enum *)
            bogus |-> {JoinDots(n) : n \in AllPkgs(ws)} \cup {JoinDots(FQN(ws[f], 4) \o <<"V" \o Digit(f)>>) : f \in Files(ws)},
            roots |-> [f \in Files(ws) |-> [visible |-> Visible(ws, f), rel |-> [g \in Files(ws) |-> Relation(ws, f, g)]]]]

Export == k = Len(Pairs) => PrintT("CASE " \o ToJson(Case))
=============================================================================
