------------------------------ MODULE ProtoValid ------------------------------
(* Validity rules and the expected descriptor of Protocol Buffers workspaces (C01 C02 C27).

   EXTENDS ProtoLang: files, declaration tables, spellings, Env / Lookup / Outcome are the shared
   ones; this module adds the attributes the validity rules talk about and

     Broken(ws)        the set of NAMED rules ("V-...") the workspace violates; Valid iff empty
     Covered(ws)       every construct of ws is decided by a rule stated here with certainty
     Descriptor(ws, g) abstract projection of the FileDescriptorProto protoc produces for file g

   Written from the language definition and from protoc's descriptor.cc / parser.cc (the error
   texts quoted next to the rules are protoc's), NOT from the Go code under test.

   Extended declaration record (ProtoLang!D0 plus):
     label   "" | "optional" | "required" | "repeated"                 (field, ext)
     scalar  scalar type name when `type` is NoRef                       (field, ext)
     mapkey  "" (not a map) | key type of `map<key, T>`                  (field)
     dflt    "" | default value as written: 7 | true | hi | <ident>      (field, ext); hi is rendered "hi"
     json    "" | explicit json_name                                     (field)
     xr rr   extension / reserved ranges, sequences of <<lo, hi>> inclusive   (message)
     rn      reserved names                                              (message)
     cs ss   client / server streaming                                   (method)
     alias   `option allow_alias = true;`                                (enum)
     dep     `[deprecated = true]`                                       (field, ext)
     xopt    "" | "v" | "vr": all extension ranges of the message are written as ONE statement
             `extensions r1, r2 [verification = UNVERIFIED(, (.a.zrep) = 7)];`                  (message)
     grp gof a GROUP `label group Zg = n { ... }` is two adjacent declarations: the message Zg (grp = TRUE,
             its members are the group's fields) and the field zg (gof = index of that message, type = Zg)
   Enum values carry their number in `num`.  A file carries x = TRUE (renderer: explicit
   conventions, see harness/_common/ws). *)
EXTENDS ProtoLang

XD == [label |-> "", scalar |-> "", mapkey |-> "", dflt |-> "", json |-> "",
       xr |-> <<>>, rr |-> <<>>, rn |-> <<>>, cs |-> FALSE, ss |-> FALSE, alias |-> FALSE, dep |-> FALSE,
       grp |-> FALSE, gof |-> 0, xopt |-> ""]
X(d) == d @@ XD
XMsg(n, p) == X(Msg(n, p))
XEnum(n, p) == X(Enum(n, p))
XVal(n, p, num) == X([Val(n, p) EXCEPT !.num = num])
XOneof(n, p) == X(Oneof(n, p))
XSvc(n) == X(Svc(n))
(* a type choice: scalar name or reference spelling *)
TScalar(s) == [ref |-> FALSE, sp |-> NoRef, scalar |-> s]
TRef(sp) == [ref |-> TRUE, sp |-> sp, scalar |-> ""]
XFld(n, p, num, label, ty) ==
  [X(Fld(n, p, num, ty.sp)) EXCEPT !.label = label, !.scalar = ty.scalar]
XMap(n, p, num, key, ty) == [XFld(n, p, num, "", ty) EXCEPT !.mapkey = key]
XExt(n, p, num, label, extendee, ty) ==
  [X(Ext(n, p, num, extendee, ty.sp)) EXCEPT !.label = label, !.scalar = ty.scalar]
XMtd(n, p, in, out) == X(Mtd(n, p, in, out))
(* N-group-field-name: the field of group Zg is named zg (the group name in lower case); a table *)
GroupFieldName == [Zg |-> "zg", A |-> "a", M |-> "m"]
(* the two declarations of a group whose message gets index idx *)
XGroup(name, p, num, label, idx) ==
  << [XMsg(name, p) EXCEPT !.grp = TRUE],
     [XFld(GroupFieldName[name], p, num, label, TRef(Rel(<<name>>))) EXCEPT !.gof = idx] >>
XFile(path, pkg, syntax, imports, decls) == FileRec(path, pkg, syntax, imports, decls) @@ [x |-> TRUE]

(* google/protobuf/descriptor.proto in the extended record shape *)
XDescriptorFile == [DescriptorFile EXCEPT !.decls = (<<>> \o [i \in 1..Len(DescriptorFile.decls) |-> X(DescriptorFile.decls[i])])
                                                  \o << X(Msg("ExtensionRangeOptions", 0)) >>]
                   @@ [x |-> TRUE]

MaxFieldNum == 536870911
ImplReserved == 19000..19999
IntScalars == {"int32", "int64", "uint32", "uint64", "sint32", "sint64", "fixed32", "fixed64",
               "sfixed32", "sfixed64"}
Scalars == IntScalars \cup {"bool", "string", "bytes", "float", "double"}
MapKeyOK == IntScalars \cup {"bool", "string"}
ScalarType ==
  [int32 |-> "TYPE_INT32", int64 |-> "TYPE_INT64", uint32 |-> "TYPE_UINT32", uint64 |-> "TYPE_UINT64",
   sint32 |-> "TYPE_SINT32", sint64 |-> "TYPE_SINT64", fixed32 |-> "TYPE_FIXED32",
   fixed64 |-> "TYPE_FIXED64", sfixed32 |-> "TYPE_SFIXED32", sfixed64 |-> "TYPE_SFIXED64",
   bool |-> "TYPE_BOOL", string |-> "TYPE_STRING", bytes |-> "TYPE_BYTES", float |-> "TYPE_FLOAT",
   double |-> "TYPE_DOUBLE"]

(* N-json-name (protoc ToJsonName): drop every '_' and upper-case the character that follows it;
   the first character is NOT lower-cased.  TLC cannot look inside strings, so the rule is given
   as a table over the names the generators use; any name without '_' maps to itself. *)
JsonTable == [z_f |-> "zF", z_g |-> "zG", a_b |-> "aB", z_m |-> "zM", _zu |-> "Zu", _zf |-> "Zf", X_zf |-> "XZf"]
JsonNameOf(n) == IF n \in DOMAIN JsonTable THEN JsonTable[n] ELSE n
(* N-map-entry-name (protoc MapEntryName): '_' dropped, the first character and every character
   after a '_' upper-cased, "Entry" appended.  Same remark: a table over the generator names. *)
EntryTable == [zf |-> "ZfEntry", zg |-> "ZgEntry", zm |-> "ZmEntry", z_f |-> "ZFEntry", zF |-> "ZFEntry",
               z_m |-> "ZMEntry", a |-> "AEntry", b |-> "BEntry", m |-> "MEntry", a_b |-> "ABEntry"]
EntryNameOf(n) == EntryTable[n]

(* N-synthetic-oneof (protoc parser.cc GenerateSyntheticOneofs; descriptor.proto, proto3_optional):
   the synthetic oneof of proto3-optional field f is named "_" + f -- f itself when it already starts
   with '_' -- and "X" is prepended while the name is taken by a FIELD or ONEOF of the message or by a
   synthetic oneof generated before it (fields in order).  protoc looks at nothing else: when such a
   name equals another symbol of the message scope (nested type, enum, enum value, extension) protoc
   reports a duplicate symbol, whereas this project documents that it deliberately avoids those names
   too (parser/result.go) -- those workspaces are outside Covered (C27 still compares the compilers). *)
UnderNames == {"_zu", "_zf"}                       \* the generator names that start with '_'
SynthBase(n) == IF n \in UnderNames THEN n ELSE "_" \o n
RECURSIVE XFree(_, _)
XFree(nm, taken) == IF nm \in taken THEN XFree("X" \o nm, taken) ELSE nm
RECURSIVE SynthSeq(_, _)
SynthSeq(ns, taken) == IF ns = <<>> THEN <<>>
                       ELSE LET o == XFree(SynthBase(Head(ns)), taken) IN <<o>> \o SynthSeq(Tail(ns), taken \cup {o})

-----------------------------------------------------------------------------
(* helpers over the declaration table *)
OfKind(F, k) == {d \in Decls(F) : F.decls[d].kind = k}
Flds(F) == OfKind(F, "field")
IsMap(dl) == dl.mapkey # ""
ParentKind(F, d) == IF F.decls[d].parent = 0 THEN "file" ELSE F.decls[F.decls[d].parent].kind
InOneof(F, d) == ParentKind(F, d) = "oneof"
InRange(n, r) == r[1] <= n /\ n <= r[2]
InRanges(n, rs) == \E i \in 1..Len(rs) : InRange(n, rs[i])
Overlap(r, s) == r[1] <= s[2] /\ s[1] <= r[2]
IdxSeq(n) == [i \in 1..n |-> i]
KidSeq(F, p) == SelectSeq(IdxSeq(Len(F.decls)), LAMBDA c : F.decls[c].parent = p)
RECURSIVE Flat(_)
Flat(ss) == IF ss = <<>> THEN <<>> ELSE Head(ss) \o Flat(Tail(ss))
(* <<Op(s[1]), ..., Op(s[n])>>; the concatenation makes TLC build the tuple eagerly *)
MapSeq(s, Op(_)) == <<>> \o [i \in 1..Len(s) |-> Op(s[i])]
PosIn(s, x) == CHOOSE i \in 1..Len(s) : s[i] = x
(* fields of message m in source order: direct fields and the members of its oneofs in place *)
FieldSeq(F, m) ==
  Flat(MapSeq(KidSeq(F, m),
              LAMBDA c : IF F.decls[c].kind = "field" THEN <<c>>
                         ELSE IF F.decls[c].kind = "oneof" THEN KidSeq(F, c) ELSE <<>>))

-----------------------------------------------------------------------------
(* IMPORT rules (evaluated on the workspace as written)
   V-import-exists  protoc: Import "x" was not found or had errors.
   V-import-dup     protoc: Import "x" was listed twice.
   V-import-cycle   protoc: File recursively imports itself: a -> b -> a   (a self import is a cycle) *)
PathsOf(ws) == {ws[g].path : g \in Files(ws)}
ImpKeep(ws, g, k) ==
  /\ ws[g].imports[k].path \in PathsOf(ws)
  /\ \A j \in 1..(k - 1) : ws[g].imports[j].path # ws[g].imports[k].path
(* Sane(ws): ws without dangling and repeated imports; all other rules are evaluated on it *)
SaneImports(ws, g) ==
  LET keep == SelectSeq(IdxSeq(Len(ws[g].imports)), LAMBDA k : ImpKeep(ws, g, k))
  IN MapSeq(keep, LAMBDA k : ws[g].imports[k])
Sane(ws) == MapSeq(IdxSeq(Len(ws)), LAMBDA g : [ws[g] EXCEPT !.imports = SaneImports(ws, g)])
ImportBroken(ws) ==
  (IF \E g \in Files(ws) : \E k \in 1..Len(ws[g].imports) : ws[g].imports[k].path \notin PathsOf(ws)
     THEN {"V-import-exists"} ELSE {})
  \cup (IF \E g \in Files(ws) : \E j, k \in 1..Len(ws[g].imports) :
             j < k /\ ws[g].imports[j].path = ws[g].imports[k].path
          THEN {"V-import-dup"} ELSE {})
  \cup (IF ~Acyclic(Sane(ws)) THEN {"V-import-cycle"} ELSE {})

-----------------------------------------------------------------------------
(* SYMBOL rules (pool-wide: every file of the compilation is in one pool)
   V-dup-symbol   protoc: "a.m" is already defined in file "f".   (enum values are siblings of
                  their enum, oneof members siblings of the oneof)
   V-pkg-symbol   protoc: "a" is already defined (as something other than a package) in file "f". *)
SymbolBroken(ws) ==
  LET all == AllDeclSyms(ws)
      names == {s.fqn : s \in all}
  IN (IF Cardinality(names) # Cardinality(all) THEN {"V-dup-symbol"} ELSE {})
     \cup (IF names \cap AllPkgs(ws) # {} THEN {"V-pkg-symbol"} ELSE {})

-----------------------------------------------------------------------------
(* STRUCTURAL rules of one file (no name lookup needed) *)

(* labels
   V-p2-label-missing  protoc: Expected "required", "optional", or "repeated".
   V-p3-required       protoc: Required fields are not allowed in proto3.
   V-ed-optional       protoc: Label "optional" is not supported in editions ...
   V-ed-required       protoc: Label "required" is not supported in editions ...
   V-oneof-label       protoc: Fields in oneofs must not have labels (required / optional / repeated).
   V-map-label         protoc: Field labels (required/optional/repeated) are not allowed on map fields.
   V-map-in-oneof      protoc: Map fields are not allowed in oneofs.
   V-ext-required      protoc: The extension a.x cannot be required.
   V-p3-group          protoc: Groups are not supported in proto3 syntax.
   V-ed-group          protoc: Group syntax is no longer supported in editions. ... *)
LabelRule(F, d) ==
  LET dl == F.decls[d]
  IN IF IsMap(dl) THEN (IF dl.label # "" THEN {"V-map-label"} ELSE {})
                       \cup (IF InOneof(F, d) THEN {"V-map-in-oneof"} ELSE {})
     ELSE IF InOneof(F, d) THEN (IF dl.label # "" THEN {"V-oneof-label"} ELSE {})
     ELSE (CASE F.syntax = "proto2" -> (IF dl.label = "" THEN {"V-p2-label-missing"} ELSE {})
             [] F.syntax = "proto3" -> (IF dl.label = "required" THEN {"V-p3-required"} ELSE {})
             [] OTHER -> (IF dl.label = "optional" THEN {"V-ed-optional"}
                          ELSE IF dl.label = "required" THEN {"V-ed-required"} ELSE {}))
          \cup (IF dl.kind = "ext" /\ dl.label = "required" THEN {"V-ext-required"} ELSE {})
          \cup (IF dl.gof # 0 /\ F.syntax = "proto3" THEN {"V-p3-group"} ELSE {})
          \cup (IF dl.gof # 0 /\ F.syntax = "editions" THEN {"V-ed-group"} ELSE {})

(* numbers of fields and extensions
   V-num-positive       protoc: Field numbers must be positive integers.
   V-num-max            protoc: Field numbers cannot be greater than 536870911.
   V-num-impl-reserved  protoc: Field numbers 19000 through 19999 are reserved for the protocol
                                buffer library implementation. *)
NumRule(dl) ==
  (IF dl.num = 0 THEN {"V-num-positive"} ELSE {})
  \cup (IF dl.num > MaxFieldNum THEN {"V-num-max"} ELSE {})
  \cup (IF dl.num \in ImplReserved THEN {"V-num-impl-reserved"} ELSE {})

(* one message
   V-num-dup          protoc: Field number 1 has already been used in "a.m" by field "zf".
   V-num-reserved     protoc: Field "zf" uses reserved number 5.
   V-name-reserved    protoc: Field name "zf" is reserved.
   V-num-in-extrange  protoc: Extension range 100 to 199 includes field "zf" (100).
   V-range-overlap    protoc: Reserved range 1 to 5 overlaps with already-defined range 3 to 7. /
                              Extension range 1 to 5 overlaps with reserved range 3 to 7. / ... already-defined range
   V-p3-extrange      protoc: Extension ranges are not allowed in proto3.
   V-rname-dup        protoc: Field name "zf" is reserved multiple times. *)
MsgRule(F, m) ==
  LET dl == F.decls[m]
      fs == {d \in Flds(F) : ScopeParent(F, d) = m}
      ranges == [k \in 1..(Len(dl.rr) + Len(dl.xr)) |->
                   IF k <= Len(dl.rr) THEN dl.rr[k] ELSE dl.xr[k - Len(dl.rr)]]
  IN (IF \E d1, d2 \in fs : d1 # d2 /\ F.decls[d1].num = F.decls[d2].num THEN {"V-num-dup"} ELSE {})
     \cup (IF \E d \in fs : InRanges(F.decls[d].num, dl.rr) THEN {"V-num-reserved"} ELSE {})
     \cup (IF \E d \in fs : F.decls[d].name \in Range(dl.rn) THEN {"V-name-reserved"} ELSE {})
     \cup (IF \E d \in fs : InRanges(F.decls[d].num, dl.xr) THEN {"V-num-in-extrange"} ELSE {})
     \cup (IF \E j, k \in DOMAIN ranges : j < k /\ Overlap(ranges[j], ranges[k]) THEN {"V-range-overlap"} ELSE {})
     \cup (IF F.syntax = "proto3" /\ dl.xr # <<>> THEN {"V-p3-extrange"} ELSE {})
     \cup (IF \E j, k \in 1..Len(dl.rn) : j < k /\ dl.rn[j] = dl.rn[k] THEN {"V-rname-dup"} ELSE {})

(* enums and oneofs
   V-enum-empty        protoc: Enums must contain at least one value.
   V-enum-first-zero   protoc: The first enum value must be zero for open enums.   (proto3, edition 2023)
   V-enum-dup-num      protoc: "zb" uses the same enum value as "za". If this is intended, set
                               'option allow_alias = true;' to the enum definition.   (not with allow_alias)
   V-oneof-empty       protoc: Oneof must have at least one field.
   V-enum-num-reserved   protoc: Enum value "zb" uses reserved number 6.          (also with allow_alias)
   V-enum-name-reserved  protoc: Enum value "zb" is reserved.
   V-enum-range-overlap  protoc: Reserved range 5 to 7 overlaps with already-defined range 7 to 9.
   An enum's reserved ranges are INCLUSIVE at both ends (rr of an enum declaration). *)
OpenEnums(F) == F.syntax # "proto2"
EnumRule(F, e) ==
  LET vs == KidSeq(F, e)
  IN IF vs = <<>> THEN {"V-enum-empty"}
     ELSE (IF OpenEnums(F) /\ F.decls[vs[1]].num # 0 THEN {"V-enum-first-zero"} ELSE {})
          \cup (IF ~F.decls[e].alias /\ \E j, k \in 1..Len(vs) : j < k /\ F.decls[vs[j]].num = F.decls[vs[k]].num
                  THEN {"V-enum-dup-num"} ELSE {})
          \cup (IF \E k \in 1..Len(vs) : InRanges(F.decls[vs[k]].num, F.decls[e].rr) THEN {"V-enum-num-reserved"} ELSE {})
          \cup (IF \E k \in 1..Len(vs) : F.decls[vs[k]].name \in Range(F.decls[e].rn) THEN {"V-enum-name-reserved"} ELSE {})
          \cup (IF \E j, k \in 1..Len(F.decls[e].rr) : j < k /\ Overlap(F.decls[e].rr[j], F.decls[e].rr[k])
                  THEN {"V-enum-range-overlap"} ELSE {})
OneofRule(F, o) == IF KidSeq(F, o) = <<>> THEN {"V-oneof-empty"} ELSE {}

(* maps
   V-map-key   protoc: Key in map fields cannot be float/double, bytes or message types. *)
MapRule(dl) == IF IsMap(dl) /\ dl.mapkey \notin MapKeyOK THEN {"V-map-key"} ELSE {}

(* defaults (scalar part; enum / message typed fields need the resolved type, below)
   V-p3-default        protoc: Explicit default values are not allowed in proto3.
   V-default-repeated  protoc: Repeated fields can't have default values.
   V-default-type      protoc: Expected integer for field default value. / Expected "true" or "false". /
                               Expected string for field default value. *)
ScalarDefaultOK(s, v) ==
  CASE s \in IntScalars -> v = "7" [] s = "bool" -> v = "true" [] s = "string" -> v = "hi" [] s = "bytes" -> v \in {"hi", "del"}
    [] s \in {"float", "double"} -> v \in {"7", "0.1", "1e30"}
    [] OTHER -> FALSE
DefaultRule(F, dl) ==
  IF dl.dflt = "" THEN {}
  ELSE (IF F.syntax = "proto3" THEN {"V-p3-default"} ELSE {})
       \cup (IF dl.label = "repeated" \/ IsMap(dl) THEN {"V-default-repeated"} ELSE {})
       \cup (IF ~IsRef(dl.type) /\ ~IsMap(dl) /\ ~ScalarDefaultOK(dl.scalar, dl.dflt) THEN {"V-default-type"} ELSE {})

(* JSON names
   V-json-conflict   protoc: The default JSON name of field "zF" ("zF") conflicts with the default JSON
                             name of field "z_f".   An error in proto3 and editions, a warning in proto2.
   Conflicts that involve a custom json_name are outside the modelled fragment (Covered). *)
JsonRule(F, m) ==
  LET fs == {d \in Flds(F) : ScopeParent(F, d) = m}
  IN IF F.syntax # "proto2"
        /\ \E d1, d2 \in fs : d1 # d2 /\ JsonNameOf(F.decls[d1].name) = JsonNameOf(F.decls[d2].name)
       THEN {"V-json-conflict"} ELSE {}

StructBroken(F) ==
  UNION {LabelRule(F, d) \cup NumRule(F.decls[d]) \cup MapRule(F.decls[d]) \cup DefaultRule(F, F.decls[d])
           : d \in Flds(F) \cup ExtDecls(F)}
  \cup UNION {MsgRule(F, m) \cup JsonRule(F, m) : m \in OfKind(F, "message")}
  \cup UNION {EnumRule(F, e) : e \in OfKind(F, "enum")}
  \cup UNION {OneofRule(F, o) : o \in OfKind(F, "oneof")}

-----------------------------------------------------------------------------
(* REFERENCE rules (need Env / Lookup)
   V-ref-resolve   protoc: "b" is not defined. / "a.b" is resolved to "a.a.b", which is not defined. ...
   V-ref-kind      protoc: "zf" is not a type. / "a.e" is not a message type.
   V-ext-range     protoc: "a.m" does not declare 5 as an extension number.
   V-ext-dup       protoc: Extension number 100 has already been used in "a.m" by extension "a.zx".
   V-p3-ext        protoc: Extensions in proto3 are only allowed for defining options.
   V-closed-enum-implicit   protoc: Enum type "a.e" is not an open enum, but is used in "b.m" which is a
                            proto3 message type.     (modelled for a proto3 field without label outside a oneof)
   V-default-message     protoc: Messages can't have default values.
   V-default-enum-value  protoc: Enum type "a.e" has no value named "zc".
   V-default-enum-ident  protoc: Default value for an enum field must be an identifier.   (a number) *)
DeclOfRef(ws, e) == ws[e.deffile].decls[e.defdecl]
IsOptionsMsg(ws, e) == ws[e.deffile].builtin
(* extension ranges of a resolved extendee: the modelled option messages extend 1000 to max *)
XRangesOf(ws, e) == IF IsOptionsMsg(ws, e) THEN << <<1000, MaxFieldNum>> >> ELSE DeclOfRef(ws, e).xr
EnumValueNames(ws, e) == {ws[e.deffile].decls[c].name : c \in {x \in Decls(ws[e.deffile]) : ws[e.deffile].decls[x].parent = e.defdecl}}

FieldRefRule(ws, g, r) ==
  LET F == ws[g]  dl == F.decls[r.decl]  e == r.exp
  IN IF r.slot = "type" /\ e.outcome = "ok" THEN
       (IF e.kind = "enum" /\ F.syntax = "proto3" /\ ws[e.deffile].syntax = "proto2"
           /\ dl.kind = "field" /\ dl.label = "" /\ ~InOneof(F, r.decl) /\ ~IsMap(dl)
          THEN {"V-closed-enum-implicit"} ELSE {})
       \cup (IF dl.dflt # "" /\ ~IsMap(dl)
               THEN (IF e.kind = "message" THEN {"V-default-message"}
                     ELSE IF dl.dflt = "7" THEN {"V-default-enum-ident"}
                     ELSE IF dl.dflt \notin EnumValueNames(ws, e) THEN {"V-default-enum-value"} ELSE {})
               ELSE {})
     ELSE IF r.slot = "extendee" /\ e.outcome = "ok" THEN
       (IF ~InRanges(dl.num, XRangesOf(ws, e)) THEN {"V-ext-range"} ELSE {})
       \cup (IF F.syntax = "proto3" /\ ~IsOptionsMsg(ws, e) THEN {"V-p3-ext"} ELSE {})
     ELSE {}

RefBroken(ws, allrefs) ==
  (IF \E fr \in allrefs : fr[2].exp.outcome \in {"notfound", "stuck"} THEN {"V-ref-resolve"} ELSE {})
  \cup (IF \E fr \in allrefs : fr[2].exp.outcome = "wrongkind" THEN {"V-ref-kind"} ELSE {})
  \cup UNION {FieldRefRule(ws, fr[1], fr[2]) : fr \in allrefs}
  \cup (LET xp == {<<fr[2].exp.fqn, ws[fr[1]].decls[fr[2].decl].num, fr[1], fr[2].decl>>
                     : fr \in {x \in allrefs : x[2].slot = "extendee" /\ x[2].exp.outcome = "ok"}}
        IN IF Cardinality({<<p[1], p[2]>> : p \in xp}) # Cardinality(xp) THEN {"V-ext-dup"} ELSE {})

(* CUSTOM OPTION rules (an option use is `(name) = 1` on a file, message, field, extension, enum,
   enum value, service or method; the name must resolve to an extension, V-ref-resolve / V-ref-kind)
   V-opt-extendee  protoc: Option field "(a.zo)" is not a field or extension of message "FieldOptions".
                   (the extension extends another message than the options message of that element kind)
   V-opt-dup       protoc: Option "(a.zo)" was already set.   (the modelled option extensions are singular) *)
ExtendeeOf(refs, f, d) ==
  LET m == {fr \in refs : fr[1] = f /\ fr[2].decl = d /\ fr[2].slot = "extendee"}
  IN IF m = {} THEN "" ELSE (CHOOSE fr \in m : TRUE)[2].exp.fqn
OptRefs(refs) == {fr \in refs : IsOptSlot(fr[2].slot) /\ fr[2].exp.outcome = "ok"}
OptBroken(ws, refs) ==
  LET os == OptRefs(refs)
  IN (IF \E fr \in os :
           LET ekind == IF fr[2].decl = 0 THEN "file" ELSE ws[fr[1]].decls[fr[2].decl].kind
           IN ExtendeeOf(refs, fr[2].exp.deffile, fr[2].exp.defdecl) # "google.protobuf." \o OptionMsgOf[ekind]
        THEN {"V-opt-extendee"} ELSE {})
     \cup (IF \E a, b \in os : a # b /\ a[1] = b[1] /\ a[2].decl = b[2].decl
                               /\ a[2].exp.deffile = b[2].exp.deffile /\ a[2].exp.defdecl = b[2].exp.defdecl
             THEN {"V-opt-dup"} ELSE {})

(* Broken: every rule the workspace violates.  refs = AllRefs(Sane(ws)) passed in by callers that
   need it anyway. *)
BrokenX(ws, sane, refs) ==
  ImportBroken(ws) \cup SymbolBroken(sane)
  \cup UNION {StructBroken(sane[g]) : g \in {h \in Files(sane) : ~sane[h].builtin}}
  \cup RefBroken(sane, refs) \cup OptBroken(sane, refs)
Broken(ws) == LET sane == Sane(ws) IN BrokenX(ws, sane, AllRefs(sane))
ValidV(ws) == Broken(ws) = {}

(* Covered: the workspace stays inside the fragment whose verdict is certain.
   - a proto2 (closed) enum used from a proto3 file by a field that is repeated, `optional`, a oneof
     member or a map value: protoc's ValidateProto3Field and the documented behaviour of the
     project may differ there; not decided here
   - explicit json_name values must not collide with any default or custom JSON name of a sibling
   - extensions carry no json_name
   - an option use `(name) = 1` must name a singular integer extension (or not resolve to one at
     all); oneofs carry no options
   - range options "vr" need the repeated option extension .a.zrep = 1010 of ExtensionRangeOptions
   - allow_alias only on an enum that does have two values with one number (whether an unused
     allow_alias is an error in protoc 33 is not certain) *)
CoveredX(ws, refs) ==
  /\ \A g \in Files(ws) : \A m \in OfKind(ws[g], "message") :
       /\ (ws[g].decls[m].xopt # "" => ws[g].decls[m].xr # <<>>)
       /\ (ws[g].decls[m].xopt = "vr" =>
             /\ ws[g].pkg = <<"a">>
             /\ \E d \in ExtDecls(ws[g]) :
                  LET x == ws[g].decls[d]
                  IN x.name = "zrep" /\ x.parent = 0 /\ x.num = 1010 /\ x.label = "repeated" /\ x.scalar = "int32"
                     /\ x.extendee = Abs(<<"google", "protobuf", "ExtensionRangeOptions">>))
  /\ \A fr \in OptRefs(refs) :
       LET x == ws[fr[2].exp.deffile].decls[fr[2].exp.defdecl]
       IN x.scalar \in IntScalars /\ x.label # "repeated" /\ ~IsRef(x.type)
  /\ \A g \in Files(ws) : \A d \in Decls(ws[g]) : ws[g].decls[d].opts # <<>> => ws[g].decls[d].kind # "oneof"
  /\ \A g \in Files(ws) : \A e \in OfKind(ws[g], "enum") :
       ws[g].decls[e].alias =>
         LET vs == KidSeq(ws[g], e)
         IN \E j, k \in 1..Len(vs) : j < k /\ ws[g].decls[vs[j]].num = ws[g].decls[vs[k]].num
  /\ \A fr \in refs :
       LET F == ws[fr[1]]  dl == F.decls[fr[2].decl]  e == fr[2].exp
       IN (fr[2].slot = "type" /\ e.outcome = "ok" /\ e.kind = "enum" /\ F.syntax = "proto3"
           /\ ws[e.deffile].syntax = "proto2")
            => (dl.kind = "field" /\ dl.label = "" /\ ~InOneof(F, fr[2].decl) /\ ~IsMap(dl))
  /\ \A g \in Files(ws) : \A d \in Flds(ws[g]) \cup ExtDecls(ws[g]) :
       LET F == ws[g]  dl == F.decls[d]
       IN dl.json # "" =>
            /\ dl.kind = "field"
            /\ \A d2 \in Flds(F) : (d2 # d /\ ScopeParent(F, d2) = ScopeParent(F, d)) =>
                 /\ dl.json # JsonNameOf(F.decls[d2].name) /\ dl.json # F.decls[d2].json
                 /\ JsonNameOf(dl.name) # JsonNameOf(F.decls[d2].name)

(* proto3-optional fields of message m in field order, and their synthetic oneof names *)
P3Opt(F, m) == SelectSeq(FieldSeq(F, m), LAMBDA d : F.syntax = "proto3" /\ F.decls[d].label = "optional" /\ ~InOneof(F, d))
SynthNamesOf(F, m) ==
  LET kids == KidSeq(F, m)
      taken == {F.decls[d].name : d \in Range(FieldSeq(F, m))}
               \cup {F.decls[c].name : c \in {x \in Range(kids) : F.decls[x].kind = "oneof"}}
  IN SynthSeq(MapSeq(P3Opt(F, m), LAMBDA d : F.decls[d].name), taken)
(* names in the scope of m that protoc does not look at when it names synthetic oneofs *)
OtherScopeNames(F, m) == {F.decls[d].name : d \in {x \in Decls(F) : ScopeParent(F, x) = m /\ F.decls[x].kind \notin {"field", "oneof"}}}

(* SynthCertain: no synthetic oneof name meets a nested type / enum / enum value / extension of its
   message.  Where it fails protoc and the project differ on purpose (N-synthetic-oneof): such
   workspaces are still generated, flagged, skipped by C01 / C02 and compared by C27 only. *)
SynthCertain(ws) ==
  \A g \in {h \in Files(ws) : ~ws[h].builtin} : \A m \in OfKind(ws[g], "message") :
    Range(SynthNamesOf(ws[g], m)) \cap OtherScopeNames(ws[g], m) = {}

-----------------------------------------------------------------------------
(* DESCRIPTOR: the abstract projection of the FileDescriptorProto protoc writes for a valid file
   (--descriptor_set_out, no source info).  Default-valued members are omitted from the records.
     D-label        optional/required/repeated; no label => LABEL_OPTIONAL; map => LABEL_REPEATED
     D-type         scalar => TYPE_<SCALAR>; reference => TYPE_MESSAGE / TYPE_ENUM by the resolved kind;
                    a group => TYPE_GROUP, its message is an ordinary nested message at the group's place
     D-type-name    "." + full name of the resolved element (also extendee, input_type, output_type)
     D-json-name    always present: explicit json_name, else N-json-name (also on extensions)
     D-oneof-index  members of real oneofs: index of the oneof in source order
     D-proto3-optional  proto3 `optional`: proto3_optional = true and a synthetic oneof "_<field>"
                    appended after the real oneofs, in field order (extensions: flag only)
     D-map-entry    map<K,V> f = n  =>  nested message N-map-entry-name(f) {K key = 1; V value = 2;}
                    with options.map_entry, placed among the nested messages in source order; the field
                    is repeated TYPE_MESSAGE with that type
     D-ranges       extension_range / reserved_range of a message with EXCLUSIVE end; reserved_range of an
                    enum with INCLUSIVE end; reserved_name; all in declaration order
     D-deps         dependency in source order, public_dependency = 0-based indices
     D-ext-options  the custom options of an element: the extension numbers present in its options message
                    (each set to 1), ascending, as member ext_options
     D-options      options.allow_alias of an enum, options.deprecated of a field (the two modelled standard
                    options) appear as members allow_alias / deprecated; any other option is unexpected
     D-syntax       syntax unset for proto2, "proto3", or "editions" + edition EDITION_2023 *)
Dot(s) == "." \o s
Opt(c, r) == IF c THEN r ELSE <<>>
(* D-ext-options: the numbers of the option extensions set on an element (each with value 1), ascending *)
OptNumsD(ws, env, g, d, opts) ==
  SortSeq(MapSeq(IdxSeq(Len(opts)), LAMBDA k :
            LET e == Outcome(ws, env, g, d, OptSlot(k), opts[k].name)
            IN ws[e.deffile].decls[e.defdecl].num),
          LAMBDA a, b : a < b)
OptsD(ws, env, g, d) ==
  LET opts == IF d = 0 THEN ws[g].opts ELSE ws[g].decls[d].opts
  IN Opt(opts # <<>>, [ext_options |-> OptNumsD(ws, env, g, d, opts)])
LabelD(dl) == IF dl.label = "repeated" \/ IsMap(dl) THEN "LABEL_REPEATED"
              ELSE IF dl.label = "required" THEN "LABEL_REQUIRED" ELSE "LABEL_OPTIONAL"
(* D-default-value: the text protoc stores.  Integers, booleans, strings and enum value NAMES (the name
   as spelled, also when it is the second alias of a number) are kept; a float / double default is
   printed by SimpleFtoa / SimpleDtoa, the shortest text that reads back as the same float32 / float64:
   0.1 stays "0.1" for both types, 1e30 becomes "1e+30" (C exponent form).  Table over the generator values. *)
(* del (bytes fields only) is written "a\x7f\001" in the source: descriptor.proto stores a bytes default C-escaped,
   and protoc's CEscape writes every byte outside 0x20..0x7e - DEL included - as a three-digit octal escape *)
DefaultText(v) == IF v = "1e30" THEN "1e+30" ELSE IF v = "del" THEN "a\\177\\001" ELSE v

(* oneofPos: 0 = not in a oneof, else 1-based position of its oneof declaration *)
FieldD(ws, env, g, d, oneofPos) ==
  LET F == ws[g]  dl == F.decls[d]
      e == IF IsRef(dl.type) THEN Outcome(ws, env, g, d, "type", dl.type) ELSE [kind |-> "", fqn |-> ""]
      x == IF dl.kind = "ext" THEN Outcome(ws, env, g, d, "extendee", dl.extendee) ELSE [fqn |-> ""]
  IN [name |-> dl.name, number |-> dl.num, label |-> LabelD(dl),
      type |-> IF IsMap(dl) THEN "TYPE_MESSAGE"
               ELSE IF dl.gof # 0 THEN "TYPE_GROUP"
               ELSE IF IsRef(dl.type) THEN (IF e.kind = "message" THEN "TYPE_MESSAGE" ELSE "TYPE_ENUM")
               ELSE ScalarType[dl.scalar],
      json_name |-> IF dl.json # "" THEN dl.json ELSE JsonNameOf(dl.name)]
     @@ Opt(IsMap(dl), [type_name |-> Dot(JoinDots(FQN(F, ScopeParent(F, d)) \o <<EntryNameOf(dl.name)>>))])
     @@ Opt(~IsMap(dl) /\ IsRef(dl.type), [type_name |-> Dot(e.fqn)])
     @@ Opt(dl.kind = "ext", [extendee |-> Dot(x.fqn)])
     @@ Opt(oneofPos > 0, [oneof_index |-> oneofPos - 1])
     @@ Opt(F.syntax = "proto3" /\ dl.label = "optional", [proto3_optional |-> TRUE])
     @@ Opt(dl.dflt # "", [default_value |-> DefaultText(dl.dflt)])
     @@ Opt(dl.dep, [deprecated |-> TRUE])
     @@ OptsD(ws, env, g, d)

EnumD(ws, env, g, e) ==
  LET F == ws[g]
  IN [name |-> F.decls[e].name,
      value |-> MapSeq(KidSeq(F, e), LAMBDA v : [name |-> F.decls[v].name, number |-> F.decls[v].num]
                                                @@ OptsD(ws, env, g, v))]
     @@ Opt(F.decls[e].alias, [allow_alias |-> TRUE])
     @@ Opt(F.decls[e].rr # <<>>, [reserved_range |-> MapSeq(F.decls[e].rr, LAMBDA r : [start |-> r[1], end |-> r[2]])])
     @@ Opt(F.decls[e].rn # <<>>, [reserved_name |-> F.decls[e].rn])
     @@ OptsD(ws, env, g, e)

(* the synthetic entry message of map field d *)
MapEntryD(ws, env, g, d) ==
  LET F == ws[g]  dl == F.decls[d]
      e == IF IsRef(dl.type) THEN Outcome(ws, env, g, d, "type", dl.type) ELSE [kind |-> "", fqn |-> ""]
  IN [name |-> EntryNameOf(dl.name), map_entry |-> TRUE,
      field |-> << [name |-> "key", number |-> 1, label |-> "LABEL_OPTIONAL",
                    type |-> ScalarType[dl.mapkey], json_name |-> "key"],
                   [name |-> "value", number |-> 2, label |-> "LABEL_OPTIONAL",
                    type |-> IF IsRef(dl.type) THEN (IF e.kind = "message" THEN "TYPE_MESSAGE" ELSE "TYPE_ENUM")
                             ELSE ScalarType[dl.scalar],
                    json_name |-> "value"]
                   @@ Opt(IsRef(dl.type), [type_name |-> Dot(e.fqn)]) >>]

RangeD(r) == [start |-> r[1], end |-> r[2] + 1]
(* D-range-options: options written on an `extensions` statement belong to EVERY range of that
   statement, each option value once (protoc's parser copies the options into each range) *)
XRangeD(r, xopt) == RangeD(r) @@ Opt(xopt # "", [verification |-> "UNVERIFIED"]) @@ Opt(xopt = "vr", [rep |-> <<7>>])

RECURSIVE MsgD(_, _, _, _)
MsgD(ws, env, g, m) ==
  LET F == ws[g]  dl == F.decls[m]
      kids == KidSeq(F, m)
      fseq == FieldSeq(F, m)
      oneofs == SelectSeq(kids, LAMBDA c : F.decls[c].kind = "oneof")
      p3opt == SelectSeq(fseq, LAMBDA d : F.syntax = "proto3" /\ F.decls[d].label = "optional" /\ ~InOneof(F, d))
      OneofPos(d) == IF InOneof(F, d) THEN PosIn(oneofs, F.decls[d].parent)
                     ELSE IF \E i \in 1..Len(p3opt) : p3opt[i] = d THEN Len(oneofs) + PosIn(p3opt, d)
                     ELSE 0
      nested == SelectSeq(kids, LAMBDA c : F.decls[c].kind = "message" \/ (F.decls[c].kind = "field" /\ IsMap(F.decls[c])))
  IN [name |-> dl.name,
      field |-> MapSeq(fseq, LAMBDA d : FieldD(ws, env, g, d, OneofPos(d)))]
     @@ Opt(nested # <<>>, [nested_type |-> MapSeq(nested, LAMBDA c : IF F.decls[c].kind = "message"
                                                        THEN MsgD(ws, env, g, c) ELSE MapEntryD(ws, env, g, c))])
     @@ Opt(\E c \in Range(kids) : F.decls[c].kind = "enum",
            [enum_type |-> MapSeq(SelectSeq(kids, LAMBDA c : F.decls[c].kind = "enum"), LAMBDA c : EnumD(ws, env, g, c))])
     @@ Opt(\E c \in Range(kids) : F.decls[c].kind = "ext",
            [extension |-> MapSeq(SelectSeq(kids, LAMBDA c : F.decls[c].kind = "ext"),
                                  LAMBDA c : FieldD(ws, env, g, c, 0))])
     @@ Opt(oneofs # <<>> \/ p3opt # <<>>,
            [oneof_decl |-> MapSeq(oneofs, LAMBDA c : F.decls[c].name) \o SynthNamesOf(F, m)])
     @@ Opt(dl.xr # <<>>, [extension_range |-> MapSeq(dl.xr, LAMBDA r : XRangeD(r, dl.xopt))])
     @@ Opt(dl.rr # <<>>, [reserved_range |-> MapSeq(dl.rr, RangeD)])
     @@ Opt(dl.rn # <<>>, [reserved_name |-> dl.rn])
     @@ OptsD(ws, env, g, m)

SvcD(ws, env, g, s) ==
  LET F == ws[g]
  IN [name |-> F.decls[s].name,
      method |-> MapSeq(KidSeq(F, s), LAMBDA c :
                   [name |-> F.decls[c].name,
                    input_type |-> Dot(Outcome(ws, env, g, c, "input", F.decls[c].input).fqn),
                    output_type |-> Dot(Outcome(ws, env, g, c, "output", F.decls[c].output).fqn)]
                   @@ Opt(F.decls[c].cs, [client_streaming |-> TRUE])
                   @@ Opt(F.decls[c].ss, [server_streaming |-> TRUE])
                   @@ OptsD(ws, env, g, c))]
     @@ OptsD(ws, env, g, s)

(* ws must be Sane and valid *)
Descriptor(ws, g) ==
  LET F == ws[g]
      env == Env(ws, g)
      top == KidSeq(F, 0)
      Of(k) == SelectSeq(top, LAMBDA c : F.decls[c].kind = k)
      pub == SelectSeq(IdxSeq(Len(F.imports)), LAMBDA k : F.imports[k].kind = "public")
  IN [name |-> F.path, package |-> JoinDots(F.pkg),
      syntax |-> IF F.syntax = "proto2" THEN "" ELSE F.syntax,
      edition |-> IF F.syntax = "editions" THEN "EDITION_2023" ELSE "",
      dependency |-> MapSeq(F.imports, LAMBDA i : i.path),
      public_dependency |-> MapSeq(pub, LAMBDA k : k - 1),
      message_type |-> MapSeq(Of("message"), LAMBDA c : MsgD(ws, env, g, c)),
      enum_type |-> MapSeq(Of("enum"), LAMBDA c : EnumD(ws, env, g, c)),
      service |-> MapSeq(Of("service"), LAMBDA c : SvcD(ws, env, g, c)),
      extension |-> MapSeq(Of("ext"), LAMBDA c : FieldD(ws, env, g, c, 0))]
     @@ OptsD(ws, env, g, 0)

-----------------------------------------------------------------------------
(* export views (JSON schema of harness/_common/ws in x-mode; default-valued members omitted) *)
DeclVX(d) ==
  DeclV(d)
  @@ Opt(d.label # "", [label |-> d.label]) @@ Opt(d.scalar # "", [scalar |-> d.scalar])
  @@ Opt(d.mapkey # "", [mapkey |-> d.mapkey]) @@ Opt(d.dflt # "", [dflt |-> d.dflt])
  @@ Opt(d.json # "", [json |-> d.json]) @@ Opt(d.xr # <<>>, [xr |-> d.xr]) @@ Opt(d.rr # <<>>, [rr |-> d.rr])
  @@ Opt(d.rn # <<>>, [rn |-> d.rn]) @@ Opt(d.cs, [cs |-> TRUE]) @@ Opt(d.ss, [ss |-> TRUE])
  @@ Opt(d.alias, [alias |-> TRUE]) @@ Opt(d.dep, [dep |-> TRUE])
  @@ Opt(d.grp, [grp |-> TRUE]) @@ Opt(d.gof # 0, [gof |-> d.gof]) @@ Opt(d.xopt # "", [xopt |-> d.xopt])
FileVX(F) ==
  [path |-> F.path, pkg |-> F.pkg, syntax |-> F.syntax, imports |-> F.imports, x |-> TRUE,
   decls |-> MapSeq(IdxSeq(Len(F.decls)), LAMBDA d : DeclVX(F.decls[d]))]
  @@ Opt(F.builtin, [builtin |-> TRUE]) @@ Opt(F.opts # <<>>, [opts |-> OptV(F.opts)])
WsVX(ws) == MapSeq(IdxSeq(Len(ws)), LAMBDA g : FileVX(ws[g]))
=============================================================================
