---------------------------- MODULE CompileExec ----------------------------
(* The stable compiler's per-file task executor (compiler.go): Compile, executor.compile,
   doCompile, task.asFile, checkForDependencyCycle, result.{fail,complete,setBlockedOn,getBlockedOn}.

   One action per critical section / blocking operation of the code (DESIGN.md Appendix A).
   Local computation between two shared accesses is folded into the later one.

   Configuration (chosen in Init, constant afterwards):
     imports[f]  the ordered import list of file f
     req         the requested file names, in request order
     plan[f]     what the resolver does for f: "ok" | "err" | "panic" | "short"
     par         MaxParallelism (number of permits)
     ovr         TRUE iff the resolver overrides descriptor.proto (file DP): every other file that does
                 not import DP explicitly then depends on it implicitly (compiler.go: wantsDescriptorProto)  cancels = how many external cancellations may still happen.             *)
EXTENDS Naturals, Sequences, FiniteSets, TLC

CONSTANTS Files,        \* set of file names
          DP,           \* the file that plays google/protobuf/descriptor.proto (an element of Files, or a non-file)
          Configs,      \* set of records [imports, req, plan, par, ovr]
          MaxCancels    \* 0 or 1: external cancellation of the caller's context

VARIABLES imports, req, plan, par, ovr,
          created,      \* DOMAIN of executor.results
          pc,           \* per file task: program counter
          idx,          \* per file task: loop / wait index (1-based)
          blocked,      \* result.blockedOn (<<>> = nil)
          stack,        \* per task: DFS stack of checkForDependencyCycle
          checked,      \* per task: the `checked` map of asFile
          sem,          \* free permits
          holding,      \* per task: holds a permit
          out,          \* per file: "pending" until result.ready is closed, then the error class / "ok"
          reports,      \* cycle errors handed to the reporter: set of <<sequence, dep>>
          mpc, midx, mres,   \* the goroutine that called Compile
          ctxDone, cancels

cfgvars == <<imports, req, plan, par, ovr>>
vars == <<imports, req, plan, par, ovr, created, pc, idx, blocked, stack, checked, sem, holding, out,
          reports, mpc, midx, mres, ctxDone, cancels>>

Range(s) == {s[i] : i \in 1..Len(s)}
Contains(s, x) == \E i \in 1..Len(s) : s[i] = x

(* implicit dependency on an overridden descriptor.proto *)
(* hasOverrideDescriptorProto: the resolver is probed once; an error or a (recovered) panic of that
   probe means "not overridden" *)
Wants(f) == ovr /\ plan[DP] \notin {"err", "panic"} /\ f # DP /\ ~Contains(imports[f], DP)
EffImports(f) == IF Wants(f) THEN Append(imports[f], DP) ELSE imports[f]

-----------------------------------------------------------------------------
(* Graph facts the properties talk about (from the statement, not from the code). *)
Edges == {<<a, b>> \in Files \X Files : Contains(imports[a], b)}
RECURSIVE ReachFrom(_, _)
ReachFrom(S, seen) ==
  LET nxt == {b \in Files : \E a \in S : <<a, b>> \in Edges} \ seen
  IN IF nxt = {} THEN seen ELSE ReachFrom(nxt, seen \cup nxt)
Reach(S) == ReachFrom(S, S)                     \* S plus everything it transitively imports
Succ(a) == {b \in Files : <<a, b>> \in Edges}
OnCycle(a) == a \in ReachFrom(Succ(a), Succ(a)) \* a reaches itself through >= 1 edge
Requested == Range(req)
Reachable == Reach(Requested)
HasCycle == \E a \in Reachable : OnCycle(a)
HasFault == \E a \in Reachable : plan[a] # "ok"

(* a reported cycle <<f1..fn>> -> d is real: consecutive elements are imports, fn imports d, d in it *)
RealCycle(sq, d) == /\ Len(sq) >= 1
                    /\ \A i \in 1..(Len(sq) - 1) : <<sq[i], sq[i + 1]>> \in Edges
                    /\ <<sq[Len(sq)], d>> \in Edges
                    /\ Contains(sq, d)

-----------------------------------------------------------------------------
(* the state in which Compile is entered, for configuration c *)
InitVal(c) ==
  [imports |-> c.imports, req |-> c.req, plan |-> c.plan, par |-> c.par, ovr |-> c.ovr,
   created |-> {}, pc |-> [f \in Files |-> "none"], idx |-> [f \in Files |-> 0],
   blocked |-> [f \in Files |-> <<>>], stack |-> [f \in Files |-> <<>>],
   checked |-> [f \in Files |-> {}], sem |-> c.par, holding |-> [f \in Files |-> FALSE],
   out |-> [f \in Files |-> "pending"], reports |-> {}, mpc |-> "start", midx |-> 0,
   mres |-> "none", ctxDone |-> FALSE, cancels |-> MaxCancels]

Init ==
  \E c \in Configs : LET v == InitVal(c) IN
    /\ imports = v.imports /\ req = v.req /\ plan = v.plan /\ par = v.par /\ ovr = v.ovr
    /\ created = v.created /\ pc = v.pc /\ idx = v.idx /\ blocked = v.blocked /\ stack = v.stack
    /\ checked = v.checked /\ sem = v.sem /\ holding = v.holding /\ out = v.out
    /\ reports = v.reports /\ mpc = v.mpc /\ midx = v.midx /\ mres = v.mres
    /\ ctxDone = v.ctxDone /\ cancels = v.cancels

(* result.fail(err) / result.complete: publish the outcome (close ready); the deferred
   t.release() is a later, separate step when the task still holds its permit.            *)
Finish(f, cls) ==
  /\ out' = [out EXCEPT ![f] = cls]
  /\ pc' = [pc EXCEPT ![f] = IF holding[f] THEN "fin" ELSE "done"]

(* Compile: all requested results are created under e.mu in one critical section *)
MainStart ==
  /\ mpc = "start"
  /\ created' = Requested
  /\ pc' = [f \in Files |-> IF f \in Requested THEN "acq" ELSE pc[f]]
  /\ mpc' = "wait" /\ midx' = 1
  /\ UNCHANGED <<cfgvars, idx, blocked, stack, checked, sem, holding, out, reports, mres, ctxDone, cancels>>

FirstFailure ==
  LET bad == {i \in 1..Len(req) : out[req[i]] # "ok"}
  IN IF bad = {} THEN "ok" ELSE out[req[CHOOSE i \in bad : \A j \in bad : i <= j]]

(* select { <-r.ready ; <-ctx.Done() } for the midx-th requested file *)
MainWaitReady ==
  /\ mpc = "wait" /\ out[req[midx]] # "pending"
  /\ IF midx = Len(req)
       THEN /\ mpc' = "ret" /\ midx' = midx /\ UNCHANGED mres
       ELSE /\ midx' = midx + 1 /\ UNCHANGED <<mpc, mres>>
  /\ UNCHANGED <<cfgvars, created, pc, idx, blocked, stack, checked, sem, holding, out, reports, ctxDone, cancels>>

MainWaitCtx ==
  /\ mpc = "wait" /\ ctxDone
  /\ mpc' = "ret" /\ mres' = "ctx"
  /\ UNCHANGED <<cfgvars, created, pc, idx, blocked, stack, checked, sem, holding, out, reports, midx, ctxDone, cancels>>

(* after the last wait the result is h.Error() if anything has been reported BY THEN (tasks that are
   still running may report between the last wake-up and this read), else the first task error;
   return ...; deferred cancel() *)
MainReturn ==
  /\ mpc = "ret"
  /\ mres' = IF mres = "ctx" THEN "ctx" ELSE IF reports # {} THEN "cycle" ELSE FirstFailure
  /\ mpc' = "done" /\ ctxDone' = TRUE
  /\ UNCHANGED <<cfgvars, created, pc, idx, blocked, stack, checked, sem, holding, out, reports, midx, cancels>>

(* the caller cancels its context at an arbitrary moment (possibly after Compile has returned,
   when it no longer changes anything) *)
ExternalCancel ==
  /\ cancels > 0
  /\ ctxDone' = TRUE /\ cancels' = cancels - 1
  /\ UNCHANGED <<cfgvars, created, pc, idx, blocked, stack, checked, sem, holding, out, reports, mpc, midx, mres>>

-----------------------------------------------------------------------------
(* e.s.Acquire(ctx, 1) in doCompile ("acq") and after the dependencies are done ("reacq") *)
AcquireOk(f) ==
  /\ pc[f] \in {"acq", "reacq"} /\ sem > 0
  /\ sem' = sem - 1
  /\ holding' = [holding EXCEPT ![f] = TRUE]
  /\ pc' = [pc EXCEPT ![f] = IF pc[f] = "acq" THEN "find" ELSE "link"]
  /\ UNCHANGED <<cfgvars, created, idx, blocked, stack, checked, out, reports, mpc, midx, mres, ctxDone, cancels>>

AcquireFail(f) ==
  /\ pc[f] \in {"acq", "reacq"} /\ ctxDone
  /\ Finish(f, "ctx")
  /\ UNCHANGED <<cfgvars, created, idx, blocked, stack, checked, sem, holding, reports, mpc, midx, mres, ctxDone, cancels>>

(* Resolver.FindFileByPath + parse; then t.r.setBlockedOn(imports) when there are imports *)
Find(f) ==
  /\ pc[f] = "find"
  /\ CASE plan[f] = "err"   -> Finish(f, "resolve") /\ UNCHANGED <<blocked, idx>>
       [] plan[f] = "panic" -> pc' = [pc EXCEPT ![f] = "unwind"] /\ UNCHANGED <<blocked, idx, out>>
       [] plan[f] = "short" -> Finish(f, "read") /\ UNCHANGED <<blocked, idx>>
       [] OTHER ->
            IF EffImports(f) = <<>>
              THEN /\ pc' = [pc EXCEPT ![f] = "link"] /\ UNCHANGED <<blocked, idx, out>>
              ELSE /\ blocked' = [blocked EXCEPT ![f] = EffImports(f)]
                   /\ idx' = [idx EXCEPT ![f] = 1]
                   /\ pc' = [pc EXCEPT ![f] = IF imports[f] = <<>> THEN "loopdp" ELSE "loop"] /\ UNCHANGED out
  /\ UNCHANGED <<cfgvars, created, stack, checked, sem, holding, reports, mpc, midx, mres, ctxDone, cancels>>

(* after one import has been checked: next import, or release the permit and wait *)
AfterCheck(f, i) == IF i = Len(imports[f]) THEN (IF Wants(f) THEN "loopdp" ELSE "rel") ELSE "loop"

(* one iteration of `for i, dep := range Dependency` up to and including e.compile(dep) *)
Loop(f) ==
  /\ pc[f] = "loop"
  /\ LET i == idx[f]
         d == imports[f][i]
     IN IF d = f
          THEN /\ reports' = reports \cup {<< <<f>>, f >>}       \* file imports itself
               /\ Finish(f, "cycle")
               /\ UNCHANGED <<created, idx, stack, checked>>
          ELSE /\ created' = created \cup {d}
               /\ IF d \in checked[f]
                    THEN /\ pc' = [pc EXCEPT ![f] = AfterCheck(f, i), ![d] = IF d \in created THEN pc[d] ELSE "acq"]
                         /\ idx' = [idx EXCEPT ![f] = IF i = Len(imports[f]) THEN 1 ELSE i + 1]
                         /\ UNCHANGED <<stack, checked>>
                    ELSE /\ pc' = [pc EXCEPT ![f] = "chk", ![d] = IF d \in created THEN pc[d] ELSE "acq"]
                         /\ stack' = [stack EXCEPT ![f] = << [n |-> d, sq |-> <<f, d>>, rd |-> FALSE, ds |-> <<>>, j |-> 0] >>]
                         /\ checked' = [checked EXCEPT ![f] = @ \cup {d}]
                         /\ UNCHANGED idx
               /\ UNCHANGED <<out, reports>>
  /\ UNCHANGED <<cfgvars, blocked, sem, holding, mpc, midx, mres, ctxDone, cancels>>

(* descriptorProtoRes = t.e.compile(ctx, descriptorProtoPath): the implicit dependency is created
   after the loop and is NOT cycle-checked *)
LoopDP(f) ==
  /\ pc[f] = "loopdp"
  /\ created' = created \cup {DP}
  /\ pc' = [pc EXCEPT ![f] = "rel", ![DP] = IF DP \in created THEN pc[DP] ELSE "acq"]
  /\ UNCHANGED <<cfgvars, idx, blocked, stack, checked, sem, holding, out, reports, mpc, midx, mres, ctxDone, cancels>>

(* drop exhausted frames (purely local) *)
RECURSIVE Normalize(_)
Normalize(st) ==
  IF st = <<>> THEN st
  ELSE LET top == st[Len(st)]
       IN IF top.rd /\ top.j > Len(top.ds) THEN Normalize(SubSeq(st, 1, Len(st) - 1)) ELSE st

SetStack(f, st) ==
  LET ns == Normalize(st)
  IN /\ stack' = [stack EXCEPT ![f] = ns]
     /\ IF ns = <<>>
          THEN /\ pc' = [pc EXCEPT ![f] = AfterCheck(f, idx[f])]
               /\ idx' = [idx EXCEPT ![f] = IF idx[f] = Len(imports[f]) THEN 1 ELSE idx[f] + 1]
          ELSE UNCHANGED <<pc, idx>>

(* deps := res.getBlockedOn()  -- one read under that result's mutex *)
CheckRead(f) ==
  /\ pc[f] = "chk"
  /\ LET st == stack[f]
         top == st[Len(st)]
     IN /\ ~top.rd
        /\ SetStack(f, [st EXCEPT ![Len(st)] = [top EXCEPT !.rd = TRUE, !.ds = blocked[top.n], !.j = 1]])
  /\ UNCHANGED <<cfgvars, created, blocked, checked, sem, holding, out, reports, mpc, midx, mres, ctxDone, cancels>>

(* slices.Contains(sequence, dep) -> report; else e.mu.Lock(); depRes := e.results[dep] *)
CheckLookup(f) ==
  /\ pc[f] = "chk"
  /\ LET st == stack[f]
         top == st[Len(st)]
     IN /\ top.rd
        /\ LET d == top.ds[top.j]
               adv == [st EXCEPT ![Len(st)] = [top EXCEPT !.j = top.j + 1]]
           IN IF Contains(top.sq, d)
                THEN /\ reports' = reports \cup {<<top.sq, d>>}
                     /\ Finish(f, "cycle")
                     /\ UNCHANGED <<stack, checked, idx>>
                ELSE /\ IF d \in created /\ d \notin checked[f]
                          THEN /\ SetStack(f, Append(adv, [n |-> d, sq |-> Append(top.sq, d), rd |-> FALSE, ds |-> <<>>, j |-> 0]))
                               /\ checked' = [checked EXCEPT ![f] = @ \cup {d}]
                          ELSE /\ SetStack(f, adv) /\ UNCHANGED checked
                     /\ UNCHANGED <<out, reports>>
  /\ UNCHANGED <<cfgvars, created, blocked, sem, holding, mpc, midx, mres, ctxDone, cancels>>

(* t.e.s.Release(1); t.released = true  -- before waiting for the dependencies *)
Release(f) ==
  /\ pc[f] = "rel"
  /\ sem' = sem + 1
  /\ holding' = [holding EXCEPT ![f] = FALSE]
  /\ pc' = [pc EXCEPT ![f] = IF imports[f] = <<>> THEN "waitdp" ELSE "wait"]
  /\ UNCHANGED <<cfgvars, created, idx, blocked, stack, checked, out, reports, mpc, midx, mres, ctxDone, cancels>>

(* select { <-res.ready ; <-ctx.Done() } on the idx-th import *)
WaitReady(f) ==
  /\ pc[f] = "wait"
  /\ LET d == imports[f][idx[f]]
     IN /\ out[d] # "pending"
        /\ IF out[d] # "ok"
             THEN Finish(f, out[d]) /\ UNCHANGED idx          \* the dependency's error is returned
             ELSE /\ IF idx[f] = Len(imports[f])
                       THEN pc' = [pc EXCEPT ![f] = IF Wants(f) THEN "waitdp" ELSE "unblock"] /\ UNCHANGED idx
                       ELSE idx' = [idx EXCEPT ![f] = @ + 1] /\ UNCHANGED pc
                  /\ UNCHANGED out
  /\ UNCHANGED <<cfgvars, created, blocked, stack, checked, sem, holding, reports, mpc, midx, mres, ctxDone, cancels>>

WaitCtx(f) ==
  /\ pc[f] = "wait" /\ ctxDone
  /\ Finish(f, "ctx")
  /\ UNCHANGED <<cfgvars, created, idx, blocked, stack, checked, sem, holding, reports, mpc, midx, mres, ctxDone, cancels>>

(* select on descriptorProtoRes.ready: a failure of the implicit dependency is ignored *)
WaitDPReady(f) ==
  /\ pc[f] = "waitdp" /\ out[DP] # "pending"
  /\ pc' = [pc EXCEPT ![f] = "unblock"]
  /\ UNCHANGED <<cfgvars, created, idx, blocked, stack, checked, sem, holding, out, reports, mpc, midx, mres, ctxDone, cancels>>

WaitDPCtx(f) ==
  /\ pc[f] = "waitdp" /\ ctxDone
  /\ Finish(f, "ctx")
  /\ UNCHANGED <<cfgvars, created, idx, blocked, stack, checked, sem, holding, reports, mpc, midx, mres, ctxDone, cancels>>

(* t.r.setBlockedOn(nil) *)
Unblock(f) ==
  /\ pc[f] = "unblock"
  /\ blocked' = [blocked EXCEPT ![f] = <<>>]
  /\ pc' = [pc EXCEPT ![f] = "reacq"]
  /\ UNCHANGED <<cfgvars, created, idx, stack, checked, sem, holding, out, reports, mpc, midx, mres, ctxDone, cancels>>

(* t.link(...) and r.complete(desc) *)
Link(f) ==
  /\ pc[f] = "link"
  /\ Finish(f, "ok")
  /\ UNCHANGED <<cfgvars, created, idx, blocked, stack, checked, sem, holding, reports, mpc, midx, mres, ctxDone, cancels>>

(* a panic in the resolver unwinds through doCompile's deferred t.release() first ... *)
PanicRelease(f) ==
  /\ pc[f] = "unwind"
  /\ sem' = sem + 1
  /\ holding' = [holding EXCEPT ![f] = FALSE]
  /\ pc' = [pc EXCEPT ![f] = "pfail"]
  /\ UNCHANGED <<cfgvars, created, idx, blocked, stack, checked, out, reports, mpc, midx, mres, ctxDone, cancels>>

(* ... and is then recovered in the goroutine started by compileLocked: r.fail(PanicError) *)
PanicFail(f) ==
  /\ pc[f] = "pfail"
  /\ Finish(f, "panic")
  /\ UNCHANGED <<cfgvars, created, idx, blocked, stack, checked, sem, holding, reports, mpc, midx, mres, ctxDone, cancels>>

(* deferred t.release() *)
FinalRelease(f) ==
  /\ pc[f] = "fin"
  /\ sem' = sem + 1
  /\ holding' = [holding EXCEPT ![f] = FALSE]
  /\ pc' = [pc EXCEPT ![f] = "done"]
  /\ UNCHANGED <<cfgvars, created, idx, blocked, stack, checked, out, reports, mpc, midx, mres, ctxDone, cancels>>

TaskStep(f) == \/ AcquireOk(f) \/ AcquireFail(f) \/ Find(f) \/ Loop(f) \/ CheckRead(f) \/ CheckLookup(f)
               \/ Release(f) \/ WaitReady(f) \/ WaitCtx(f) \/ Unblock(f) \/ Link(f) \/ FinalRelease(f)
               \/ PanicRelease(f) \/ PanicFail(f) \/ LoopDP(f) \/ WaitDPReady(f) \/ WaitDPCtx(f)
MainStep == MainStart \/ MainWaitReady \/ MainWaitCtx \/ MainReturn

(* explicit stuttering once everything is over, so that TLC's deadlock check means a real deadlock *)
Terminated == /\ mpc = "done" /\ \A f \in created : pc[f] = "done"
              /\ UNCHANGED vars

Next == MainStep \/ ExternalCancel \/ (\E f \in Files : TaskStep(f)) \/ Terminated

Fairness == WF_vars(MainStep) /\ \A f \in Files : WF_vars(TaskStep(f))
Spec == Init /\ [][Next]_vars /\ Fairness

-----------------------------------------------------------------------------
(* Properties, written from the statements of C05 / C06 / C07 *)

TypeOK ==
  /\ created \subseteq Files
  /\ sem \in 0..par
  /\ \A f \in Files : out[f] \in {"pending", "ok", "cycle", "resolve", "panic", "read", "ctx"}

SemInv == /\ sem >= 0 /\ sem <= par
          /\ sem + Cardinality({f \in Files : holding[f]}) = par

Returned == mpc = "done"

(* C06: a cycle error is reported only for a real cycle of the input graph *)
NoFalseCycle == \A r \in reports : RealCycle(r[1], r[2])
(* C06: without faults and cancellation, cycle error exactly when a cycle is reachable *)
CycleIff == (Returned /\ ~HasFault /\ cancels = MaxCancels) => (mres = "cycle" <=> HasCycle)
(* C05 (model half): success is a function of the input graph alone *)
OkIff == (Returned /\ cancels = MaxCancels) => (mres = "ok" <=> (~HasCycle /\ ~HasFault))
(* C07: a fault on a reachable file or a cancellation before return never yields success *)
FaultFails == (Returned /\ mres = "ok") => ~HasFault
(* when a task has finished successfully, so have all its imports *)
OkClosed == \A f \in Files : out[f] = "ok" => \A d \in Range(imports[f]) : out[d] = "ok"
(* a panic reaches the caller: single-fault plans *)
PanicSurfaces ==
  (Returned /\ cancels = MaxCancels /\ ~HasCycle
     /\ (\E a \in Reachable : plan[a] = "panic") /\ (\A a \in Reachable : plan[a] \in {"ok", "panic"}))
  => mres = "panic"

(* The outcomes the statements allow for a configuration (oracle for the replay into the real
   compiler).  FaultClass maps a resolver behaviour to the error class the caller sees.        *)
FaultClass(p) == CASE p = "err" -> "resolve" [] p = "panic" -> "panic" [] p = "short" -> "read" [] OTHER -> "ok"
AllowedNoCancel ==
  LET faults == {FaultClass(plan[a]) : a \in {b \in Reachable : plan[b] # "ok"}}
  IN IF HasCycle THEN {"cycle"} \cup faults
     ELSE IF faults # {} THEN faults ELSE {"ok"}
Allowed(cancelled) == IF cancelled THEN AllowedNoCancel \cup {"ctx"} ELSE AllowedNoCancel
AllowedOutcome == Returned => mres \in Allowed(cancels < MaxCancels)

AllTasksDone == \A f \in created : pc[f] = "done"
(* C06: a compile call returns;  C07: and no task is left running afterwards *)
Terminates == <>(mpc = "done")
NoLeak == <>[](mpc = "done" /\ AllTasksDone /\ sem = par)
=============================================================================
