----------------------------- MODULE MCHeaderLang -----------------------------
EXTENDS HeaderLang, TLC, Json
CONSTANTS MaxItems, ExportMin
VARIABLES items, layout
vars == <<items, layout>>
Init == items = <<>> /\ layout \in Layouts
Next == /\ Len(items) < MaxItems
        /\ \E it \in Items : items' = Append(items, it) /\ WellFormed(items')
        /\ UNCHANGED layout
Spec == Init /\ [][Next]_vars
Case == [items |-> items, layout |-> layout, pkg |-> ExpectedPackage(items), imports |-> ExpectedImports(items)]
Export == Len(items) >= ExportMin => PrintT("CASE " \o ToJson(Case))
=============================================================================
