------------------------------ MODULE MCOptionLang ------------------------------
(* Generator for C20 / C21 / C22: enumerates (element kind, schema parameters, list of option
   statements) and exports each with what OptionLang.tla says the options message holds.

   A behaviour grows the statement list of ONE element by one statement per step.  The state keeps
     acc    entries of the options message after the statements that interpret (in order)
     bad    indices of the statements that do not interpret (strict interpretation fails iff
            bad # <<>>; lenient interpretation leaves exactly these uninterpreted)
     uacc / ubad   the same for interpretation WITHOUT linking: only Local statements are tried
   so that strict, lenient and unlinked expectations come from one fold of InterpretOption.
   Statements touching an uncertain rule are filtered inside Next and never reach the driver.

   Mode selects the statement universe:
     scalar   every value type x every source value x every route to a field      (1 statement)
     struct   statements about set / merge / append / duplicate / path shape       (pairs, triples)
     std      standard options and pseudo-options of the kind, good and bad, mixed with custom ones
     target   one schema field restricted by  targets = ...  x statements reaching it by every route
     strip    ordered subsets of populating statements x retention assignments (C22)
     edenum   an edition 2023 file whose enum E is open resp. closed by feature x enum values by number / name
     sim      random longer lists drawn from struct + std (tlc -simulate)                      *)
(* Runs: a set of records [mode, kinds, vals, n, maxret, tk] (written per tier by engines/optionlang.py into a
   small module, TLC configuration files cannot hold records); one TLC invocation explores all of them:
     kinds  element kinds; vals "full" | "small" source value set (scalar mode); n  max number of statements;
     maxret max number of fields with a retention (strip mode); tk "single" | "pairs" target sets (target mode) *)
EXTENDS OptionLang, Json
CONSTANTS Runs
VARIABLES run, kind, sch, part, stmts, acc, bad, uacc, ubad, info, sib
vars == <<run, kind, sch, part, stmts, acc, bad, uacc, ubad, info, sib>>
Mode == run.mode
ValSet == run.vals
MaxStmts == run.n
MaxRet == run.maxret
TKSet == run.tk

M  == NP("m", TRUE)
P1(n) == <<NP(n, TRUE)>>
PM(n) == <<M, NP(n, FALSE)>>
PMS(n) == <<M, NP("sub", FALSE), NP(n, FALSE)>>

(* ---- source values ---- *)
PosInts == { Int(Mags[i]) : i \in 1..Len(Mags) }
NegInts == { NegInt(s) : s \in {"1", "2147483647", "2147483648", "2147483649", "9223372036854775808"} }
Idents  == { Id(s) : s \in {"true", "false", "t", "True", "inf", "nan", "E_ONE", "E_NEG", "bogus"} } \cup
           { NegId("inf"), NegId("nan") }
FullVals == PosInts \cup NegInts \cup {Flt("1.5"), NegFlt("1.5"), Flt("1e3")} \cup Idents \cup
            {Str("abc"), Str(""), Str("E_ONE"), Msg(<<>>)}
SmallVals == {Int("1"), Int("2147483648"), NegInt("1"), Flt("1.5"), Id("true"), Id("inf"), Id("E_ONE"), Str("abc")}
Vals == IF ValSet = "full" THEN FullVals ELSE SmallVals

(* ---- scalar universe: every route to a field of type t; partitioned (variable part) so that TLC
   workers share the work of one element kind ---- *)
ScalarOf(t) == UNION { { Stmt(P1("x_" \o t), v), Stmt(PM("f_" \o t), v), Stmt(<<M>>, Msg(<<MF("f_" \o t, v)>>)) }
                       : v \in Vals }
ScalarExtra ==
  UNION { { Stmt(PMS("x"), v), Stmt(PM("sub"), Msg(<<MF("x", v)>>)),
            Stmt(<<M>>, Msg(<<MFnc("sub", Msg(<<MF("x", v)>>))>>)),
            Stmt(<<M, NP("oext", TRUE)>>, v), Stmt(<<M>>, Msg(<<MFx("oext", v)>>)),
            Stmt(P1("r"), v), Stmt(PM("ri"), v), Stmt(<<M>>, Msg(<<MF("ri", v)>>)),
            Stmt(<<M>>, Msg(<<MF("ri", Lst(<<v, Int("2")>>))>>)),
            Stmt(<<M>>, Msg(<<MF("f_int32", Lst(<<v>>))>>)),
            Stmt(PMS("y"), v), Stmt(PM("rs"), v),
            Stmt(PM("mp"), Msg(<<MF("key", Str("k")), MF("value", v)>>)),
            Stmt(PM("grp"), Msg(<<MF("g", v)>>)), Stmt(<<M>>, Msg(<<MFnc("Grp", Msg(<<MF("g", v)>>))>>)) }
          : v \in Vals } \cup
  { Stmt(<<M>>, Msg(<<MFnc("f_int32", Int("1"))>>)), Stmt(P1("r"), Lst(<<Int("1"), Int("2")>>)) }
ScalarStmts == IF part = "extra" THEN ScalarExtra ELSE ScalarOf(part)
Parts == IF Mode = "scalar" THEN ValueTypes \cup {"extra"} ELSE {"all"}

(* ---- structure universe ---- *)
SubLit(x) == Msg(<<MF("x", Int(x))>>)
StructStmts == {
  Stmt(P1("x_int32"), Int("1")), Stmt(P1("x_int32"), Int("2")), Stmt(P1("x_string"), Str("s")),
  Stmt(P1("r"), Int("1")), Stmt(P1("r"), Int("2")),
  Stmt(P1("rm"), SubLit("1")),
  Stmt(<<M>>, Msg(<<MF("f_int32", Int("1"))>>)), Stmt(<<M>>, Msg(<<>>)),
  Stmt(PM("f_int32"), Int("1")), Stmt(PM("f_int32"), Int("2")), Stmt(PM("f_string"), Str("a")),
  Stmt(PM("sub"), SubLit("1")), Stmt(PMS("x"), Int("1")), Stmt(PMS("x"), Int("2")), Stmt(PMS("y"), Str("a")),
  Stmt(PM("ri"), Int("1")), Stmt(PM("ri"), Int("2")), Stmt(<<M>>, Msg(<<MF("ri", Lst(<<Int("1"), Int("2")>>))>>)),
  Stmt(PM("rm"), SubLit("1")), Stmt(PM("rm"), Msg(<<MF("y", Str("b"))>>)),
  Stmt(PM("mp"), Msg(<<MF("key", Str("a")), MF("value", Int("1"))>>)),
  Stmt(PM("mp"), Msg(<<MF("key", Str("b")), MF("value", Int("2"))>>)),
  Stmt(PM("mm"), Msg(<<MF("key", Str("a")), MF("value", SubLit("1"))>>)),
  Stmt(<<M, NP("grp", FALSE), NP("g", FALSE)>>, Int("1")), Stmt(PM("grp"), Msg(<<MF("g", Int("2"))>>)),
  Stmt(<<M, NP("oext", TRUE)>>, Int("1")), Stmt(<<M>>, Msg(<<MFx("oext", Int("2"))>>)),
  Stmt(<<M, NP("osub", TRUE), NP("x", FALSE)>>, Int("1")),
  Stmt(<<M>>, Msg(<<MFnc("sub", SubLit("1")), MFnc("rm", SubLit("1")), MFnc("rm", Msg(<<MF("y", Str("c"))>>))>>)),
  Stmt(<<M>>, Msg(<<MF("f_int32", Int("1")), MF("f_int32", Int("2"))>>)),
  (* Any *)
  Stmt(PM("any"), Msg(<<MFx("type.googleapis.com/p.Sub", Msg(<<MF("x", Int("1")), MF("y", Str("a"))>>))>>)),
  Stmt(<<M>>, Msg(<<MFnc("any", Msg(<<MFx("type.googleprod.com/p.Sub", Msg(<<MF("rx", Lst(<<Int("1"), Int("2")>>))>>))>>))>>)),
  Stmt(PM("any"), Msg(<<MF("type_url", Str("u")), MF("value", Str("v"))>>)),
  Stmt(PM("any"), Msg(<<MFx("example.com/p.Sub", Msg(<<>>))>>)),
  Stmt(PM("any"), Msg(<<MFx("type.googleapis.com/p.Nope", Msg(<<>>))>>)),
  Stmt(PM("any"), Msg(<<MFx("type.googleapis.com/p.Sub", Msg(<<MF("x", Str("bad"))>>))>>)),
  Stmt(PM("sub"), Msg(<<MFx("type.googleapis.com/p.Sub", Msg(<<>>))>>)),
  (* statements that do not interpret *)
  Stmt(<<M, NP("rm", FALSE), NP("x", FALSE)>>, Int("1")), Stmt(<<M, NP("ri", FALSE), NP("x", FALSE)>>, Int("1")),
  Stmt(<<M, NP("f_int32", FALSE), NP("x", FALSE)>>, Int("1")), Stmt(PM("nope"), Int("1")),
  Stmt(PMS("x"), Str("bad")), Stmt(PM("f_int32"), Str("bad")),
  Stmt(<<M>>, Msg(<<MF("f_int32", Int("1")), MF("f_string", Int("5"))>>)),
  Stmt(<<M>>, Msg(<<MF("nope", Int("1"))>>)), Stmt(<<M>>, Int("1")), Stmt(P1("x_int32"), Msg(<<>>)) }

(* ---- standard options and pseudo-options of the kind ---- *)
StdVals(f) ==
  CASE f.t = "bool"   -> {Id("true"), Id("false"), Int("1"), Id("t")}
    [] f.t = "string" -> {Str("abc"), Id("abc")}
    [] f.t = "enum"   -> { Id(n) : n \in EnumNames(f.mt) \ {"LITE_RUNTIME"} } \cup {Id("BOGUS"), Int("1")}
                         \* (a LITE_RUNTIME file may not extend descriptor.proto: outside the fragment)
    [] f.t = "int32"  -> {Int("5"), NegInt("2147483648"), Int("2147483648"), Str("x")}
StdStmts(k) == UNION { { Stmt(<<NP(f.n, FALSE)>>, v) : v \in StdVals(f) } : f \in StdTop(k) } \cup
               { Stmt(<<NP("no_such_option", FALSE)>>, Int("1")),
                 Stmt(<<NP("deprecated", FALSE), NP("x", FALSE)>>, Int("1")) }
StdMix == { Stmt(P1("x_int32"), Int("1")), Stmt(P1("x_int32"), Str("bad")), Stmt(PM("f_string"), Str("a")),
            Stmt(PMS("x"), Str("bad")), Stmt(<<M>>, Msg(<<MF("f_int32", Int("1")), MF("f_string", Int("5"))>>)),
            Stmt(PM("ri"), Int("1")) }

(* ---- editions: enum E open / closed by feature (mode edenum, schema parameter ed) ---- *)
EdEnumStmts == { Stmt(<<M>>, Msg(<<MF("f_enum", v)>>)) : v \in {Int("1"), Int("5"), NegInt("1"), NegInt("7"), Int("2147483648"), Id("E_ONE"), Id("bogus")} } \cup
               { Stmt(PM("f_enum"), Int("5")), Stmt(PM("f_enum"), Id("E_NEG")), Stmt(P1("x_enum"), Int("5")), Stmt(P1("x_enum"), Id("E_ONE")) }

(* ---- target universe ---- *)
TgtIds == {"x_int32", "m", "Opt.f_int32", "Opt.sub", "Sub.x", "oext", "Opt.grp", "Opt.rm", "rm"}
TargetNames == { Target(k) : k \in Kinds }
TargetStmts == {
  Stmt(P1("x_int32"), Int("1")), Stmt(P1("x_string"), Str("s")),
  Stmt(PM("f_int32"), Int("1")), Stmt(<<M>>, Msg(<<MF("f_int32", Int("1"))>>)), Stmt(PM("f_string"), Str("a")),
  Stmt(<<M>>, Msg(<<>>)),
  Stmt(PMS("x"), Int("1")), Stmt(PMS("y"), Str("a")), Stmt(PM("sub"), SubLit("1")), Stmt(PM("sub"), Msg(<<>>)),
  Stmt(<<M>>, Msg(<<MFnc("sub", SubLit("1"))>>)),
  Stmt(<<M, NP("oext", TRUE)>>, Int("1")), Stmt(<<M>>, Msg(<<MFx("oext", Int("1"))>>)),
  Stmt(<<M, NP("grp", FALSE), NP("g", FALSE)>>, Int("1")), Stmt(<<M>>, Msg(<<MFnc("Grp", Msg(<<MF("g", Int("1"))>>))>>)),
  Stmt(PM("rm"), SubLit("1")), Stmt(<<M>>, Msg(<<MF("rm", Lst(<<SubLit("1"), Msg(<<>>)>>))>>)),
  Stmt(P1("rm"), SubLit("1")), Stmt(P1("rm"), Msg(<<>>)) }

(* ---- strip universe: populating statements in a fixed order ---- *)
StripSeq(k) == << Stmt(P1("x_int32"), Int("1")), Stmt(P1("x_string"), Str("s")),
                  Stmt(PM("f_int32"), Int("1")), Stmt(PM("f_string"), Str("a")),
                  Stmt(PMS("x"), Int("1")), Stmt(PMS("y"), Str("a")),
                  Stmt(PM("rm"), Msg(<<MF("x", Int("1")), MF("y", Str("b"))>>)), Stmt(PM("rm"), Msg(<<MF("y", Str("c"))>>)),
                  Stmt(PM("mm"), Msg(<<MF("key", Str("a")), MF("value", Msg(<<MF("x", Int("1")), MF("y", Str("b"))>>))>>)),
                  Stmt(PM("mm"), Msg(<<MF("key", Str("b")), MF("value", Msg(<<MF("y", Str("c"))>>))>>)),
                  Stmt(<<M, NP("grp", FALSE), NP("g", FALSE)>>, Int("1")),
                  Stmt(PM("rg"), Msg(<<MF("g", Int("1")), MF("h", Int("2"))>>)), Stmt(PM("rg"), Msg(<<MF("g", Int("5"))>>)) >> \o
               (IF \E f \in StdTop(k) : f.n = "deprecated" THEN << Stmt(<<NP("deprecated", FALSE)>>, Id("true")) >> ELSE <<>>)

Universe(k) ==
  CASE Mode = "scalar" -> ScalarStmts
    [] Mode = "struct" -> StructStmts
    [] Mode = "std"    -> StdStmts(k) \cup StdMix
    [] Mode = "target" -> TargetStmts
    [] Mode = "sim"    -> StructStmts \cup StdStmts(k)
    [] Mode = "edenum" -> EdEnumStmts
    [] OTHER -> {}

TKs == IF TKSet = "single" THEN { {t} : t \in TargetNames }
       ELSE { {t} : t \in TargetNames } \cup { {"file", t} : t \in TargetNames \ {"file"} } \cup { {"message", "field"} }
Schemas ==
  CASE Mode = "target" -> { [NoSch EXCEPT !.tf = f, !.tk = tk] : f \in TgtIds, tk \in TKs }
    [] Mode = "edenum" -> { [NoSch EXCEPT !.ed = e] : e \in {"open", "closed"} }
    [] OTHER -> {NoSch}

Init == /\ run \in Runs
        /\ kind \in run.kinds
        /\ sch \in Schemas
        /\ part \in Parts
        /\ stmts = <<>> /\ acc = <<>> /\ bad = <<>> /\ uacc = <<>> /\ ubad = <<>>
        /\ info = [pre |-> FALSE, rules |-> {}, last |-> 0, dec |-> FALSE]
        /\ sib \in (IF Mode = "strip" /\ kind # "file" THEN {"none", "before", "after"} ELSE {"none"})

RECURSIVE Populated(_, _, _)
Populated(mt, es, k) ==
  UNION { LET f == FieldByEntry(mt, k, es[i].n) IN
          {f.id} \cup (IF f.t \in {"msg", "grp"} /\ f.card = "one" THEN Populated(f.mt, es[i].v.fs, k)
                       ELSE IF (f.t \in {"msg", "grp"} /\ f.card = "rep") \/ f.card = "map"
                       THEN UNION { Populated(f.mt, es[i].v.fs[j].v.fs, k) : j \in 1..Len(es[i].v.fs) }
                       ELSE {})
          : i \in 1..Len(es) }

(* json_name and default are handled as a group, outside the options message; what a best-effort
   interpretation does with the rest of the group after one of them failed (or when one is given twice) is
   not specified anywhere: at most one pseudo-option statement per element is generated                  *)
IsPseudo(s) == ~s.path[1].ext /\ s.path[1].n \in {"json_name", "default"}
Step(s, idx) ==
  LET r == InterpretOption(acc, s, kind, sch)
      u == IF Local(s) THEN InterpretOption(uacc, s, kind, sch) ELSE Rej("not-local")
  IN /\ ~r.unc /\ ~u.unc                         \* the filter: uncertain rules never leave the spec
     /\ ~(IsPseudo(s) /\ \E i \in 1..Len(stmts) : IsPseudo(stmts[i]))
     /\ stmts' = Append(stmts, s)
     /\ acc'  = IF r.ok THEN r.v.fs ELSE acc
     /\ bad'  = IF r.ok THEN bad ELSE Append(bad, Len(stmts) + 1)
     /\ uacc' = IF u.ok THEN u.v.fs ELSE uacc
     /\ ubad' = IF u.ok THEN ubad ELSE Append(ubad, Len(stmts) + 1)
     /\ info' = [pre |-> r.pre, rules |-> info.rules \cup (IF r.ok THEN {} ELSE {r.rule}), last |-> idx, dec |-> FALSE]

AddStmt ==
  /\ Len(stmts) < MaxStmts
  /\ ~info.pre                                   \* nothing after a syntax / link error: no file to interpret
  /\ ~info.dec
  /\ IF Mode = "strip"
     THEN \E i \in (info.last + 1)..Len(StripSeq(kind)) : Step(StripSeq(kind)[i], i)
     ELSE IF Mode = "sim"
     THEN \E s \in {RandomElement(Universe(kind))} : Step(s, 0)   \* one draw per step (tlc -simulate)
     ELSE \E s \in Universe(kind) : Step(s, 0)
  /\ UNCHANGED <<run, kind, sch, part, sib>>
(* strip mode: retention does not influence interpretation, so the retention assignment is chosen last,
   among those whose marked fields are all populated (a retention on an absent field adds nothing)     *)
Decorate ==
  /\ Mode = "strip" /\ ~info.dec /\ Len(stmts) >= 1
  /\ \E S \in SUBSET (RetIds \cap (Populated("TOP", acc, kind) \cup (IF sib = "none" THEN {} ELSE {"x_int32"}))) :
        /\ Cardinality(S) <= MaxRet
        /\ \E g \in [S -> {"RUNTIME", "SOURCE"}] :
              sch' = [sch EXCEPT !.ret = [i \in RetIds |-> IF i \in S THEN g[i] ELSE "unset"]]
  /\ info' = [info EXCEPT !.dec = TRUE]
  /\ UNCHANGED <<run, kind, part, stmts, acc, bad, uacc, ubad, sib>>
Next == AddStmt \/ Decorate
Spec == Init /\ [][Next]_vars

(* ---- what is exported ---- *)
Strict == [ok |-> bad = <<>>, es |-> acc]
SibStmts == << Stmt(P1("x_int32"), Int("7")) >>
SibEs == InterpretOption(<<>>, SibStmts[1], kind, sch).v.fs
RetView == { <<i, sch.ret[i]>> : i \in {j \in RetIds : sch.ret[j] # "unset"} }
Case == [mode |-> Mode, kind |-> kind, ed |-> sch.ed, tf |-> sch.tf, tk |-> sch.tk, ret |-> RetView,
         stmts |-> stmts, ok |-> bad = <<>>, pre |-> info.pre, rules |-> info.rules,
         es |-> acc, bad |-> bad, ues |-> uacc, ubad |-> ubad] @@
        (IF Mode = "strip"
         THEN [strip |-> StripTop(acc, kind, sch), sib |-> sib,
               sibstrip |-> IF sib = "none" THEN StripTop(<<>>, kind, sch) ELSE StripTop(SibEs, kind, sch)]
         ELSE <<>>)

Export == (Len(stmts) >= 1 /\ (Mode = "strip" => info.dec)) => PrintT("CASE " \o ToJson(Case))

(* ---- spec-level sanity, checked by TLC in every state ---- *)
(* stripping twice changes nothing; nothing with source retention survives; without a source
   retention nothing is removed; lenient = strict when nothing failed (by construction: bad = <<>>) *)
RECURSIVE NoSource(_, _, _)
NoSource(mt, es, k) ==
  \A i \in 1..Len(es) :
    LET f == FieldByEntry(mt, k, es[i].n) IN
    /\ RetOf(f, sch) # "SOURCE"
    /\ (f.t \in {"msg", "grp"} /\ f.card = "one") => NoSource(f.mt, es[i].v.fs, k)
    /\ ((f.t \in {"msg", "grp"} /\ f.card = "rep") \/ f.card = "map") => \A j \in 1..Len(es[i].v.fs) : NoSource(f.mt, es[i].v.fs[j].v.fs, k)
StripSane ==
  LET s == StripTop(acc, kind, sch) IN
  /\ StripTop(s.es, kind, sch).es = s.es
  /\ NoSource("TOP", s.es, kind)
  /\ (\A i \in RetIds : sch.ret[i] # "SOURCE") => (s.es = acc /\ s.removed = {})
(* the unlinked result never interprets a custom option, and everything it interprets strict
   interprets the same way when strict succeeds                                                 *)
UnlinkedSane ==
  /\ \A i \in 1..Len(uacc) : \E f \in StdTop(kind) : f.n = uacc[i].n
  /\ bad = <<>> => \A i \in 1..Len(uacc) : Has(acc, uacc[i].n) /\ Get(acc, uacc[i].n) = uacc[i].v
=============================================================================
