------------------------------- MODULE Symbols -------------------------------
(* The shared symbol table of the linker (linker/symbols.go, type Symbols)   [C16, C17]

   Two things live here and must not be confused:

   (1) The REFERENCE semantics of Import, written from the property statements and from the
       documentation of Symbols.Import ("If any collisions in symbol names or extension tags are
       identified, an error will be returned and the symbol table will not be updated"):
       RefImport / Collides / Acceptable / UnionHasCollision.  These are the oracles.

   (2) The LOCK-GRANULARITY model of the code: one step per critical section of
       importPackage (read-locked look, write-locked register), the already-imported read,
       importFile/importResult (check and commit under one write lock), addExtension (one step
       per extension, each under the extendee package's lock), and for the repaired code the
       read-locked extension pre-checks.  StepP is the deterministic step function of one importing
       process; which process moves is the only nondeterminism.

   Abstract files:  FDOf(id) = [pkg, syms, exts, deps]
       pkg   sequence of package name components  (<<>> = no package)
       syms  set of [n |-> full name (sequence of components), k |-> kind]
       exts  sequence (declaration order) of [e |-> extendee full name, t |-> tag, ep |-> extendee's package]
       deps  sequence of file ids (imports, in order)
   Table:  [pkgs |-> set of registered package names, syms |-> name :> [f, k],
            exts |-> <<extendee, tag>> :> file, files |-> set of imported file ids]            *)
EXTENDS Naturals, Sequences, FiniteSets, TLC, SymbolsFD

(* SymbolsFD (FileIds, FDOf) is the universe of SymbolsUniverse.tla, evaluated once by TLC (MCSymbolsGen)
   and written out as literal TLA+ by the engine: TLC does not reliably cache computed constant-level
   tables of an extended module, and the universe is looked up in every step.  The MC modules check in
   Init that the literal module equals the universe they are configured with (FDConsistent).  *)

CONSTANTS Variant    \* "orig": order of steps at the pinned commit;  "fixed": with the extension pre-check

EmptyFn == <<>>
EmptyTable == [pkgs |-> {}, syms |-> EmptyFn, exts |-> EmptyFn, files |-> {}]

Prefixes(p) == {SubSeq(p, 1, i) : i \in 1..Len(p)}
ExtKey(x) == <<x.e, x.t>>

SymNames(f) == {s.n : s \in FDOf(f).syms}
SymFn(f)    == [n \in SymNames(f) |-> [f |-> f, k |-> (CHOOSE s \in FDOf(f).syms : s.n = n).k]]
ExtKeys(f)  == {ExtKey(FDOf(f).exts[i]) : i \in 1..Len(FDOf(f).exts)}
ExtFn(f)    == [k \in ExtKeys(f) |-> f]
PkgPrefs(f) == Prefixes(FDOf(f).pkg)

-----------------------------------------------------------------------------
(* (1) Reference semantics -- from the statement.                                          *)

(* Every name the table answers for: committed symbols and registered packages. *)
Taken(T) == DOMAIN T.syms \cup T.pkgs

(* Would f's own content collide with table T?  name collision (symbol vs symbol, symbol vs
   package), package-vs-symbol collision (a prefix of f's package is a non-package symbol),
   extension-number collision.  *)
NameCollision(T, f) == \E n \in SymNames(f) : n \in Taken(T)
PkgCollision(T, f)  == \E p \in PkgPrefs(f) : p \in DOMAIN T.syms
ExtCollision(T, f)  == \E k \in ExtKeys(f) : k \in DOMAIN T.exts
Collides(T, f) == NameCollision(T, f) \/ PkgCollision(T, f) \/ ExtCollision(T, f)

CollisionKinds(T, f) ==
  (IF PkgCollision(T, f) THEN {"package"} ELSE {}) \cup
  (IF NameCollision(T, f) THEN {"name"} ELSE {}) \cup
  (IF ExtCollision(T, f) THEN {"extension"} ELSE {})

Commit(T, f) ==
  [pkgs  |-> T.pkgs \cup PkgPrefs(f),
   syms  |-> T.syms @@ SymFn(f),      \* (never overlapping here; @@ keeps the left value)
   exts  |-> T.exts @@ ExtFn(f),
   files |-> T.files \cup {f}]

(* Import(f): nothing if already imported; the imports of f are imported first (each is an Import
   of its own, atomic on its own); then f is added atomically or not at all.  *)
RECURSIVE RefImport(_, _), RefImportSeq(_, _)
RefImportSeq(T, fs) ==
  IF fs = <<>> THEN [t |-> T, ok |-> TRUE]
  ELSE LET r == RefImport(T, Head(fs))
       IN IF r.ok THEN RefImportSeq(r.t, Tail(fs)) ELSE r
RefImport(T, f) ==
  IF f \in T.files THEN [t |-> T, ok |-> TRUE]
  ELSE LET d == RefImportSeq(T, FDOf(f).deps)
       IN IF ~d.ok THEN d
          ELSE IF Collides(d.t, f) THEN [t |-> d.t, ok |-> FALSE]
          ELSE [t |-> Commit(d.t, f), ok |-> TRUE]

(* Tables a FAILED Import(f) may leave: the table as it was, plus any prefix of the (recursive,
   successful) imports of f's dependencies -- those are Imports of other files that succeeded, not part
   of the failed file.  Nothing of f itself.  *)
RECURSIVE Acceptable(_, _), AcceptableSeq(_, _)
AcceptableSeq(T, fs) ==
  IF fs = <<>> THEN {T}
  ELSE LET r == RefImport(T, Head(fs))
       IN {T} \cup (IF r.ok THEN AcceptableSeq(r.t, Tail(fs)) ELSE Acceptable(T, Head(fs)))
Acceptable(T, f) == AcceptableSeq(T, FDOf(f).deps)

(* Transitive imports. *)
RECURSIVE Closure(_)
Closure(F) ==
  LET G == F \cup UNION {{FDOf(f).deps[i] : i \in 1..Len(FDOf(f).deps)} : f \in F}
  IN IF G = F THEN F ELSE Closure(G)

(* C16, "compiling them together finds a collision": two different files of the set define the same
   name, or one defines a name that is a package (prefix) of the other, or both extend the same
   message with the same number.  *)
PairCollides(f, g) ==
  \/ SymNames(f) \cap SymNames(g) # {}
  \/ SymNames(f) \cap PkgPrefs(g) # {}
  \/ SymNames(g) \cap PkgPrefs(f) # {}
  \/ ExtKeys(f) \cap ExtKeys(g) # {}
UnionHasCollision(F) == \E f, g \in Closure(F) : f # g /\ PairCollides(f, g)

(* A file that can exist at all: it links together with its own imports. *)
Compilable(f) == RefImport(EmptyTable, f).ok

-----------------------------------------------------------------------------
(* (2) Lock-granularity model of Symbols.Import.

   Process state P = [todo, stack, res]:
     todo   files still to Import (the head is the one in progress when stack # <<>>)
     stack  frames [f, pc, i] of the recursion Import(f) -> Import(dep); the last frame is active
     res    <<[f, ok]>> results of the completed top-level Imports
   pc of the active frame names the NEXT critical section:
     "pkgR" i   importPackage(component i): look under RLock
     "pkgW" i   importPackage(component i): re-check and register under Lock
     "already"  read pkg.files under RLock  (fixed: the package is looked up without registering it;
                if it is not registered nothing else is read -- observation "nopkg"; the walk down the
                package trie and the read of the files map are taken as one step: registrations are
                monotone, so the step is linearised at its last read)
     "xchk" i   (fixed) read-locked check that extension i is not registered yet (not for extensions of
                messages the file declares itself)
     "recheck"  (fixed) after a taken number: the already-imported read again -- if the file is in the
                table now, a concurrent import of the same file took the number and Import returns nil
     "commit"   importFile / importResult: check + commit under the package's write lock
     "ext" i    addExtension(i) under the extendee package's write lock
   Steps that touch no shared state (pushing a frame for a dependency, returning) are folded into
   the preceding critical section by Norm.  *)

Frame(f, pc, i) == [f |-> f, pc |-> pc, i |-> i]
Top(st) == st[Len(st)]
Pop(st) == SubSeq(st, 1, Len(st) - 1)
SetTop(st, fr) == [st EXCEPT ![Len(st)] = fr]

NPkg(f) == Len(FDOf(f).pkg)
NExt(f) == Len(FDOf(f).exts)
NDep(f) == Len(FDOf(f).deps)

(* first critical section of Import(f) *)
Entry(f) ==
  IF Variant = "fixed" THEN Frame(f, "already", 0)
  ELSE IF NPkg(f) = 0 THEN Frame(f, "already", 0) ELSE Frame(f, "pkgR", 1)

(* after the package components are done *)
AfterPkgs(f) == IF Variant = "fixed" THEN Frame(f, "commit", 0) ELSE Frame(f, "already", 0)
(* after the dependencies are done *)
AfterXchk(f) == IF NPkg(f) = 0 THEN Frame(f, "commit", 0) ELSE Frame(f, "pkgR", 1)
(* the pre-check skips extensions of messages the file declares itself (static) *)
OwnExt(f, i) == FDOf(f).exts[i].e \in SymNames(f)
XchkFrom(f, i) ==
  LET js == {j \in i..NExt(f) : ~OwnExt(f, j)}
  IN IF js = {} THEN AfterXchk(f) ELSE Frame(f, "xchk", CHOOSE j \in js : \A k \in js : j <= k)
AfterDeps(f) == IF Variant = "fixed" THEN XchkFrom(f, 1) ELSE Frame(f, "commit", 0)

(* Norm: resolve local control flow until the active frame is at a critical section, or the
   process has nothing left.  pc "deps" i = about to Import dependency i;  "ret" = Import returns nil. *)
RECURSIVE Norm(_)
Norm(P) ==
  IF P.stack = <<>>
  THEN IF P.todo = <<>> THEN P
       ELSE Norm([P EXCEPT !.stack = <<Entry(Head(P.todo))>>])
  ELSE LET fr == Top(P.stack) IN
    CASE fr.pc = "deps" ->
           IF fr.i <= NDep(fr.f)
           THEN Norm([P EXCEPT !.stack = Append(P.stack, Entry(FDOf(fr.f).deps[fr.i]))])
           ELSE Norm([P EXCEPT !.stack = SetTop(P.stack, AfterDeps(fr.f))])
      [] fr.pc = "ret" ->
           IF Len(P.stack) = 1
           THEN Norm([todo |-> Tail(P.todo), stack |-> <<>>,
                      res |-> Append(P.res, [f |-> fr.f, ok |-> TRUE])])
           ELSE LET up == P.stack[Len(P.stack) - 1]
                IN Norm([P EXCEPT !.stack = SetTop(Pop(P.stack), Frame(up.f, "deps", up.i + 1))])
      [] OTHER -> P

(* an error return unwinds the whole recursion: the top-level Import fails *)
FailP(P) == Norm([todo |-> Tail(P.todo), stack |-> <<>>,
                  res |-> Append(P.res, [f |-> Head(P.todo), ok |-> FALSE])])
Goto(P, fr) == Norm([P EXCEPT !.stack = SetTop(P.stack, fr)])

NewProc(todo) == Norm([todo |-> todo, stack |-> <<>>, res |-> <<>>])
Done(P) == P.stack = <<>> /\ P.todo = <<>>

NextPkgFrame(f, i) == IF i < NPkg(f) THEN Frame(f, "pkgR", i + 1) ELSE AfterPkgs(f)

(* The label of a step: the gate the goroutine waits at before it (a, key), what it observed (r),
   and what it added to the table.  *)
NoAdd == [pk |-> {}, sy |-> {}, ex |-> {}]
Lab(a, f, name, tag, r, add) == [a |-> a, f |-> f, name |-> name, tag |-> tag, r |-> r, add |-> add]

(* One critical section of process-state P on table T.  Requires ~Done(P).  Deterministic. *)
StepP(T, P) ==
  LET fr == Top(P.stack)
      f  == fr.f
  IN
  CASE fr.pc = "pkgR" ->
         LET n == SubSeq(FDOf(f).pkg, 1, fr.i) IN
         IF n \in T.pkgs
         THEN [t |-> T, p |-> Goto(P, NextPkgFrame(f, fr.i)), lab |-> Lab("pkgR", f, n, 0, "pkg", NoAdd)]
         ELSE IF n \in DOMAIN T.syms
         THEN [t |-> T, p |-> FailP(P), lab |-> Lab("pkgR", f, n, 0, "sym", NoAdd)]
         ELSE [t |-> T, p |-> Goto(P, Frame(f, "pkgW", fr.i)), lab |-> Lab("pkgR", f, n, 0, "none", NoAdd)]
    [] fr.pc = "pkgW" ->
         LET n == SubSeq(FDOf(f).pkg, 1, fr.i) IN
         IF n \in T.pkgs
         THEN [t |-> T, p |-> Goto(P, NextPkgFrame(f, fr.i)), lab |-> Lab("pkgW", f, n, 0, "pkg", NoAdd)]
         ELSE IF n \in DOMAIN T.syms
         THEN [t |-> T, p |-> FailP(P), lab |-> Lab("pkgW", f, n, 0, "sym", NoAdd)]
         ELSE [t |-> [T EXCEPT !.pkgs = T.pkgs \cup {n}],
               p |-> Goto(P, NextPkgFrame(f, fr.i)),
               lab |-> Lab("pkgW", f, n, 0, "none", [NoAdd EXCEPT !.pk = {n}])]
    [] fr.pc = "already" ->
         IF Variant = "fixed" /\ NPkg(f) > 0 /\ FDOf(f).pkg \notin T.pkgs
         THEN (* the package is not registered, so the file cannot be: no lock is taken on a files map *)
              [t |-> T, p |-> Goto(P, Frame(f, "deps", 1)), lab |-> Lab("already", f, <<>>, 0, "nopkg", NoAdd)]
         ELSE IF f \in T.files
         THEN [t |-> T, p |-> Goto(P, Frame(f, "ret", 0)), lab |-> Lab("already", f, <<>>, 0, "yes", NoAdd)]
         ELSE [t |-> T, p |-> Goto(P, Frame(f, "deps", 1)), lab |-> Lab("already", f, <<>>, 0, "no", NoAdd)]
    [] fr.pc = "recheck" ->
         IF NPkg(f) > 0 /\ FDOf(f).pkg \notin T.pkgs
         THEN [t |-> T, p |-> FailP(P), lab |-> Lab("already", f, <<>>, 0, "nopkg", NoAdd)]
         ELSE IF f \in T.files
         THEN [t |-> T, p |-> Goto(P, Frame(f, "ret", 0)), lab |-> Lab("already", f, <<>>, 0, "yes", NoAdd)]
         ELSE [t |-> T, p |-> FailP(P), lab |-> Lab("already", f, <<>>, 0, "no", NoAdd)]
    [] fr.pc = "xchk" ->
         LET x == FDOf(f).exts[fr.i] IN
         IF ExtKey(x) \in DOMAIN T.exts
         THEN (* taken: by another file, or by a concurrent import of this very file -- look again *)
              [t |-> T, p |-> Goto(P, Frame(f, "recheck", 0)), lab |-> Lab("xchk", f, x.e, x.t, "dup", NoAdd)]
         ELSE [t |-> T,
               p |-> Goto(P, XchkFrom(f, fr.i + 1)),
               lab |-> Lab("xchk", f, x.e, x.t, "ok", NoAdd)]
    [] fr.pc = "commit" ->
         IF f \in T.files
         THEN [t |-> T, p |-> Goto(P, Frame(f, "ret", 0)), lab |-> Lab("commit", f, <<>>, 0, "dup", NoAdd)]
         ELSE IF \E n \in SymNames(f) : n \in DOMAIN T.syms \/ n \in T.pkgs
         THEN [t |-> T, p |-> FailP(P), lab |-> Lab("commit", f, <<>>, 0, "fail", NoAdd)]
         ELSE [t |-> [T EXCEPT !.syms = T.syms @@ SymFn(f), !.files = T.files \cup {f}],
               p |-> Goto(P, IF NExt(f) > 0 THEN Frame(f, "ext", 1) ELSE Frame(f, "ret", 0)),
               lab |-> Lab("commit", f, <<>>, 0, "ok", [NoAdd EXCEPT !.sy = SymNames(f)])]
    [] fr.pc = "ext" ->
         LET x == FDOf(f).exts[fr.i] IN
         IF ExtKey(x) \in DOMAIN T.exts
         THEN [t |-> T, p |-> FailP(P), lab |-> Lab("addExt", f, x.e, x.t, "dup", NoAdd)]
         ELSE [t |-> [T EXCEPT !.exts = T.exts @@ (ExtKey(x) :> f)],
               p |-> Goto(P, IF fr.i < NExt(f) THEN Frame(f, "ext", fr.i + 1) ELSE Frame(f, "ret", 0)),
               lab |-> Lab("addExt", f, x.e, x.t, "ok", [NoAdd EXCEPT !.ex = {ExtKey(x)}])]

(* Lookup / LookupExtension: one read each. The answer is the file whose declaration is recorded,
   "" for nil.  Lookup answers for the symbols files declare; a package name is not such a symbol
   (the property speaks of "the failed file's symbols"), a registered package is observable only through
   the collisions it causes.  *)
LookupRes(T, n) == IF n \in DOMAIN T.syms THEN T.syms[n].f ELSE ""
LookupExtRes(T, e, t) == IF <<e, t>> \in DOMAIN T.exts THEN T.exts[<<e, t>>] ELSE ""

(* Run one process alone to completion (sequential use of the table). *)
RECURSIVE RunSeq(_, _)
RunSeq(T, P) == IF Done(P) THEN [t |-> T, p |-> P]
                ELSE LET r == StepP(T, P) IN RunSeq(r.t, r.p)
SeqImport(T, f) == LET r == RunSeq(T, NewProc(<<f>>)) IN [t |-> r.t, ok |-> r.p.res[1].ok]
=============================================================================
