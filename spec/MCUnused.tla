------------------------------- MODULE MCUnused -------------------------------
(* C19: main.proto with 1..MaxImports imports, each reaching a DEFINER file d<k>.proto (message
   T<k>, custom message option o<k>) by one of the routes
       direct   import "d<k>.proto"
       reexp    import "r<k>.proto"   where r<k> is `import public "d<k>.proto";`
       reexp2   import "s<k>.proto"   a second public re-exporter of d<k> (overlapping providers)
       chain    import "c<k>.proto"   where c<k> imports d<k> NON-publicly (d<k> stays invisible,
                                      and c<k> itself has an unused import that must not be reported
                                      because c<k> is not an explicitly requested file)
   each import plain or public; each definer used by main through a field type, an extendee, a
   method input / output type, a custom option name, or not at all; optionally an import of
   google/protobuf/descriptor.proto that is needed (main defines an option) or not.
   Expected verdict per import: ProtoLang!ImportVerdict. *)
EXTENDS ProtoLang, TLC, Json

CONSTANTS
  MaxImports,   \* 1..3
  Routes,       \* subset of {"direct","reexp","reexp2","chain"}
  Kinds,        \* subset of {"plain","public"}
  Uses,         \* subset of {"none","type","extendee","input","output","optname"}
  DescModes     \* subset of {"absent","unused","used"}

VARIABLES stage, imps, uses, desc
vars == <<stage, imps, uses, desc>>

Digit(i) == CASE i = 1 -> "1" [] i = 2 -> "2" [] i = 3 -> "3" [] OTHER -> "4"
Definers == 1..MaxImports
RoutePath(r, t) == (CASE r = "direct" -> "d" [] r = "reexp" -> "r" [] r = "reexp2" -> "s" [] OTHER -> "c")
                   \o Digit(t) \o ".proto"
DPkg(t) == <<"d" \o Digit(t)>>
TRef(t) == Abs(DPkg(t) \o <<"T" \o Digit(t)>>)
ORef(t) == Abs(DPkg(t) \o <<"o" \o Digit(t)>>)
DescImp == Imp(DescriptorPath, "plain")

DefinerFile(t) ==
  FileRec("d" \o Digit(t) \o ".proto", DPkg(t), "proto2", <<DescImp>>,
          << Msg("T" \o Digit(t), 0), Ext("o" \o Digit(t), 0, 1100 + t, OptionsRef("message"), NoRef) >>)
RouteFile(r, t) ==
  FileRec(RoutePath(r, t), <<>>, "proto2",
          << Imp("d" \o Digit(t) \o ".proto", IF r = "chain" THEN "plain" ELSE "public") >>, <<>>)

(* main's declarations: a neutral message m, then one declaration per use *)
UseDecls(us) ==
  LET RECURSIVE Build(_, _, _)
      Build(t, decls, svc) ==
        IF t > MaxImports THEN decls
        ELSE LET u == us[t]
                 n == Len(decls)
             IN CASE u = "type" -> Build(t + 1, Append(decls, Fld("f" \o Digit(t), 1, t, TRef(t))), svc)
                  [] u = "extendee" -> Build(t + 1, Append(decls, Ext("x" \o Digit(t), 0, 1200 + t, TRef(t), NoRef)), svc)
                  [] u = "input" -> Build(t + 1, decls \o << Svc("S" \o Digit(t)), Mtd("R", n + 1, TRef(t), Abs(<<"p", "m">>)) >>, svc)
                  [] u = "output" -> Build(t + 1, decls \o << Svc("S" \o Digit(t)), Mtd("R", n + 1, Abs(<<"p", "m">>), TRef(t)) >>, svc)
                  [] u = "optname" -> Build(t + 1, Append(decls, WithOpts(Msg("K" \o Digit(t), 0), <<OptUse(ORef(t))>>)), svc)
                  [] OTHER -> Build(t + 1, decls, svc)
  IN Build(1, << Msg("m", 0) >>, 0)

Ws(im, us, dm) ==
  LET mainImps == (IF dm = "absent" THEN <<>> ELSE <<DescImp>>)
                  \o [j \in 1..Len(im) |-> Imp(RoutePath(im[j].route, im[j].target), im[j].kind)]
      mainDecls == UseDecls(us) \o (IF dm = "used"
                     THEN << Ext("zo", 0, 1500, OptionsRef("message"), NoRef) >> ELSE <<>>)
      main == FileRec("main.proto", <<"p">>, "proto2", mainImps, mainDecls)
      routeFiles == {<<im[j].route, im[j].target>> : j \in {i \in 1..Len(im) : im[i].route # "direct"}}
  IN <<main>> \o [t \in Definers |-> DefinerFile(t)]
              \o SetToSeq({RouteFile(rt[1], rt[2]) : rt \in routeFiles})
              \o <<DescriptorFile>>

ImpChoices == [route : Routes, kind : Kinds, target : Definers]
Init == stage = "imports" /\ imps = <<>> /\ uses = <<>> /\ desc \in DescModes
AddImport == /\ stage = "imports" /\ Len(imps) < MaxImports
             /\ \E c \in ImpChoices :
                  /\ (\A j \in 1..Len(imps) : RoutePath(imps[j].route, imps[j].target) # RoutePath(c.route, c.target)) = TRUE
                  (* canonical order of targets: a new definer index only after all smaller ones *)
                  /\ (c.target <= 1 + Cardinality({imps[j].target : j \in 1..Len(imps)})) = TRUE
                  /\ imps' = Append(imps, c)
             /\ UNCHANGED <<stage, uses, desc>>
ChooseUses == /\ stage = "imports" /\ Len(imps) >= 1
              /\ LET vis == Visible(Ws(imps, [t \in Definers |-> "none"], desc), 1)   \* independent of the uses
                 IN \E us \in [Definers -> Uses] :
                      (* a definer can be used iff main sees it (file index 1 + t); full Valid is exported
                         with the case and asserted by the engine *)
                      /\ (\A t \in Definers : us[t] = "none" \/ (1 + t) \in vis) = TRUE
                      /\ uses' = us
              /\ stage' = "done"
              /\ UNCHANGED <<imps, desc>>
Next == AddImport \/ ChooseUses
Spec == Init /\ [][Next]_vars

Case ==
  LET ws == Ws(imps, uses, desc)
      refs == [g \in Files(ws) |-> RefsOf(ws, g)]
      needed == {r.exp.deffile : r \in {x \in refs[1] : x.exp.outcome = "ok"}} \ {1, 0}
  IN [check |-> "C19", ws |-> WsV(ws), fqns |-> [g \in Files(ws) |-> DeclFQNs(ws, g)],
      refs |-> [g \in Files(ws) |-> {RefV(r) : r \in refs[g]}], valid |-> Valid(ws),
      slots |-> imps, uses |-> uses, desc |-> desc,
      verdicts |-> [k \in 1..Len(ws[1].imports) |->
                      [path |-> ws[1].imports[k].path, kind |-> ws[1].imports[k].kind,
                       verdict |-> ImportVerdictN(ws, 1, k, needed)]]]

Export == stage = "done" => PrintT("CASE " \o ToJson(Case))
=============================================================================
