SPECIFICATION TraceSpec
CONSTANTS AbortAtMax = 100
INVARIANTS NeverConcurrent
POSTCONDITION TraceAccepted
CHECK_DEADLOCK FALSE
