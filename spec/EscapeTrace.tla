------------------------------- MODULE EscapeTrace -------------------------------
(* C26, direction code -> model: every line of the recorded trace is
     {"b": [bytes given to the real escaper], "t": [bytes of the text the real code produced]}
   (the real code = internal.EscapeBytes and the default_value the compiler wrote into the
   descriptor).  The trace is accepted iff the specification's Unescape reads every recorded
   text back to the recorded bytes.  POSTCONDITION: the whole trace was consumed. *)
EXTENDS Escape, TLC, Json
VARIABLE i
Trace == ndJsonDeserialize("esc_trace.ndjson")

Init == i = 1
Step == /\ i <= Len(Trace)
        /\ Unescape(Trace[i].t) = Trace[i].b
        /\ i' = i + 1
Spec == Init /\ [][Step]_i

(* every record was matched: the behaviour has Len(Trace) + 1 states *)
TraceAccepted ==
  LET d == TLCGet("stats").diameter IN
    IF d - 1 = Len(Trace) THEN TRUE
    ELSE Print(<<"TRACE-REJECTED-AT-RECORD", d>>, FALSE)
=============================================================================
