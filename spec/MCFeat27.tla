------------------------------ MODULE MCFeat27 ------------------------------
(* C27 only (differential: the reference is the stable compiler, no protoc rule is claimed):
   edition 2023 files in which one feature is set at several lexical levels.  A case is a record
   (family, value per level, trigger); TLC enumerates every combination.  The only thing the
   specification computes is the lexical inheritance of the feature (innermost explicit setting,
   else the edition default), used to NAME a disagreement, not to decide it.

   json     features.json_format at file / enclosing message / enum level ("" = not set, msg = "-" means
            the enum is top level); the enum `Color` has values COLOR_DARK_RED = 0 and, trigger TRUE,
            COLOR_dark_red = 1 (same name after stripping the enum-name prefix and normalising case),
            trigger FALSE, COLOR_LIGHT = 1
   enumtype features.enum_type at file / enum level; trigger TRUE: the first value is 1, else 0
   presence features.field_presence at file / field level; trigger TRUE: the field has `default = 7`
   aliasres (no feature) file = the syntax; an enum with `reserved 5 to 7`, with (inner = "alias":
            `option allow_alias = true` and a real alias pair) or without allow_alias; trigger TRUE: a
            value numbered 6, inside the reserved range, else 8 *)
EXTENDS Naturals, Sequences, TLC, Json

VARIABLE c
Json3 == {"", "ALLOW", "LEGACY_BEST_EFFORT"}
Enum3 == {"", "OPEN", "CLOSED"}
Pres3 == {"", "EXPLICIT", "IMPLICIT"}
Cases ==
  {[family |-> "json", file |-> f, msg |-> m, inner |-> e, trigger |-> t]
     : f \in Json3, m \in Json3 \cup {"-"}, e \in Json3, t \in BOOLEAN}
  \cup {[family |-> "enumtype", file |-> f, msg |-> "-", inner |-> e, trigger |-> t] : f \in Enum3, e \in Enum3, t \in BOOLEAN}
  \cup {[family |-> "presence", file |-> f, msg |-> "-", inner |-> e, trigger |-> t] : f \in Pres3, e \in Pres3, t \in BOOLEAN}
  \cup {[family |-> "aliasres", file |-> f, msg |-> "-", inner |-> e, trigger |-> t]
          : f \in {"proto2", "proto3", "editions"}, e \in {"alias", "noalias"}, t \in BOOLEAN}

DefaultOf(fam) == CASE fam = "json" -> "ALLOW" [] fam = "enumtype" -> "OPEN" [] OTHER -> "EXPLICIT"
(* lexical inheritance: innermost explicit setting wins *)
SetAt(k) == IF k.inner # "" THEN "inner" ELSE IF k.msg \notin {"", "-"} THEN "msg" ELSE IF k.file # "" THEN "file" ELSE "default"
Effective(k) == IF k.inner # "" THEN k.inner ELSE IF k.msg \notin {"", "-"} THEN k.msg
                ELSE IF k.file # "" THEN k.file ELSE DefaultOf(k.family)

Init == c \in Cases
Next == UNCHANGED c
Spec == Init /\ [][Next]_c
Export == PrintT("CASE " \o ToJson([feat |-> c @@ [effective |-> Effective(c), setat |-> SetAt(c)]]))
=============================================================================
