------------------------------- MODULE Toposort -------------------------------
(* Contract of internal/toposort.Sort (C41), from the property statement: "For any DAG and roots,
   the sort yields every reachable node exactly once, each after all of its children.  On cyclic
   input it still terminates and yields each reachable node once."

   A graph is a set E of pairs <<p, c>>: c is a child of p.  Roots is a sequence (repeats allowed). *)
EXTENDS Naturals, Sequences, FiniteSets

Children(E, n) == {e[2] : e \in {x \in E : x[1] = n}}

RECURSIVE Closure(_, _)
Closure(E, S) == LET T == S \cup UNION {Children(E, n) : n \in S}
                 IN IF T = S THEN S ELSE Closure(E, T)

Elems(s) == {s[i] : i \in 1..Len(s)}

(* nodes reachable from the roots, the roots included *)
Reach(E, roots) == Closure(E, Elems(roots))

(* some reachable node can reach itself through at least one edge *)
Cyclic(E, roots) == \E n \in Reach(E, roots) : n \in Closure(E, Children(E, n))

NoRepeats(out) == \A i, j \in 1..Len(out) : i # j => out[i] # out[j]

(* the pairs <<c, p>> that constrain the order: child before parent, both reachable *)
MustPrecede(E, roots) == {<<e[2], e[1]>> : e \in {x \in E : x[1] \in Reach(E, roots)}}

Pos(out, n) == CHOOSE i \in 1..Len(out) : out[i] = n

(* the contract for an output sequence *)
ValidOrder(E, roots, out) ==
  /\ NoRepeats(out)
  /\ Elems(out) = Reach(E, roots)
  /\ ~Cyclic(E, roots) => \A pr \in MustPrecede(E, roots) : Pos(out, pr[1]) < Pos(out, pr[2])
=============================================================================
