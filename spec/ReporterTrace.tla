---------------------------- MODULE ReporterTrace ----------------------------
(* Direction B for C08: callback traces recorded by the driver's Reporter during real
   compilations are validated against ReporterContract.  One line per event; runs are
   concatenated ("Config" resets).                                                         *)
EXTENDS ReporterContract, Json, TLC, Sequences

Trace == ndJsonDeserialize("trace.ndjson")
VARIABLE l
Ev == Trace[l]
IsEvent(e) == l <= Len(Trace) /\ Trace[l].ev = e /\ l' = l + 1

TraceInit == /\ Trace[1].ev = "Config" /\ l = 2
             /\ abortAt = Trace[1].abortAt
             /\ inflight = 0 /\ aborted = FALSE /\ nerr = 0 /\ nwarn = 0 /\ result = "running"

TConfig == /\ IsEvent("Config") /\ result # "running"
           /\ abortAt' = Ev.abortAt
           /\ inflight' = 0 /\ aborted' = FALSE /\ nerr' = 0 /\ nwarn' = 0 /\ result' = "running"
TErrEnter == IsEvent("ErrEnter") /\ ErrEnter
TErrExit == IsEvent("ErrExit") /\ ErrExit(Ev.abort)
TWarnEnter == IsEvent("WarnEnter") /\ WarnEnter
TWarnExit == IsEvent("WarnExit") /\ WarnExit
TReturn == IsEvent("Return") /\ Return(Ev.res) /\ (Ev.mustFail => Ev.res # "nil") /\ (~Ev.mustFail => Ev.res = "nil")

TraceNext == TConfig \/ TErrEnter \/ TErrExit \/ TWarnEnter \/ TWarnExit \/ TReturn
TraceSpec == TraceInit /\ [][TraceNext]_<<cvars, l>>

TraceAccepted ==
  LET d == TLCGet("stats").diameter IN
  IF d = Len(Trace) THEN TRUE
  ELSE Print(<<"TRACE-REJECTED matched", d, "of", Len(Trace), "next", IF d + 1 <= Len(Trace) THEN Trace[d + 1] ELSE "none">>, FALSE)
=============================================================================
