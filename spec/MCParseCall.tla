------------------------------ MODULE MCParseCall ------------------------------
(* Stand-alone model of the ParseCall contract: a few small texts (with and without TAB / LF),
   every position a parser might name.  Shows which behaviours the contract admits. *)
EXTENDS ParseCall
MCTexts == {<<>>, <<"a">>, <<"T">>, <<"N">>, <<"a", "N">>, <<"N", "a">>, <<"T", "a">>,
            <<"a", "N", "T">>, <<"N", "N">>}
=============================================================================
