----------------------------- MODULE MCReportOps -----------------------------
(* C36 / C37 as a state machine over one report: the actions are the public operations
     Push(d)            add a diagnostic (through the constructors)
     Permute(p)         reorder Report.Diagnostics
     Canonicalize(k)    Report.Canonicalize with KeepDuplicates = k
     RoundTrip          ToProto -> bytes -> AppendFromProto into a fresh report
   and `hist` records each operation with the report the specification expects afterwards.
   Used with tlc -simulate: every behaviour of MaxOps steps is one case; the driver (mode ops)
   performs each operation on the real report and compares after EVERY step.

   Canonicalize is enabled only where the documentation determines the result completely (no
   two different diagnostics tie on all six keys); the tie cases are MCReportCanon's business.
   A decoded diagnostic has sort order 0: the protobuf form has no field for it.               *)
EXTENDS ReportUniverse, Json

CONSTANTS MaxDiags, MaxOps

VARIABLES diags, hist
vars == <<diags, hist>>

Init == diags = <<>> /\ hist = <<>>

Log(op, arg, after) == hist' = Append(hist, [op |-> op, arg |-> arg, after |-> after])

Push ==
  /\ Len(diags) < MaxDiags
  /\ \E d \in Universe : /\ diags' = Append(diags, d)
                         /\ Log("push", <<d>>, diags')
PermuteAct ==
  /\ Len(diags) >= 2
  /\ \E p \in Perms(Len(diags)) :
       /\ \E i \in 1..Len(diags) : p[i] # i
       /\ diags' = Permute(diags, p)
       /\ Log("permute", p, diags')
CanonicalizeAct ==
  /\ Len(diags) >= 1 /\ ~ FullKeyTie(diags)
  /\ \E k \in BOOLEAN : /\ diags' = Canon(diags, k)
                        /\ Log(IF k THEN "canonicalize-keep" ELSE "canonicalize", <<>>, diags')
RoundTripAct ==
  /\ Len(diags) >= 1
  /\ diags' = RoundTrip(diags, Files)
  /\ Log("roundtrip", <<>>, diags')

Next == Len(hist) < MaxOps /\ (Push \/ PermuteAct \/ CanonicalizeAct \/ RoundTripAct)
Spec == Init /\ [][Next]_vars

(* spec-level: what C36 / C37 say about single steps *)
StepProps ==
  hist # <<>> =>
    LET h == hist[Len(hist)]
    IN /\ h.op = "roundtrip" => h.after = StripStage(h.after) /\ Len(h.after) = Len(diags)
       /\ h.op \in {"canonicalize", "canonicalize-keep"} =>
            /\ SortedByDoc(h.after)
            /\ Canon(h.after, h.op = "canonicalize-keep") = h.after          \* idempotent

Case == [kind |-> "ops", files |-> Files, ops |-> hist]
Export == Len(hist) = MaxOps => PrintT("CASE " \o ToJson(Case))
=============================================================================
