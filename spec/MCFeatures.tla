------------------------------ MODULE MCFeatures ------------------------------
(* C04 generator: enumerates file values of Features.tla -- syntax x explicit overrides at file / message / nested
   message / enum / field level (plus [packed], [default], non-zero first enum value) x field shapes -- and exports
   every Valid one with ALL expected descriptor attributes of every element.

   Bounds: at most MaxFields fields; at most MaxWeight "decorations" (override entries and option flags) in total, so
   MaxWeight = 2 covers every pair {two features at one level, one feature at two levels, override x option}, 3 covers
   the whole file -> M -> N chain of one feature.  Denser file values come from `tlc -simulate` on the same Next.   *)
EXTENDS Features, TLC, Json
CONSTANTS MaxFields, MaxWeight,        \* exploration bounds
          MinFields, MinWeight,        \* export only file values at least this large (simulation: the dense ones)
          SynSet, ScopeSet, TypeSet,   \* subsets of Syntaxes / Scopes / Types to explore
          FeatSet,                     \* subset of FN that SetLevel / SetFieldOv may override (FN, or a family such as presence x enum openness)
          MaxBroken                    \* 0: only Valid file values; 1: also those breaking exactly one resolved-feature rule
VARIABLE F
vars == <<F>>

Empty(syn) == [syntax |-> syn, fov |-> NoOv, eov |-> NoOv, ezero |-> TRUE, neov |-> NoOv, nezero |-> TRUE,
               mov |-> NoOv, nov |-> NoOv, fields |-> <<>>]

BaseSpecs == [type : TypeSet, rep : BOOLEAN, mapkey : {"", "string", "int32"}, lab : {"none", "optional", "required"},
              where : {"plain", "oneof", "ext"}, scope : ScopeSet, tgt : {"", "T", "G"}, lname : BOOLEAN,
              packed : {"unset"}, dflt : {FALSE}, ov : {NoOv}]
BaseShapes(syn) == {s \in BaseSpecs : ShapeOK(syn, s)}

FieldWeight(s) == Cardinality(DOMAIN s.ov) + (IF s.packed # "unset" THEN 1 ELSE 0) + (IF s.dflt THEN 1 ELSE 0)
RECURSIVE SumW(_)
SumW(fs) == IF fs = <<>> THEN 0 ELSE FieldWeight(Head(fs)) + SumW(Tail(fs))
Weight(G) == Cardinality(DOMAIN G.fov) + Cardinality(DOMAIN G.eov) + Cardinality(DOMAIN G.neov)
             + Cardinality(DOMAIN G.mov) + Cardinality(DOMAIN G.nov)
             + (IF G.ezero THEN 0 ELSE 1) + (IF G.nezero THEN 0 ELSE 1) + SumW(G.fields)

With(ov, f, v) == [g \in (DOMAIN ov) \cup {f} |-> IF g = f THEN v ELSE ov[g]]
LevelKind(lvl) == CASE lvl = "fov" -> "file" [] lvl \in {"eov", "neov"} -> "enum" [] lvl \in {"mov", "nov"} -> "message"

Init == \E syn \in SynSet : F = Empty(syn)

AddField == /\ Len(F.fields) < MaxFields
            /\ \E s \in BaseShapes(F.syntax) : F' = [F EXCEPT !.fields = Append(@, s)]

SetLevel == /\ F.syntax = "editions"
            /\ \E lvl \in {"fov", "eov", "neov", "mov", "nov"} : \E f \in FeatSet : \E v \in Values(f) :
                 /\ f \notin DOMAIN F[lvl]
                 /\ LevelKind(lvl) \in Targets(f)
                 /\ ~(lvl = "fov" /\ v = "LEGACY_REQUIRED")
                 /\ F' = [F EXCEPT ![lvl] = With(@, f, v)]

SetFieldOv == /\ F.syntax = "editions"
              /\ \E k \in Idx(F) : \E f \in FeatSet : \E v \in Values(f) :
                   LET s2 == [F.fields[k] EXCEPT !.ov = With(@, f, v)] IN
                   /\ f \notin DOMAIN F.fields[k].ov
                   /\ ShapeOK(F.syntax, s2)
                   /\ F' = [F EXCEPT !.fields[k] = s2]

SetPacked == \E k \in Idx(F) : \E b \in {"true", "false"} :
                LET s2 == [F.fields[k] EXCEPT !.packed = b] IN
                /\ F.fields[k].packed = "unset"
                /\ ShapeOK(F.syntax, s2)
                /\ F' = [F EXCEPT !.fields[k] = s2]

SetDflt == \E k \in Idx(F) :
                LET s2 == [F.fields[k] EXCEPT !.dflt = TRUE] IN
                /\ ~F.fields[k].dflt
                /\ ShapeOK(F.syntax, s2)
                /\ F' = [F EXCEPT !.fields[k] = s2]

SetNonZero == \E e \in {"ezero", "nezero"} : F[e] /\ F' = [F EXCEPT ![e] = FALSE]

Next == \/ AddField
        \/ (Weight(F) < MaxWeight /\ (SetLevel \/ SetFieldOv \/ SetPacked \/ SetDflt \/ SetNonZero))
Spec == Init /\ [][Next]_vars

(* ---------------------------------------------------------------------------------------------------- *)
(* export                                                                                                *)

L(v) == CASE v = "EXPLICIT" -> "E" [] v = "IMPLICIT" -> "I" [] v = "LEGACY_REQUIRED" -> "R"
          [] v = "OPEN" -> "O" [] v = "CLOSED" -> "C" [] v = "PACKED" -> "P" [] v = "EXPANDED" -> "X"
          [] v = "VERIFY" -> "V" [] v = "NONE" -> "N" [] v = "LENGTH_PREFIXED" -> "L" [] v = "DELIMITED" -> "D"
          [] v = "ALLOW" -> "A" [] v = "LEGACY_BEST_EFFORT" -> "B"
O1(ov, f) == IF f \in DOMAIN ov THEN L(ov[f]) ELSE "-"
OvStr(ov) == O1(ov, FNSeq[1]) \o O1(ov, FNSeq[2]) \o O1(ov, FNSeq[3]) \o O1(ov, FNSeq[4]) \o O1(ov, FNSeq[5]) \o O1(ov, FNSeq[6])
W1(ch, syn, f) == L(Walk(ch, syn, f))
(* resolved feature set of an element whose override chain is ch (what a "resolve feature" API must return; for the
   legacy syntaxes every chain is empty, so this is the syntax's default -- keyword-inferred features are NOT part of it) *)
FeatStr(ch, syn) == W1(ch, syn, FNSeq[1]) \o W1(ch, syn, FNSeq[2]) \o W1(ch, syn, FNSeq[3]) \o W1(ch, syn, FNSeq[4])
                    \o W1(ch, syn, FNSeq[5]) \o W1(ch, syn, FNSeq[6])

EnumCase(G, e) == [name |-> e, fqn |-> (IF e = "E" THEN "pkg.E" ELSE "pkg.M.NE"),
                   ov |-> OvStr(IF e = "E" THEN G.eov ELSE G.neov), zero |-> (IF e = "E" THEN G.ezero ELSE G.nezero),
                   closed |-> IsClosed(G, e), feat |-> FeatStr(EnumChain(G, e), G.syntax)]
FirstNum(G, e) == IF (IF e = "E" THEN G.ezero ELSE G.nezero) THEN 0 ELSE 1

OneofsOf(G, scope) ==
  LET real == SeqOfSet({k \in MemberIdx(G, scope) : G.fields[k].where = "oneof"})
      syn  == SeqOfSet({k \in MemberIdx(G, scope) : InSyntheticOneof(G, G.fields[k])})
  IN (IF real = <<>> THEN <<>> ELSE <<[name |-> "O", synth |-> FALSE,
                                      members |-> [i \in 1..Len(real) |-> FieldName(G.fields[real[i]], real[i])]]>>)
     \o [i \in 1..Len(syn) |-> [name |-> "_" \o FieldName(G.fields[syn[i]], syn[i]), synth |-> TRUE,
                                members |-> <<FieldName(G.fields[syn[i]], syn[i])>>]]

MsgCase(fqn, ovs, ch, syn, req, oneofs, entry) ==
  [fqn |-> fqn, ov |-> ovs, feat |-> FeatStr(ch, syn), req |-> req, oneofs |-> oneofs, mapentry |-> entry]

MsgsOf(G) ==
  LET syn == G.syntax
      gs == SeqOfSet({k \in Idx(G) : G.fields[k].tgt = "G"})
      ms == SeqOfSet({k \in Idx(G) : IsMap(G.fields[k])})
  IN <<MsgCase("pkg.T", "------", <<G.fov>>, syn, <<>>, <<>>, FALSE),
       MsgCase("pkg.M", OvStr(G.mov), ScopeChain(G, "M"), syn, RequiredNumbers(G, "M"), OneofsOf(G, "M"), FALSE),
       MsgCase("pkg.M.N", OvStr(G.nov), ScopeChain(G, "N"), syn, RequiredNumbers(G, "N"), OneofsOf(G, "N"), FALSE)>>
     \o (IF syn = "proto3" THEN <<>> ELSE <<MsgCase("pkg.X", "------", <<G.fov>>, syn, <<>>, <<>>, FALSE)>>)
     \o [i \in 1..Len(gs) |-> MsgCase(ScopeFQN(G.fields[gs[i]].scope) \o "." \o GrpName(gs[i]), "------",
                                      ScopeChain(G, G.fields[gs[i]].scope), syn, <<>>, <<>>, FALSE)]
     \o [i \in 1..Len(ms) |-> MsgCase(ScopeFQN(G.fields[ms[i]].scope) \o "." \o EntryName(ms[i]), "------",
                                      ScopeChain(G, G.fields[ms[i]].scope), syn, <<>>, <<>>, TRUE)]

EnumNum(G, t, second) == FirstNum(G, EnumOfType(t)) + (IF second THEN 1 ELSE 0)
DefaultStr(G, s) ==
  IF IsRepeated(s) \/ IsMsgTyped(s) THEN "<none>"
  ELSE CASE s.type = "int32" -> (IF s.dflt THEN "7" ELSE "0")
         [] s.type \in {"string", "bytes"} -> (IF s.dflt THEN "hi" ELSE "")
         [] IsEnumTyped(s) -> ToString(EnumNum(G, s.type, s.dflt))

MsgTypeFQN(G, s, k) == IF IsMap(s) THEN ScopeFQN(s.scope) \o "." \o EntryName(k)
                       ELSE IF s.tgt = "T" THEN "pkg.T"
                       ELSE IF s.tgt = "G" THEN ScopeFQN(s.scope) \o "." \o GrpName(k) ELSE ""
EnumTypeFQN(s) == IF s.type = "enumE" THEN "pkg.E" ELSE IF s.type = "enumNE" THEN "pkg.M.NE" ELSE ""

FieldCase(G, k) ==
  LET s == G.fields[k] IN
  [name |-> FieldName(s, k), fqn |-> FieldFQN(s, k), num |-> FieldNumber(G, s, k),
   src |-> [type |-> s.type, rep |-> s.rep, mapkey |-> s.mapkey, lab |-> s.lab, where |-> s.where, scope |-> s.scope,
            tgt |-> s.tgt, lname |-> s.lname, packed |-> s.packed, dflt |-> s.dflt, ov |-> OvStr(s.ov)],
   exp |-> [kind |-> Kind(G, s), card |-> CardinalityOf(G, s), pres |-> HasPresence(G, s), packed |-> IsPacked(G, s),
            list |-> (IsRepeated(s) /\ ~IsMap(s)), map |-> IsMap(s), optkw |-> HasOptionalKeyword(s),
            oneof |-> (IF s.where = "oneof" THEN "O" ELSE IF InSyntheticOneof(G, s) THEN "_" \o FieldName(s, k) ELSE ""),
            ext |-> (s.where = "ext"),
            cmsg |-> (IF s.where = "ext" THEN Extendee(G) ELSE ScopeFQN(s.scope)),
            parent |-> ScopeFQN(s.scope),
            msg |-> MsgTypeFQN(G, s, k), enum |-> (IF IsMap(s) THEN "" ELSE EnumTypeFQN(s)),
            json |-> (IF s.where = "ext" THEN TextName(G, s, k) ELSE JsonName(s, k)), text |-> TextName(G, s, k),
            hasdef |-> s.dflt, def |-> DefaultStr(G, s),
            utf8 |-> EnforceUTF8(G, s),
            feat |-> FeatStr(FieldChain(G, s), G.syntax),
            skip |-> (IF G.syntax = "proto3" /\ s.where = "ext" /\ s.lab = "optional" THEN {"optkw"} ELSE {})]]

(* key / value fields of the synthesized map entry: plain singular fields of the entry message; the map field's own
   overrides reach them only as far as the rule is certain (utf8_validation for string-typed key / value) *)
E1(G, s, f, etype) == IF f \notin DOMAIN s.ov THEN L(Walk(ScopeChain(G, s.scope), G.syntax, f))
                      ELSE IF f = "utf8_validation" /\ etype = "string" THEN L(s.ov[f]) ELSE "?"
EFeat(G, s, etype) == E1(G, s, FNSeq[1], etype) \o E1(G, s, FNSeq[2], etype) \o E1(G, s, FNSeq[3], etype)
                      \o E1(G, s, FNSeq[4], etype) \o E1(G, s, FNSeq[5], etype) \o E1(G, s, FNSeq[6], etype)
EntryField(G, s, k, which) ==
  LET t == IF which = "key" THEN s.mapkey ELSE s.type
      kind == IF t = "message" THEN "message" ELSE IF t = "enumE" THEN "enum" ELSE t
  IN [fqn |-> ScopeFQN(s.scope) \o "." \o EntryName(k) \o "." \o which, num |-> (IF which = "key" THEN 1 ELSE 2),
      kind |-> kind, card |-> "optional",
      pres |-> (t = "message" \/ Walk(ScopeChain(G, s.scope), G.syntax, "field_presence") # "IMPLICIT"),
      utf8 |-> (IF t = "string" THEN EnforceUTF8(G, s) ELSE FALSE), isstr |-> (t = "string"),
      feat |-> EFeat(G, s, t)]
EntryFieldsOf(G) ==
  LET ms == SeqOfSet({k \in Idx(G) : IsMap(G.fields[k])})
  IN [i \in 1..(2 * Len(ms)) |-> LET k == ms[(i + 1) \div 2] IN
         EntryField(G, G.fields[k], k, IF i % 2 = 1 THEN "key" ELSE "value")]

CaseOf(G) == [syntax |-> G.syntax, breaks |-> Broken(G), edition |-> EditionNumber(G.syntax), weight |-> Weight(G),
              fov |-> OvStr(G.fov), ffeat |-> FeatStr(<<G.fov>>, G.syntax),
              enums |-> <<EnumCase(G, "E"), EnumCase(G, "NE")>>,
              msgs |-> MsgsOf(G),
              fields |-> [k \in Idx(G) |-> FieldCase(G, k)],
              efields |-> EntryFieldsOf(G)]

Export == (Len(F.fields) >= MinFields /\ Weight(F) >= MinWeight /\ Core(F) /\ Cardinality(Broken(F)) <= MaxBroken)
            => PrintT("CASE " \o ToJson(CaseOf(F)))

(* spec-level sanity (checked by TLC on every state; a violation is a machinery error, exit 2) *)
SpecSane ==
  (Len(F.fields) >= MinFields /\ Weight(F) >= MinWeight /\ Valid(F)) => \A k \in Idx(F) : LET s == F.fields[k] IN
     /\ IsPacked(F, s) => (IsRepeated(s) /\ ~IsMsgTyped(s))
     /\ (CardinalityOf(F, s) = "required") => HasPresence(F, s)
     /\ (Kind(F, s) = "group") => IsMsgTyped(s) /\ ~IsMap(s)
     /\ GroupLike(F, s) => TextName(F, s, k) # FieldName(s, k)
=============================================================================
