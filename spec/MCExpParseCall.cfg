SPECIFICATION MSpec
CONSTANTS
  MaxInput = 2
  MaxDiag = 3
INVARIANTS TypeOK NeverICE Contract
CHECK_DEADLOCK FALSE
