SPECIFICATION Spec
CONSTANTS
  Tasks = {"t1", "t2"}
  ItemSeqs <- MCItemSeqs
  AbortAtMax = 3
INVARIANTS MutualExclusion SuccessOnlyIfNothingReported AbortIdentity InvalidWhenAccepted
PROPERTIES ImplementsContract Terminates
