---------------------------- MODULE MCSymbolsParts ----------------------------
(* Random partitions (larger than what MCSymbolsConc explores exhaustively) for the free-running
   concurrent runs of direction B: run with  tlc -simulate num=N -depth 2 -seed $VERIF_SEED .
   Each behaviour draws one partition: NProc lists of at most MaxPer files of the universe.  The
   validity of the runs recorded from them is decided by SymbolsTrace.tla, not here.  *)
EXTENDS Symbols, Json

CONSTANTS NProc, MaxPer

VARIABLE parts
Usable == {f \in FileIds : Compilable(f)}

Init == parts = <<>>
Draw == /\ parts = <<>>
        /\ parts' = [p \in 1..NProc |->
                       [i \in 1..RandomElement(IF p = 1 THEN 1..MaxPer ELSE 0..MaxPer) |-> RandomElement(Usable)]]
        /\ PrintT("CASE " \o ToJson([kind |-> "parts", parts |-> parts']))
Spec == Init /\ [][Draw]_parts
=============================================================================
