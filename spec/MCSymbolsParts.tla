---------------------------- MODULE MCSymbolsParts ----------------------------
(* Partitions for the free-running concurrent runs of direction B (larger than what MCSymbolsConc explores
   exhaustively): run with  tlc -simulate num=N -depth 2 -seed $VERIF_SEED .  Each behaviour draws one
   partition of one of three kinds:
     random     NProc lists of at most MaxPer files of the universe
     siblings   package p.q is registered first (pre = 1: the first file of process 1 is imported before the
                other goroutines are released); then files of p.q -- which walk through the existing child
                p.q of node p -- are imported while other goroutines register the NEW siblings p.r1 .. p.r4
     collide    two large files of one package that declare the same name last, one per goroutine, started
                together: their conflict checks overlap, and exactly one of the two Imports must fail
   The validity of the runs recorded from them is decided by SymbolsTrace.tla, not here.  *)
EXTENDS Symbols, Json

CONSTANTS NProc, MaxPer

VARIABLE parts
Usable == {f \in FileIds : Compilable(f)}
QFiles == {f \in Usable : FDOf(f).pkg = <<"p", "q">> /\ FDOf(f).deps = <<>>}
Sibs   == {f \in Usable : Len(FDOf(f).pkg) = 2 /\ FDOf(f).pkg[1] = "p" /\ FDOf(f).pkg[2] # "q"}
Bigs   == {f \in Usable : FDOf(f).pad > 0}
Kinds  == <<"random", "random", "siblings", "collide">>

Random == [p \in 1..NProc |->
             [i \in 1..RandomElement(IF p = 1 THEN 1..MaxPer ELSE 0..MaxPer) |-> RandomElement(Usable)]]
Siblings ==
  << <<RandomElement(QFiles), RandomElement(QFiles), RandomElement(Sibs)>>,
     <<RandomElement(Sibs), RandomElement(QFiles), RandomElement(Sibs)>>,
     <<RandomElement(Sibs), RandomElement(Sibs), RandomElement(QFiles)>> >>
Collide ==
  CHOOSE ps \in {<< <<a>>, <<b>> >> : a \in {RandomElement(Bigs)}, b \in Bigs} : ps[1][1] # ps[2][1]

Init == parts = <<>>
(* bound variables fix one random draw (a LET definition would be drawn again at every use) *)
Draw == /\ parts = <<>>
        /\ \E k \in {IF Sibs = {} \/ QFiles = {} \/ Cardinality(Bigs) < 2 THEN "random"
                      ELSE Kinds[RandomElement(1..Len(Kinds))]} :
           \E ps \in {CASE k = "siblings" -> Siblings [] k = "collide" -> Collide [] OTHER -> Random} :
              /\ parts' = ps
              /\ PrintT("CASE " \o ToJson([kind |-> "parts", flavour |-> k, parts |-> ps,
                                          pre |-> IF k = "siblings" THEN 1 ELSE 0,
                                          collide |-> UnionHasCollision(
                                             UNION {{ps[p][i] : i \in 1..Len(ps[p])} : p \in 1..Len(ps)})]))
Spec == Init /\ [][Draw]_parts
=============================================================================
