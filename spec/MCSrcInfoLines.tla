---------------------------- MODULE MCSrcInfoLines ----------------------------
(* Cross-check of the Go reference line table used for C23's span check (harness/srcinfo/lines.go):
   every text over SrcText's class alphabet up to MaxLen with the line table SrcLines demands. *)
EXTENDS SrcLines, TLC, Json
CONSTANTS MaxLen, Alphabet
VARIABLE t
Init == t = <<>>
Next == Len(t) < MaxLen /\ \E c \in Alphabet : t' = Append(t, c)
Spec == Init /\ [][Next]_t
Export == PrintT("CASE " \o ToJson([text |-> t, table |-> LineTable(t)]))
=============================================================================
