------------------------------- MODULE InternTrace -------------------------------
(* Direction B for C38: validates histories recorded from the real intern.Table by
   harness/intern against Intern.tla.  One event = one action.

   Hooked runs log every atomic step (gate before, trace point after, serialised by the
   driver, so the logged order is the order in which the steps took effect):
       call  q.load  q.read  los  los.read  log.*  commit  ret  (+ panic, which nothing matches)
   Runs without hooks (race-detector runs with many goroutines) log only
       acall  aret
   taken by the driver before the call and after the return; for those only the monitor part
   of Intern.tla moves (the commit is not logged: a Query that returns true for a string
   nobody finished interning is accepted iff an Intern of it is in flight).
   "reset" starts a fresh table (many runs are validated in one TLC run). *)
EXTENDS Intern, Json

VARIABLE ti
tvars == <<allvars, ti>>

Trace == ndJsonDeserialize("intern_trace.ndjson")

TInit == IInit /\ ti = 1

Reset == /\ lnext' = 0 /\ llen' = 0 /\ lcap' = 0 /\ lptr' = 1 /\ heap' = << <<>> >>
         /\ lpc' = [g \in Procs |-> "idle"] /\ lreg' = [g \in Procs |-> LReg0]
         /\ index' = << >> /\ abs' = << >> /\ issued' = << >>
         /\ pc' = [g \in Procs |-> "idle"] /\ reg' = [g \in Procs |-> Reg0]
         /\ ops' = [g \in Procs |-> 0] /\ abs0' = [g \in Procs |-> FALSE]

Match(e) ==
  LET g == e.g IN
  CASE e.ev = "reset"    -> Reset
    [] e.ev = "call"     -> Call(g, e.op, e.s, e.id)
    [] e.ev = "q.load"   -> QLoad(g) /\ reg[g].s = e.s /\ (e.ok <=> ~Absent(e.s))
    [] e.ev = "q.read"   -> QRead(g) /\ reg[g].s = e.s /\ index[e.s] = e.id
    [] e.ev = "los"      -> Los(g) /\ reg[g].s = e.s /\ (e.ok <=> ~Absent(e.s))
    [] e.ev = "los.read" -> LosRead(g) /\ reg[g].s = e.s /\ index[e.s] = e.id
    [] e.ev = "commit"   -> Commit(g) /\ reg[g].s = e.s /\ lreg[g].i + 1 = e.id
    [] IsLogEvent(e)     -> pc[g] \in {"append", "load"} /\ LogEvent(e, g) /\ UNCHANGED ivars
    [] e.ev = "ret" /\ e.op = "value" /\ e.id > 0
                         -> ValueRetFused(g) /\ reg[g].arg = e.id /\ reg'[g].res = e.s
    [] e.ev = "ret" /\ e.op = "value" /\ e.id <= 0
                         -> Ret(g) /\ reg[g].op = "value" /\ reg[g].arg = e.id /\ reg[g].res = e.s
    [] e.ev = "ret" /\ e.op \in {"intern", "query"}
                         -> Ret(g) /\ reg[g].op = e.op /\ reg[g].s = e.s /\ reg[g].id = e.id
                                   /\ (e.op = "query" => reg[g].ok = e.ok)
    [] e.ev = "acall"    -> ApiCall(g, e.op, e.s, e.id)
    [] e.ev = "aret"     -> ApiRet(g, e.id, e.ok, e.res)
    [] OTHER             -> FALSE

TNext == /\ ti <= Len(Trace)
         /\ ti' = ti + 1
         /\ Match(Trace[ti])
TSpec == TInit /\ [][TNext]_tvars

TraceAccepted ==
  LET d == TLCGet("stats").diameter IN
  IF d - 1 = Len(Trace) THEN TRUE
  ELSE Print(<<"TRACE-REJECTED at event", d, IF d <= Len(Trace) THEN Trace[d] ELSE "eof">>, FALSE)
=============================================================================
