------------------------------- MODULE MCResolve -------------------------------
(* C15: enumerate workspaces x reference sites; export, per (workspace, site), the expected outcome
   of EVERY spelling written at that site, computed by ProtoLang!Outcome.

   File 1 (f1.proto) holds a host declaration with the probed reference site:
     type      message m { optional <SP> zf = 1; }
     extendee  message m { extend <SP> { optional int32 zx = 1000; } }
     input     service zs { rpc zr(<SP>) returns (.pkg.m); }         (+ message m)
     output    service zs { rpc zr(.pkg.m) returns (<SP>); }
     msgopt    message m { option (<SP>) = 1; }
     fldopt    message m { optional int32 zf = 1 [(<SP>) = 1]; }
     fileopt   option (<SP>) = 1;                                    (+ message m)
     mtdopt    service zs { rpc zr(.pkg.m) returns (.pkg.m) { option (<SP>) = 1; } }
   When `sib` is TRUE the host has an EARLIER SIBLING container zq of the same kind (message zq
   before message m; service zq before service zs) and candidates may be declared inside it
   (where = "sib"), or, for the service sites, inside message m (where = "sibm"): names nested in
   a sibling are not in scope of the host, so they must not be found unqualified (a scope that is
   pushed for one element and not popped leaks exactly these names).
   plus a set of CANDIDATE declarations named from a pool that collides with the package
   components (top level / inside the host / inside another candidate message), and optionally a
   second file with its own package that is imported, not imported, re-exported publicly through a
   third file, or reachable only through a non-public chain. *)
EXTENDS ProtoLang, TLC, Json

CONSTANTS
  Pkgs1Ids,     \* subset of {"none","a","ab","b"}: package of f1
  SiteKinds,    \* subset of {"type","extendee","input","output","msgopt","fldopt","fileopt","mtdopt"}
  SibModes,     \* subset of BOOLEAN: with / without the earlier sibling container zq
  CandKinds,    \* subset of {"message","enum","enumv","field","oneof","ext","service","method"}
  CandNames,    \* e.g. {"a","b"}
  AllowChild,   \* BOOLEAN: candidates nested in a candidate message
  MaxCands,
  F2Pkgs,       \* subset of {"none","a","ab","b","ba"}; {} = no second file
  F2Decls,      \* subset of {"msg:a","msg:b","enum:a","msgab","ext:a","svc:a","val:b"}
  F2Rels        \* subset of {"plain","hidden","public","chain"}

VARIABLES stage, site, pk, cands, f2, sib
vars == <<stage, site, pk, cands, f2, sib>>

PkgOf(id) == CASE id = "none" -> <<>> [] id = "a" -> <<"a">> [] id = "ab" -> <<"a", "b">>
               [] id = "b" -> <<"b">> [] id = "ba" -> <<"b", "a">> [] OTHER -> <<>>
None == [pkg |-> "-", decl |-> "-", rel |-> "-"]
OptSites == {"msgopt", "fldopt", "fileopt", "mtdopt"}
HostIsSvc(s) == s \in {"input", "output", "mtdopt"}

C(k, n, w) == [kind |-> k, name |-> n, where |-> w]
CandSet(s) ==
  LET topK  == CandKinds \cap {"message", "enum", "enumv", "ext", "service"}
      hostK == IF HostIsSvc(s) THEN CandKinds \cap {"method"}
               ELSE CandKinds \cap {"message", "enum", "enumv", "field", "oneof", "ext"}
      chK   == IF AllowChild THEN CandKinds \cap {"message", "enum", "field", "ext"} ELSE {}
      chW   == IF HostIsSvc(s) THEN {"top"} ELSE {"top", "host"}
      inMsgK == CandKinds \cap {"message", "enum", "enumv", "field", "oneof", "ext"}
      sibC  == IF ~sib \/ s = "fileopt" THEN {}
               ELSE {C(k, n, <<"sib">>) : k \in hostK, n \in CandNames}
                    \cup (IF HostIsSvc(s) THEN {C(k, n, <<"sibm">>) : k \in inMsgK, n \in CandNames} ELSE {})
  IN sibC \cup {C(k, n, <<"top">>) : k \in topK, n \in CandNames}
     \cup {C(k, n, <<"host">>) : k \in hostK, n \in CandNames}
     \cup {C(k, n, <<w, pn>>) : k \in chK, n \in CandNames, w \in chW, pn \in CandNames}
ParentCand(c) == C("message", c.where[2], <<c.where[1]>>)
Closed(S) == \A c \in S : Len(c.where) = 2 => ParentCand(c) \in S

-----------------------------------------------------------------------------
(* building the workspace from the choices *)
Probe == Rel(<<"PROBE">>)
MRef(p) == Abs(p \o <<"m">>)

(* indices in f1's declaration table: message sites  [zq] m probe...   service sites  m [zq] zs zr *)
MIdx(s) == IF HostIsSvc(s) THEN 1 ELSE (IF sib THEN 2 ELSE 1)
SvcIdx == IF sib THEN 3 ELSE 2
SibIdx(s) == IF HostIsSvc(s) THEN 2 ELSE 1
BaseDecls(s, p) ==
  LET mi == MIdx(s)
      preM == IF sib THEN << Msg("zq", 0) >> ELSE <<>>
      preS == << Msg("m", 0) >> \o (IF sib THEN << Svc("zq") >> ELSE <<>>) \o << Svc("zs") >>
  IN CASE s = "type"     -> preM \o << Msg("m", 0), Fld("zf", mi, 1, Probe) >>
       [] s = "extendee" -> preM \o << Msg("m", 0), Ext("zx", mi, 1000, Probe, NoRef) >>
       [] s = "input"    -> preS \o << Mtd("zr", SvcIdx, Probe, MRef(p)) >>
       [] s = "output"   -> preS \o << Mtd("zr", SvcIdx, MRef(p), Probe) >>
       [] s = "mtdopt"   -> preS \o << WithOpts(Mtd("zr", SvcIdx, MRef(p), MRef(p)), <<OptUse(Probe)>>) >>
       [] s = "msgopt"   -> preM \o << WithOpts(Msg("m", 0), <<OptUse(Probe)>>) >>
       [] s = "fldopt"   -> preM \o << Msg("m", 0), WithOpts(Fld("zf", mi, 1, NoRef), <<OptUse(Probe)>>) >>
       [] OTHER          -> preM \o << Msg("m", 0) >>
HostIdx(s) == IF HostIsSvc(s) THEN SvcIdx ELSE MIdx(s)
ProbeSite(s) ==
  CASE s = "type" -> <<MIdx(s) + 1, "type">> [] s = "extendee" -> <<MIdx(s) + 1, "extendee">>
    [] s = "input" -> <<SvcIdx + 1, "input">> [] s = "output" -> <<SvcIdx + 1, "output">>
    [] s = "mtdopt" -> <<SvcIdx + 1, "opt1">>
    [] s = "msgopt" -> <<MIdx(s), "opt1">> [] s = "fldopt" -> <<MIdx(s) + 1, "opt1">> [] OTHER -> <<0, "opt1">>
(* what candidate / second-file extensions extend: the options message of the probed site when an
   option name is probed, otherwise the neutral message m of their own file *)
ExtTarget(s, p) == CASE s = "msgopt" -> OptionsRef("message") [] s = "fldopt" -> OptionsRef("field")
                     [] s = "fileopt" -> OptionsRef("file") [] s = "mtdopt" -> OptionsRef("method")
                     [] OTHER -> MRef(p)

(* declarations one candidate stands for; i = its ordinal (for numbers), par = parent index,
   at = index the first declaration will get *)
CandDecls(c, i, par, at, s, p) ==
  CASE c.kind = "message" -> << Msg(c.name, par) >>
    [] c.kind = "enum"    -> << Enum(c.name, par), Val("z" \o c.name, at) >>
    [] c.kind = "enumv"   -> << Enum("ze" \o c.name, par), Val(c.name, at) >>
    [] c.kind = "field"   -> << Fld(c.name, par, 10 + i, NoRef) >>
    [] c.kind = "oneof"   -> << Oneof(c.name, par), Fld("zo" \o c.name, at, 20 + i, NoRef) >>
    [] c.kind = "ext"     -> << Ext(c.name, par, 1100 + i, ExtTarget(s, p), NoRef) >>
    [] c.kind = "service" -> << Svc(c.name) >>
    [] OTHER              -> << Mtd(c.name, par, MRef(p), MRef(p)) >>

RECURSIVE AddCands(_, _, _, _, _, _)
AddCands(decls, todo, i, idx, s, p) ==
  IF todo = <<>> THEN decls
  ELSE LET c == Head(todo)
           par == IF c.where = <<"top">> THEN 0 ELSE IF c.where = <<"host">> THEN HostIdx(s)
                  ELSE IF c.where = <<"sib">> THEN SibIdx(s) ELSE IF c.where = <<"sibm">> THEN 1
                  ELSE (CHOOSE q \in idx : q[1] = ParentCand(c))[2]
           at == Len(decls) + 1
       IN AddCands(decls \o CandDecls(c, i, par, at, s, p), Tail(todo), i + 1, idx \cup {<<c, at>>}, s, p)

OrderedCands(S) == SetToSeq({c \in S : Len(c.where) = 1}) \o SetToSeq({c \in S : Len(c.where) = 2})
F1Decls(s, p, S) == AddCands(BaseDecls(s, p), OrderedCands(S), 1, {}, s, p)

NeedsDescriptor(s, S) == s \in OptSites
F2DeclsOf(id, s, p2) ==
  CASE id = "msg:a"  -> << Msg("a", 0) >>
    [] id = "msg:b"  -> << Msg("b", 0) >>
    [] id = "enum:a" -> << Enum("a", 0), Val("za", 1) >>
    [] id = "val:b"  -> << Enum("zeb", 0), Val("b", 1) >>
    [] id = "msgab"  -> << Msg("a", 0), Msg("b", 1) >>
    [] id = "svc:a"  -> << Svc("a") >>
    [] OTHER         -> IF s \in OptSites THEN << Ext("a", 0, 1200, ExtTarget(s, p2), NoRef) >>
                        ELSE << Msg("m", 0), Ext("a", 0, 1200, MRef(p2), NoRef) >>

Ws(s, p, S, x) ==
  LET desc == IF s \in OptSites THEN << Imp(DescriptorPath, "plain") >> ELSE <<>>
      imp1 == CASE x.rel = "plain" -> << Imp("f2.proto", "plain") >>
                [] x.rel \in {"public", "chain"} -> << Imp("f3.proto", "plain") >>
                [] OTHER -> <<>>
      f1 == [FileRec("f1.proto", p, "proto2", desc \o imp1, F1Decls(s, p, S))
               EXCEPT !.opts = IF s = "fileopt" THEN <<OptUse(Probe)>> ELSE <<>>]
      p2 == PkgOf(x.pkg)
      f2r == FileRec("f2.proto", p2, "proto2",
                     IF s \in OptSites /\ x.decl = "ext:a" THEN << Imp(DescriptorPath, "plain") >> ELSE <<>>,
                     F2DeclsOf(x.decl, s, p2))
      f3 == FileRec("f3.proto", <<>>, "proto2",
                    << Imp("f2.proto", IF x.rel = "public" THEN "public" ELSE "plain") >>, <<>>)
  IN <<f1>> \o (IF x = None THEN <<>> ELSE <<f2r>>)
            \o (IF x.rel \in {"public", "chain"} THEN <<f3>> ELSE <<>>)
            \o (IF s \in OptSites THEN <<DescriptorFile>> ELSE <<>>)

ExtNumsOK(ws) ==
  LET exts == UNION {{<<g, d>> : d \in {e \in Decls(ws[g]) : ws[g].decls[e].kind = "ext"}} : g \in Files(ws)}
  IN /\ \A e \in exts : ws[e[1]].decls[e[2]].num \in ExtRange
     /\ \A e1, e2 \in exts : e1 # e2 => ws[e1[1]].decls[e1[2]].num # ws[e2[1]].decls[e2[2]].num

(* everything except the probed reference must be fine *)
OthersResolve(ws, ps) ==
  \A g \in Files(ws) : \A r \in RefsOf(ws, g) :
    (g = 1 /\ <<r.decl, r.slot>> = ps) \/ r.exp.outcome = "ok"
Good(ws, ps) == WellFormed(ws) /\ ExtNumsOK(ws) /\ OthersResolve(ws, ps)

-----------------------------------------------------------------------------
F2Configs == {[pkg |-> q, decl |-> d, rel |-> r] : q \in F2Pkgs, d \in F2Decls, r \in F2Rels}

Init == /\ stage = "cands" /\ cands = {} /\ f2 = None /\ sib \in SibModes
        /\ site \in SiteKinds /\ pk \in {PkgOf(i) : i \in Pkgs1Ids}
AddCand == /\ stage = "cands" /\ Cardinality(cands) < MaxCands
           /\ \E c \in CandSet(site) \ cands :
                /\ Closed(cands \cup {c}) = TRUE      \* "= TRUE": evaluate as a state predicate
                /\ Good(Ws(site, pk, cands \cup {c}, None), ProbeSite(site)) = TRUE
                /\ cands' = cands \cup {c}
           /\ UNCHANGED <<stage, site, pk, f2, sib>>
Finish == /\ stage = "cands"
          (* a sibling container is only worth a case when something is declared in it *)
          /\ (sib => \E c \in cands : c.where[1] \in {"sib", "sibm"}) = TRUE
          /\ \E x \in F2Configs \cup {None} :
               /\ Good(Ws(site, pk, cands, x), ProbeSite(site)) = TRUE
               /\ f2' = x
          /\ stage' = "done"
          /\ UNCHANGED <<site, pk, cands, sib>>
Next == AddCand \/ Finish
Spec == Init /\ [][Next]_vars

-----------------------------------------------------------------------------
(* spellings probed: every dotted name over the candidate names up to three components, an unknown
   last component, an unknown first component, and names through the neutral hosts *)
Seqs(S, n) == UNION {[1..k -> S] : k \in 1..n}
PoolParts == Seqs(CandNames, 3) \cup {s \o <<"c">> : s \in Seqs(CandNames, 2)}
             \cup {<<"c">>, <<"c", "a">>, <<"m">>, <<"m", "a">>, <<"m", "b">>, <<"m", "a", "b">>, <<"zs", "a">>,
                   <<"zq">>, <<"zq", "a">>, <<"zq", "b">>,
                   <<"zf">>, <<"a", "m">>, <<"a", "m", "a">>, <<"a", "b", "m">>, <<"a", "b", "m", "a">>, <<"b", "m", "a">>}
Spellings == {Sp(ab, q) : ab \in BOOLEAN, q \in PoolParts}

TheWs == Ws(site, pk, cands, f2)
Case ==
  LET ws == TheWs
      ps == ProbeSite(site)
      env == Env(ws, 1)
  IN [check |-> "C15", ws |-> WsV(ws),
      site |-> [file |-> 1, decl |-> ps[1], slot |-> ps[2]], sitekind |-> site, sib |-> sib,
      fqns |-> [g \in Files(ws) |-> DeclFQNs(ws, g)],
      refs |-> [g \in Files(ws) |-> {RefV(r) : r \in {x \in RefsOf(ws, g) : ~(g = 1 /\ <<x.decl, x.slot>> = ps)}}],
      probes |-> SetToSeq({[sp |-> SpText(sp), exp |-> ExpV(Outcome(ws, env, 1, ps[1], ps[2], sp))] : sp \in Spellings})]

Export == stage = "done" => PrintT("CASE " \o ToJson(Case))
=============================================================================
