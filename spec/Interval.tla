------------------------------- MODULE Interval -------------------------------
(* Naive model of internal/interval (C40), written from the property statement and the doc
   comments of the Go types (Intersect: "given a point, query for the intersection of all
   intervals which contain it, along with the values associated with each of those intervals",
   Entries: "one entry per maximal subset of the map with non-empty intersection ... yielded in
   order, pairwise disjoint", Insert: "returns true if the interval was disjoint from all others";
   Nesting: "splits the collection into strictly nesting sets").  Nothing here looks at how the
   Go code stores anything.

   An insertion history h is a sequence of intervals [lo |-> a, hi |-> b] (a <= b, both ends
   inclusive).  The value attached to the i-th insertion is i, so "the values of the inserted
   intervals containing p, in insertion order" is the increasing sequence of indices. *)
EXTENDS Integers, Sequences, FiniteSets, SequencesExt

Covers(iv, p)        == iv.lo <= p /\ p <= iv.hi
Disjoint(x, y)       == x.hi < y.lo \/ y.hi < x.lo
StrictlyInside(x, y) == y.lo < x.lo /\ x.hi < y.hi          \* x strictly nested in y
StrictSubset(x, y)   == y.lo <= x.lo /\ x.hi <= y.hi /\ (y.lo < x.lo \/ x.hi < y.hi)

(* Two members of one nesting set must be "either disjoint or strictly nested" (statement).
   Strictly nested is read as: both end points strictly inside (no shared end point).  The type's
   doc comment says "strict subset", which would also allow a shared end point; WeakCompatible is
   that more lenient reading.  Both are exported so that a disagreement says which reading it
   breaks (an interval pair that merely overlaps breaks both). *)
Compatible(x, y)     == Disjoint(x, y) \/ StrictlyInside(x, y) \/ StrictlyInside(y, x)
WeakCompatible(x, y) == Disjoint(x, y) \/ StrictSubset(x, y) \/ StrictSubset(y, x)

Asc(S) == SetToSortSeq(S, LAMBDA a, b : a < b)

---------------------------------------------------------------------------
(* Intersect *)

(* indices of the inserted intervals that contain point p *)
Covering(h, p) == {i \in 1..Len(h) : Covers(h[i], p)}

(* Get(p): their values, in insertion order *)
Get(h, p) == Asc(Covering(h, p))

(* Insert(iv) after history h reports whether iv is disjoint from everything inserted before *)
InsertDisjoint(h, iv) == \A i \in 1..Len(h) : Disjoint(h[i], iv)

(* Entries: the covered points of P (a contiguous integer range that contains every end point)
   cut into maximal runs of consecutive points covered by exactly the same intervals *)
RunStarts(h, P) == {p \in P : /\ Covering(h, p) # {}
                              /\ (p - 1 \notin P \/ Covering(h, p - 1) # Covering(h, p))}
RunEnd(h, P, s) == CHOOSE e \in P :
                     /\ e >= s
                     /\ \A q \in s..e : Covering(h, q) = Covering(h, s)
                     /\ (e + 1 \notin P \/ Covering(h, e + 1) # Covering(h, s))
Entries(h, P) == LET ss == Asc(RunStarts(h, P))
                 IN [k \in 1..Len(ss) |-> [s |-> ss[k], e |-> RunEnd(h, P, ss[k]), v |-> Get(h, ss[k])]]

(* what the property statement asks of any entry list E (checked on the oracle itself by TLC) *)
EntriesWellFormed(E) ==
  /\ \A k \in 1..Len(E) : E[k].s <= E[k].e
  /\ \A k \in 1..(Len(E) - 1) : E[k].e < E[k + 1].s
EntriesAgreeWithGet(h, P, E) ==
  /\ \A k \in 1..Len(E) : \A p \in E[k].s..E[k].e : E[k].v = Get(h, p)
  /\ \A p \in P : Covering(h, p) # {} => \E k \in 1..Len(E) : E[k].s <= p /\ p <= E[k].e

---------------------------------------------------------------------------
(* Nesting.  An observation of Sets() is a sequence of sets; each set is a sequence (order inside
   a set is unspecified) of entries [s, e, v]; v is the index of the insertion. *)

NestingOK(h, obs) ==
  LET M == UNION {{<<k, m>> : m \in 1..Len(obs[k])} : k \in 1..Len(obs)}
      ent(x) == obs[x[1]][x[2]]
  IN /\ \A k \in 1..Len(obs) : Len(obs[k]) > 0
     \* every member is an inserted interval, reported with its own end points
     /\ \A x \in M : /\ ent(x).v \in 1..Len(h)
                     /\ ent(x).s = h[ent(x).v].lo /\ ent(x).e = h[ent(x).v].hi
     \* every inserted interval appears, and only once
     /\ \A i \in 1..Len(h) : Cardinality({x \in M : ent(x).v = i}) = 1
     \* inside one set: disjoint or strictly nested
     /\ \A x, y \in M : (x[1] = y[1] /\ x # y) =>
            Compatible([lo |-> ent(x).s, hi |-> ent(x).e], [lo |-> ent(y).s, hi |-> ent(y).e])

(* the same requirement as a matrix over insertion indices, for export *)
CompatMatrix(h) == [i \in 1..Len(h) |-> [j \in 1..Len(h) |->
                      IF i = j THEN 0
                      ELSE IF Compatible(h[i], h[j]) THEN 2
                      ELSE IF WeakCompatible(h[i], h[j]) THEN 1 ELSE 0]]
=============================================================================
