---------------------------- MODULE MCFileFeatures ----------------------------
(* enumerates every valid (syntax, feature set) with at most MaxFeatures features, plus (Full) the
   maximal valid set of each syntax; larger random sets come from -simulate *)
EXTENDS FileFeatures, TLC, Json
CONSTANTS MaxFeatures, ExportMin,
          FormChoices,   \* input forms to assign per file (C09): subset of {"source","ast","parse","proto"}
          SampleAbove,   \* states with more form assignments than this export 16 random ones instead of all
          FormSample,    \* TRUE: export one random form assignment per state instead of all of them
          ModeChoices    \* source-info modes: subset of {"none","standard","extra"}
VARIABLES syntax, fs
vars == <<syntax, fs>>
MaxValid(s) == {f \in Features : SyntaxOK(s, f)}
Init == syntax \in Syntaxes /\ (fs = {} \/ fs = MaxValid(syntax))
Next == /\ Cardinality(fs) < MaxFeatures
        /\ \E f \in Features \ fs : fs' = fs \cup {f} \cup Needs(f)
        /\ \A g \in fs' : SyntaxOK(syntax, g)
        /\ UNCHANGED syntax
Spec == Init /\ [][Next]_vars
UsedFiles == {"main"} \cup (IF "import" \in fs THEN {"dep"} ELSE {}) \cup (IF "public" \in fs THEN {"mid", "deep"} ELSE {})
Case(fm, mo) == [syntax |-> syntax, features |-> fs, deps |-> Deps(fs), kinds |-> Kinds(syntax, fs),
                 forms |-> fm, simode |-> mo]
Export == (Valid(syntax, fs) /\ (Cardinality(fs) >= ExportMin)) =>
            IF FormSample \/ Cardinality([UsedFiles -> FormChoices]) > SampleAbove
              THEN \A i \in 1..(IF FormSample THEN 1 ELSE 16) :
                     PrintT("CASE " \o ToJson(Case(RandomElement([UsedFiles -> FormChoices]), RandomElement(ModeChoices))))
              ELSE \A fm \in [UsedFiles -> FormChoices] : \A mo \in ModeChoices : PrintT("CASE " \o ToJson(Case(fm, mo)))
=============================================================================
