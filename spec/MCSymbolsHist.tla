---------------------------- MODULE MCSymbolsHist ----------------------------
(* C17, direction A: every history of Imports (files of the generated universe, with repetition) up to
   MaxLen, exported with the table the PROPERTY demands after every step: a failed Import leaves the
   table as it was (modulo successfully imported dependencies, see Acceptable), importing the failed
   file again fails again.  The state is the reference table; with VIEW ViewTbl one history is
   exported per (reachable table, file) pair instead of per history.  *)
EXTENDS Symbols, SymbolsUniverse, Json

CONSTANTS MaxLen,        \* history length
          ExportFullLen, \* export every history up to this length ...
          ExportFailing, \* ... and longer ones whose last or last-but-one step fails (TRUE) / only complete ones (FALSE)
          ExportUniverse,
          Only           \* <<>>, or the one history to produce (replay of a saved case)

VARIABLES tbl, hist
vars == <<tbl, hist>>
ViewTbl == tbl
(* with the length: the number of exported cases does not depend on which worker reaches a table first *)
ViewLen == <<tbl, Len(hist)>>

Usable == {f \in FileIds : Compilable(f)}
NoOnly == <<>>

ProjSyms(T) == {[n |-> n, f |-> LookupRes(T, n)] : n \in DOMAIN T.syms}
ProjExts(T) == {[e |-> k[1], t |-> k[2], f |-> T.exts[k]] : k \in DOMAIN T.exts}
Proj(T) == [syms |-> ProjSyms(T), exts |-> ProjExts(T)]

(* the literal universe module is the universe this run is configured with *)
FDConsistent == /\ FileIds = AllIds
                /\ \A f \in FileIds : FDOf(f) = UFD0[f]
UsableCase == [kind |-> "usable", ids |-> Usable]

StepRec(T, f) ==
  LET r == RefImport(T, f)
  IN [f |-> f, ok |-> r.ok, tab |-> Proj(r.t),
      kinds |-> IF r.ok THEN {} ELSE
                  (IF RefImportSeq(T, FDOf(f).deps).ok THEN CollisionKinds(r.t, f) ELSE {"dependency"}),
      acc |-> IF r.ok THEN {} ELSE {Proj(a) : a \in Acceptable(T, f)},
      reok |-> IF r.ok THEN TRUE ELSE RefImport(r.t, f).ok]

Init == /\ FDConsistent
        /\ tbl = EmptyTable
        /\ hist = <<>>
        /\ (ExportUniverse => PrintT("CASE " \o ToJson(UsableCase)))

(* a history is worth replaying if it is short, or ends in a failure, or ends right after a failure
   (after a failed Import every other Import must behave as if it had not been attempted) *)
Exported(h) == \/ Len(h) <= ExportFullLen
               \/ ExportFailing /\ ~h[Len(h)].ok
               \/ ExportFailing /\ Len(h) >= 2 /\ ~h[Len(h) - 1].ok
               \/ ~ExportFailing /\ Len(h) = MaxLen

Next == /\ Len(hist) < MaxLen
        /\ \E f \in (IF Only = <<>> THEN Usable ELSE {Only[Len(hist) + 1]}) :
             LET r == RefImport(tbl, f)
                 h == Append(hist, StepRec(tbl, f))
             IN /\ tbl' = r.t
                /\ hist' = h
                /\ (Exported(h) => PrintT("CASE " \o ToJson([kind |-> "hist", steps |-> h])))
Spec == Init /\ [][Next]_vars

(* spec-level sanity of the oracle itself *)
RefFailedIsNoOp == \A f \in Usable :
    LET r == RefImport(tbl, f) IN ~r.ok => /\ r.t \in Acceptable(tbl, f)
                                           /\ ~RefImport(r.t, f).ok
                                           /\ f \notin r.t.files
                                           /\ SymNames(f) \cap DOMAIN r.t.syms \subseteq DOMAIN tbl.syms
RefFailsIffCollision == \A f \in Usable :
    (FDOf(f).deps = <<>> /\ f \notin tbl.files) => (RefImport(tbl, f).ok <=> ~Collides(tbl, f))
=============================================================================
