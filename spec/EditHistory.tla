---------------------------- MODULE EditHistory ----------------------------
(* A WORKSPACE STATE MACHINE for C35 ("after any sequence of file edits, additions and deletions,
   each followed by evicting the changed files' queries, recompiling with the long-lived executor
   gives the same descriptors and diagnostics as a brand-new executor on the final files").

   State: a small multi-file Protobuf workspace, abstractly.  File f (path f.proto) is
     present : whether the opener can open it (an absent file keeps its content: AddFile brings it back)
     pkg     : its package
     imports : ORDERED list of [f |-> target file, pub |-> public import?]; the target may be absent
               (import fails), may be f itself or close a longer cycle
     decls   : which of the pool declarations it has ("A","B" messages, "E" enum, "S" service);
               every file additionally declares its host message H<f>
     refs    : per slot a reference [pkg, name] spelled absolutely (.pkg.name) or NoRef;
               slots "f1","f2" are field types of the host message, slot "x" is the extendee of an
               extend block
     defect  : a local defect as in DiagWorkspace.tla: none | syntax | unknown | dup
     cmt     : a leading comment (changes the text and every source position, not the meaning)

   Actions are EDITS of one file (MoveDecl: two files).  Every step records, computed from the
   language rules and never from the Go code:
     changed  the paths whose content or existence changed (= what the caller must evict)
     files    the new abstract content of exactly those paths
     exists / request / reach, cyclic + tainted (import cycle among the files the request reaches),
     valid    "yes" | "no" | "unknown": whether the requested compile must succeed, when certain,
     bad      the files that must carry at least one error of their own.
   The differential relation itself (incremental = fresh) is the oracle of the property; this
   module supplies the histories, the changed-path sets and the classification.                 *)
EXTENDS Naturals, Sequences, FiniteSets, TLC

CONSTANTS
  Files,        \* file ids, e.g. {"a","b","c"}
  Pkgs,         \* package names
  DeclPool,     \* subset of {"A","B","E","S"}
  RefNames,     \* names a reference may use (pool names and host names "Ha", ...)
  Slots,        \* subset of {"f1","f2","x"}
  MaxImports,
  AllowSelf,    \* self-imports allowed
  Defects,      \* subset of {"syntax","unknown","dup"}
  MaxLen,       \* history length bound
  RunChoices,   \* subset of BOOLEAN: compile after the step? (FALSE: evictions accumulate)
  EditKinds,    \* enabled edit kinds
  Closing       \* BOOLEAN: complete histories take a final Finish step (used with -simulate)

VARIABLES ws, hist, req, origin, done
vars == <<ws, hist, req, origin, done>>

NoRef == [pkg |-> "", name |-> ""]
Host(f) == "H" \o f
RefPool == {[pkg |-> p, name |-> n] : p \in Pkgs, n \in RefNames}

DefaultFile == [present |-> FALSE, pkg |-> CHOOSE p \in Pkgs : TRUE, imports |-> <<>>, decls |-> {},
                refs |-> [s \in Slots |-> NoRef], defect |-> "none", cmt |-> FALSE]

-----------------------------------------------------------------------------
(* language rules *)

Present(w)    == {f \in Files : w[f].present}
ImpSet(w, f)  == {w[f].imports[i].f : i \in DOMAIN w[f].imports}
PubSet(w, f)  == {w[f].imports[i].f : i \in {j \in DOMAIN w[f].imports : w[f].imports[j].pub}}
(* edges exist only out of files that can be opened *)
Live(w, f)    == IF w[f].present THEN ImpSet(w, f) ELSE {}
LivePub(w, f) == IF w[f].present THEN PubSet(w, f) ELSE {}

RECURSIVE Grow(_, _, _)
Grow(w, frontier, seen) ==
  LET next == (UNION {Live(w, i) : i \in frontier}) \ seen
  IN IF next = {} THEN seen ELSE Grow(w, next, seen \cup next)
RECURSIVE GrowPub(_, _, _)
GrowPub(w, frontier, seen) ==
  LET next == (UNION {LivePub(w, i) : i \in frontier}) \ seen
  IN IF next = {} THEN seen ELSE GrowPub(w, next, seen \cup next)

ReachPlus(w, f)  == Grow(w, {f}, {})                 \* one or more import steps
ReachStar(w, S)  == S \cup Grow(w, S, {})
PubClosure(w, g) == {g} \cup GrowPub(w, {g}, {})

Request(w, mode) == CASE mode = "present" -> Present(w)
                      [] mode = "all"     -> Files
                      [] OTHER            -> {mode}

OnCycle(w)       == {f \in Present(w) : f \in ReachPlus(w, f)}
HasCycle(w, R)   == (OnCycle(w) \cap R) # {}
Tainted(w, R)    == {f \in R : (ReachStar(w, {f}) \cap OnCycle(w)) # {}}

(* what file f can name: itself, its direct imports, and what those re-export publicly *)
Visible(w, f)    == ({f} \cup UNION {PubClosure(w, g) : g \in Live(w, f)}) \cap Present(w)
Names(w, g)      == w[g].decls \cup {Host(g)}
Resolves(w, f, r) == \E g \in Visible(w, f) : w[g].pkg = r.pkg /\ r.name \in Names(w, g)
IsMessageName(n) == n \notin {"E", "S"}
KindOK(slot, r)  == IF slot = "x" THEN IsMessageName(r.name) ELSE r.name # "S"
RefBad(w, f, s)  == LET r == w[f].refs[s] IN r # NoRef /\ (~Resolves(w, f, r) \/ ~KindOK(s, r))
MissingImports(w, f) == {g \in ImpSet(w, f) : ~w[g].present}

(* the file carries an error of its own *)
LocalBad(w, f) ==
  \/ w[f].defect # "none"
  \/ MissingImports(w, f) # {}
  \/ \E s \in Slots : RefBad(w, f, s)

Collide(w, f, g) == f # g /\ w[f].pkg = w[g].pkg /\ (w[f].decls \cap w[g].decls) # {}

(* a duplicate full name that must be reported: both files requested, or one visible from the
   other, or both visible from a third *)
CertainDup(w, Rq, R) ==
  \/ \E f \in Rq \cap Present(w), g \in Rq \cap Present(w) : Collide(w, f, g)
  \/ \E f \in R \cap Present(w) : \E g \in Visible(w, f), h \in Visible(w, f) : Collide(w, g, h)
AnyDup(w, R) == \E f \in R \cap Present(w), g \in R \cap Present(w) : Collide(w, f, g)

Verdict(w, mode) ==
  LET Rq == Request(w, mode)
      R  == ReachStar(w, Rq)
  IN IF \/ (Rq \ Present(w)) # {}
        \/ HasCycle(w, R)
        \/ \E f \in R \cap Present(w) : LocalBad(w, f)
        \/ CertainDup(w, Rq, R)
     THEN "no"
     ELSE IF AnyDup(w, R) THEN "unknown" ELSE "yes"

-----------------------------------------------------------------------------
(* views exported to the driver *)

RefV(r)  == IF r = NoRef THEN "" ELSE "." \o r.pkg \o "." \o r.name
FileV(F) == [present |-> F.present, pkg |-> F.pkg, imports |-> F.imports, decls |-> F.decls,
             refs |-> [s \in Slots |-> RefV(F.refs[s])], defect |-> F.defect, cmt |-> F.cmt]
WsV(w)   == [f \in Files |-> FileV(w[f])]

StepRec(e, nw, ch, run) ==
  LET Rq == Request(nw, req)
      R  == ReachStar(nw, Rq)
  IN [edit     |-> e,
      changed  |-> ch,
      files    |-> [f \in ch |-> FileV(nw[f])],
      run      |-> run,
      exists   |-> Present(nw),
      request  |-> Rq,
      reach    |-> R,
      cyclic   |-> HasCycle(nw, R),
      tainted  |-> Tainted(nw, R),
      valid    |-> Verdict(nw, req),
      bad      |-> {f \in R \cap Present(nw) : LocalBad(nw, f)}]

(* the history variable keeps (edit, changed, run, workspace after the edit); the exported step
   adds what the language rules say about that workspace (computed once, at export) *)
StepV(h) == StepRec(h.edit, h.ws, h.changed, h.run)

-----------------------------------------------------------------------------
(* edits *)

Commit(e, nw, ch) ==
  /\ Len(hist) < MaxLen
  /\ \E run \in RunChoices :
       /\ ws' = nw
       /\ hist' = Append(hist, [edit |-> e, changed |-> ch, run |-> run, ws |-> nw])
  /\ UNCHANGED <<req, origin, done>>

(* closes a history of full length: the one successor of a complete history, so that -simulate
   (which evaluates invariants on every successor) exports each sampled history exactly once *)
Finish ==
  /\ Closing
  /\ Len(hist) = MaxLen
  /\ ~done
  /\ done' = TRUE
  /\ UNCHANGED <<ws, hist, req, origin>>

Set(f, field, val) == [ws EXCEPT ![f] = [@ EXCEPT ![field] = val]]
On(k) == k \in EditKinds

ChangeFieldType ==
  /\ On("ChangeFieldType")
  /\ \E f \in Present(ws), s \in Slots, r \in RefPool \cup {NoRef} :
       /\ ws[f].refs[s] # r
       /\ Commit([op |-> "ChangeFieldType", f |-> f, slot |-> s, ref |-> RefV(r)],
                 Set(f, "refs", [ws[f].refs EXCEPT ![s] = r]), {f})

AddImport ==
  /\ On("AddImport")
  /\ \E f \in Present(ws), g \in Files, pub \in BOOLEAN :
       /\ Len(ws[f].imports) < MaxImports
       /\ g \notin ImpSet(ws, f)
       /\ (AllowSelf \/ g # f)
       /\ Commit([op |-> "AddImport", f |-> f, g |-> g, pub |-> pub],
                 Set(f, "imports", Append(ws[f].imports, [f |-> g, pub |-> pub])), {f})

DropAt(s, i) == SubSeq(s, 1, i - 1) \o SubSeq(s, i + 1, Len(s))
DropImport ==
  /\ On("DropImport")
  /\ \E f \in Present(ws) : \E i \in DOMAIN ws[f].imports :
       Commit([op |-> "DropImport", f |-> f, g |-> ws[f].imports[i].f],
              Set(f, "imports", DropAt(ws[f].imports, i)), {f})

AddDecl ==
  /\ On("AddDecl")
  /\ \E f \in Present(ws) : \E n \in DeclPool \ ws[f].decls :
       Commit([op |-> "AddDecl", f |-> f, name |-> n], Set(f, "decls", ws[f].decls \cup {n}), {f})

RemoveDecl ==
  /\ On("RemoveDecl")
  /\ \E f \in Present(ws) : \E n \in ws[f].decls :
       Commit([op |-> "RemoveDecl", f |-> f, name |-> n], Set(f, "decls", ws[f].decls \ {n}), {f})

MoveDecl ==
  /\ On("MoveDecl")
  /\ \E f \in Present(ws), g \in Present(ws) : \E n \in ws[f].decls \ ws[g].decls :
       /\ f # g
       /\ Commit([op |-> "MoveDecl", f |-> f, g |-> g, name |-> n],
                 [ws EXCEPT ![f] = [@ EXCEPT !.decls = @ \ {n}], ![g] = [@ EXCEPT !.decls = @ \cup {n}]],
                 {f, g})

BreakFile ==
  /\ On("BreakFile")
  /\ \E f \in Present(ws), k \in Defects :
       /\ ws[f].defect = "none"
       /\ Commit([op |-> "BreakFile", f |-> f, defect |-> k], Set(f, "defect", k), {f})

RepairFile ==
  /\ On("RepairFile")
  /\ \E f \in Present(ws) :
       /\ ws[f].defect # "none"
       /\ Commit([op |-> "RepairFile", f |-> f, defect |-> ws[f].defect], Set(f, "defect", "none"), {f})

AddFile ==
  /\ On("AddFile")
  /\ \E f \in Files \ Present(ws) :
       Commit([op |-> "AddFile", f |-> f], Set(f, "present", TRUE), {f})

RemoveFile ==
  /\ On("RemoveFile")
  /\ \E f \in Present(ws) :
       Commit([op |-> "RemoveFile", f |-> f], Set(f, "present", FALSE), {f})

RenamePackage ==
  /\ On("RenamePackage")
  /\ \E f \in Present(ws) : \E p \in Pkgs \ {ws[f].pkg} :
       Commit([op |-> "RenamePackage", f |-> f, pkg |-> p], Set(f, "pkg", p), {f})

Comment ==
  /\ On("Comment")
  /\ \E f \in Present(ws) :
       Commit([op |-> "Comment", f |-> f, cmt |-> ~ws[f].cmt], Set(f, "cmt", ~ws[f].cmt), {f})

(* the file is rewritten with identical content; the caller still evicts it *)
TouchNoChange ==
  /\ On("TouchNoChange")
  /\ \E f \in Present(ws) : Commit([op |-> "TouchNoChange", f |-> f], ws, {f})

Next ==
  \/ ChangeFieldType \/ AddImport \/ DropImport \/ AddDecl \/ RemoveDecl \/ MoveDecl
  \/ BreakFile \/ RepairFile \/ AddFile \/ RemoveFile \/ RenamePackage \/ Comment \/ TouchNoChange
  \/ Finish

-----------------------------------------------------------------------------
(* sanity of the machine itself (checked by TLC as invariants) *)

TypeOK ==
  /\ \A f \in Files :
       /\ ws[f].present \in BOOLEAN /\ ws[f].pkg \in Pkgs /\ ws[f].decls \subseteq DeclPool
       /\ Len(ws[f].imports) <= MaxImports
       /\ Cardinality(ImpSet(ws, f)) = Len(ws[f].imports)
       /\ \A s \in Slots : ws[f].refs[s] \in RefPool \cup {NoRef}
       /\ ws[f].defect \in Defects \cup {"none"}
  /\ Len(hist) <= MaxLen

(* every step's changed set is exactly the set of files whose exported content differs, except
   for TouchNoChange, and the last step describes the current workspace *)
LastStepOK ==
  Len(hist) > 0 =>
    LET st == StepV(hist[Len(hist)]) IN
      /\ hist[Len(hist)].ws = ws
      /\ st.exists = Present(ws)
      /\ \A f \in st.changed : st.files[f] = FileV(ws[f])
      /\ st.valid = Verdict(ws, req)
      /\ (st.cyclic => st.valid = "no")
      /\ (st.tainted # {}) = st.cyclic
=============================================================================
