------------------------------- MODULE Trie -------------------------------
(* Contract of internal/trie.Trie (C41), from the property statement and the type's doc comment:
   a map from strings to values (a later Insert of the same key replaces the value) where
   "lookups return the key which is the longest prefix of a given query" (Get) and Prefixes lists
   all inserted keys that prefix the query "in order" (increasing length), with their values.

   A key / query is a sequence of letters.  A history h is a sequence of inserted keys; the
   value of the i-th insert is i (so 0 can stand for "no value"). *)
EXTENDS Naturals, Sequences, FiniteSets

IsPrefix(k, q) == Len(k) <= Len(q) /\ SubSeq(q, 1, Len(k)) = k

(* the map the history denotes: last value wins *)
Inserted(h, k) == \E i \in 1..Len(h) : h[i] = k
ValueOf(h, k)  == CHOOSE i \in 1..Len(h) : h[i] = k /\ \A j \in 1..Len(h) : h[j] = k => j <= i

(* lengths l such that the first l letters of q form an inserted key *)
PrefixLens(h, q) == {l \in 0..Len(q) : Inserted(h, SubSeq(q, 1, l))}

RECURSIVE AscFrom(_, _, _)
AscFrom(S, lo, hi) == IF lo > hi THEN <<>>
                      ELSE IF lo \in S THEN <<lo>> \o AscFrom(S, lo + 1, hi) ELSE AscFrom(S, lo + 1, hi)

(* Prefixes(q): <<length of the prefix, its value>>, shortest first *)
Prefixes(h, q) == LET ls == AscFrom(PrefixLens(h, q), 0, Len(q))
                  IN [k \in 1..Len(ls) |-> <<ls[k], ValueOf(h, SubSeq(q, 1, ls[k]))>>]

(* Get(q): the longest one; <<0, 0>> ("" and the zero value) when there is none *)
Get(h, q) == LET S == PrefixLens(h, q)
             IN IF S = {} THEN <<0, 0>>
                ELSE LET m == CHOOSE l \in S : \A x \in S : x <= l
                     IN <<m, ValueOf(h, SubSeq(q, 1, m))>>

(* consistency of the two operators (checked by TLC on the oracle) *)
GetIsLastPrefix(h, q) == LET P == Prefixes(h, q)
                         IN IF Len(P) = 0 THEN Get(h, q) = <<0, 0>> ELSE Get(h, q) = P[Len(P)]
=============================================================================
