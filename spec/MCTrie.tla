------------------------------- MODULE MCTrie -------------------------------
(* C41: every insertion history of up to MaxLen keys, keys = all words over KeyLetters up to
   MaxKeyLen (the empty key included).  After every insert the model answers Prefixes(q) and
   Get(q) for every query q: all words over KeyLetters up to MaxKeyLen+1 letters, and those words
   up to MaxKeyLen followed by the never-inserted letter "x".  Histories of length ExportLen are
   exported (each carries the answers after each of its inserts). *)
EXTENDS Trie, TLC, Json, SequencesExt
CONSTANTS KeyLetters, MaxKeyLen, MaxLen, ExportLen,
          Only        \* {} = explore everything; else a set of histories (sequences of keys) to replay
VARIABLES hist, obs
vars == <<hist, obs>>
View == hist          \* obs is a function of hist: keep it out of the fingerprint

RECURSIVE Words(_, _)
Words(L, n) == IF n = 0 THEN {<<>>}
               ELSE LET W == Words(L, n - 1) IN W \cup {Append(w, c) : w \in W, c \in L}

Keys == Words(KeyLetters, MaxKeyLen)
QuerySet == Words(KeyLetters, MaxKeyLen + 1) \cup {Append(w, "x") : w \in Keys}
(* a fixed order so that answers can be exported positionally *)
Queries == SetToSeq(QuerySet)

Observe(h) == [k \in 1..Len(Queries) |-> [p |-> Prefixes(h, Queries[k]), g |-> Get(h, Queries[k])]]

Allowed(h) == Only = {} \/ \E o \in Only : Len(h) <= Len(o) /\ SubSeq(o, 1, Len(h)) = h
Wanted     == IF Only = {} THEN Len(hist) = ExportLen ELSE hist \in Only

Init == hist = <<>> /\ obs = <<>>
Next == /\ Len(hist) < MaxLen
        /\ \E k \in Keys : /\ hist' = Append(hist, k)
                           /\ obs'  = Append(obs, Observe(Append(hist, k)))
        /\ Allowed(hist')
Spec == Init /\ [][Next]_vars

Case == [hist |-> hist, queries |-> Queries, steps |-> obs]

OracleSane == (Wanted /\ Len(hist) > 0) => \A q \in QuerySet : GetIsLastPrefix(hist, q)
Export == (Wanted /\ Len(hist) > 0) => PrintT("CASE " \o ToJson(Case))
=============================================================================
