----------------------------- MODULE SrcInfoTrace -----------------------------
(* Direction B for C23: validates recorded source-code-info of the real compiler.

   One trace per case (a FileFeatures workspace, or a Layout of a featgen skeleton):
       Begin(id, skel, syntax, features, measured shape, line widths, ncom)     skel = "" or a skeleton id
       Mode("std") Loc* Mode("ec") Loc* Mode("eol") Loc* Mode("both") Loc*      End
   std = SourceInfoStandard, ec = +ExtraComments, eol = +ExtraOptionLocations, both = all three.
   A Loc event is one SourceCodeInfo.Location of main.proto: path p, span s, and its comments, each
   given as <<lo, hi, h>>: the reported text is, after comment-marker stripping, the concatenation
   of the generator's comment items lo..hi (1-based, consecutive; the driver does the text matching
   and reports `bad` > 0 when a comment matches no run of consecutive items), h a hash of the exact
   text.  l / t = leading / trailing comment (<<>> when absent), d = leading detached comments.

   What the statement demands of every event (names of broken demands are collected, the validator
   never gets stuck, one REJECT line per broken case; POSTCONDITION: the whole file was consumed):
     (a) the path is Interpretable against descriptor.proto's schema and the SHAPE the specification
         computes for the case (SrcInfoShape!Shape; the measured shape must equal it: harness check)
     (b) the span has 3 or 4 elements, lies inside the line table, start no later than end
     (c) every comment is a run of consecutive generator comment items
     (d) ec:   same number of locations as std, k-th has the same path and span, and every comment
               std reports is reported unchanged (detached: std's list is a subsequence)
         eol:  std's locations all occur, in order and unchanged; every other location's path is
               inside an option value (UnderOptions)
         both: std's locations all occur in order with the same path and span and comments as in (ec);
               every other location's path is inside an option value                            *)
EXTENDS SrcInfoShape, SrcInfoPaths, TLC, Json

TraceLog == ndJsonDeserialize("srcinfo_trace.ndjson")

VARIABLES i,       \* index of the next event
          cur,     \* Begin event of the case being validated (plus the spec's shape / option schema)
          mode,    \* "" | "std" | "ec" | "eol" | "both"
          k,       \* number of Loc events seen in the current mode
          s0,      \* index of the Mode("std") event: the k-th std location is TraceLog[s0 + k]
          nstd,    \* number of std locations
          ptr,     \* eol / both: index of the next std location to be matched
          fails,   \* names of the demands this case broke so far
          first    \* the first event that broke one
vars == <<i, cur, mode, k, s0, nstd, ptr, fails, first>>
Std(j) == TraceLog[s0 + j]

Idle == [id |-> "", sh |-> Leaf, ex |-> {}, cu |-> {}, widths |-> <<>>, ncom |-> 0]
TInit == i = 1 /\ cur = Idle /\ mode = "" /\ k = 0 /\ s0 = 0 /\ nstd = 0 /\ ptr = 1 /\ fails = {} /\ first = <<>>

Ev == TraceLog[i]
ToSet(s) == {s[j] : j \in DOMAIN s}

Note(f) == /\ fails' = fails \cup f
           /\ first' = IF first = <<>> /\ f # {} THEN <<i, mode, Ev>> ELSE first

Verdict(f, fst) ==
  IF f = {} THEN TRUE
  ELSE PrintT("CASE " \o ToJson([reject |-> cur.id, why |-> f, first |-> fst]))

(* (c) *)
CommentOK(c) == c = <<>> \/ (Len(c) = 3 /\ ((c[1] = 0 /\ c[2] = 0) \/ (1 <= c[1] /\ c[1] <= c[2] /\ c[2] <= cur.ncom)))
CommentProblems(e) ==
  (IF e.bad > 0 THEN {"comment_not_from_source"} ELSE {})
  \cup (IF CommentOK(e.l) /\ CommentOK(e.t) /\ \A j \in DOMAIN e.d : CommentOK(e.d[j]) THEN {} ELSE {"comment_items_not_consecutive"})

(* (d) helpers *)
RECURSIVE IsSubseq(_, _)
IsSubseq(a, b) == IF a = <<>> THEN TRUE ELSE IF b = <<>> THEN FALSE
                  ELSE IF Head(a) = Head(b) THEN IsSubseq(Tail(a), Tail(b)) ELSE IsSubseq(a, Tail(b))
CommentsKept(s, e) == /\ (s.l # <<>> => e.l = s.l) /\ (s.t # <<>> => e.t = s.t) /\ IsSubseq(s.d, e.d)
SameLoc(s, e) == s.p = e.p /\ s.s = e.s /\ s.l = e.l /\ s.t = e.t /\ s.d = e.d
SamePlace(s, e) == s.p = e.p /\ s.s = e.s

ModeEndProblems ==
  CASE mode = "ec"   -> IF k < nstd THEN {"ec_lacks_standard_location"} ELSE {}
    [] mode = "eol"  -> IF ptr <= nstd THEN {"eol_lacks_standard_location"} ELSE {}
    [] mode = "both" -> IF ptr <= nstd THEN {"both_lacks_standard_location"} ELSE {}
    [] OTHER -> {}

TBegin ==
  /\ Ev.e = "Begin"
  /\ LET fset == ToSet(Ev.features)
         sh   == IF Ev.skel \in LocalSkels THEN LocalShape(Ev.skel) ELSE Shape(Ev.syntax, fset)
         f    == (IF Valid(Ev.syntax, fset) THEN {} ELSE {"harness_invalid_case"})
                 \cup (IF Ev.shape = sh THEN {} ELSE {"harness_shape_mismatch"})
     IN /\ (mode # "" => Verdict(fails \cup {"truncated_trace"}, first))
        /\ cur' = [id |-> Ev.id, sh |-> sh, ex |-> Exts(fset), cu |-> Custom(fset), widths |-> Ev.widths, ncom |-> Ev.ncom]
        /\ fails' = f /\ first' = IF f = {} THEN <<>> ELSE <<i, "", [e |-> "Begin", id |-> Ev.id]>>
  /\ mode' = "begun" /\ k' = 0 /\ s0' = 0 /\ nstd' = 0 /\ ptr' = 1

TMode ==
  /\ Ev.e = "Mode"
  /\ Note(ModeEndProblems \cup (IF Ev.m \in {"std", "ec", "eol", "both"} /\ (Ev.m = "std" <=> mode = "begun") THEN {} ELSE {"harness_mode_order"}))
  /\ mode' = Ev.m /\ k' = 0 /\ ptr' = 1
  /\ s0' = IF Ev.m = "std" THEN i ELSE s0
  /\ UNCHANGED <<cur, nstd>>

TLoc ==
  /\ Ev.e = "Loc"
  /\ LET e  == Ev
         a  == PathProblems(e.p, cur.sh, cur.ex, cur.cu)
         b  == SpanProblems(e.s, cur.widths)
         c  == CommentProblems(e)
         matches == ptr <= nstd /\ (IF mode = "eol" THEN SameLoc(Std(ptr), e)
                                        ELSE SamePlace(Std(ptr), e) /\ CommentsKept(Std(ptr), e))
         d  == CASE mode = "ec" ->
                      IF k + 1 > nstd THEN {"ec_extra_location"}
                      ELSE (IF Std(k + 1).p = e.p THEN {} ELSE {"ec_path_differs"})
                           \cup (IF Std(k + 1).s = e.s THEN {} ELSE {"ec_span_differs"})
                           \cup (IF CommentsKept(Std(k + 1), e) THEN {} ELSE {"ec_comment_lost_or_changed"})
                [] mode \in {"eol", "both"} ->
                      IF matches \/ UnderOptions(e.p, cur.ex, cur.cu) THEN {}
                      ELSE {mode \o "_adds_location_outside_options"}
                [] OTHER -> {}
     IN /\ Note(a \cup b \cup c \cup d)
        /\ ptr' = IF mode \in {"eol", "both"} /\ matches THEN ptr + 1 ELSE ptr
        /\ nstd' = IF mode = "std" THEN nstd + 1 ELSE nstd
  /\ k' = k + 1
  /\ UNCHANGED <<cur, mode, s0>>

(* the specification says the case is a valid workspace: it must compile, and nothing may panic *)
TFail ==
  /\ Ev.e \in {"Fail", "Panic"}
  /\ Note({IF Ev.e = "Fail" THEN "valid_case_does_not_compile" ELSE "panic"})
  /\ UNCHANGED <<cur, mode, k, s0, nstd, ptr>>

TEnd ==
  /\ Ev.e = "End"
  /\ LET f == ModeEndProblems \cup (IF mode = "both" \/ "valid_case_does_not_compile" \in fails \/ "panic" \in fails
                                      THEN {} ELSE {"harness_modes_missing"})
     IN Verdict(fails \cup f, IF first = <<>> /\ f # {} THEN <<i, mode, Ev>> ELSE first)
  /\ mode' = "" /\ fails' = {} /\ first' = <<>> /\ k' = 0 /\ ptr' = 1 /\ s0' = 0 /\ nstd' = 0
  /\ UNCHANGED cur

TNext == /\ i <= Len(TraceLog) /\ i' = i + 1
         /\ (TBegin \/ TMode \/ TLoc \/ TFail \/ TEnd)
TSpec == TInit /\ [][TNext]_vars

Consumed == /\ TLCGet("stats").diameter - 1 = Len(TraceLog)
            /\ Len(TraceLog) > 0
            /\ TraceLog[Len(TraceLog)].e = "End"
=============================================================================
