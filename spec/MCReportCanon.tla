---------------------------- MODULE MCReportCanon ----------------------------
(* C36 (ii): enumerate every multiset of at most MaxDiags diagnostics over a universe built so
   that ties occur on every prefix of the documented sort key AND on the complete key (then the
   diagnostics differ only in a field that is not a key: level, in-file, notes, help, debug, a
   secondary annotation).  For every list, every permutation of it is exported together with
   the expected result of Canonicalize (Report!Canon, both with and without KeepDuplicates);
   the driver builds each permuted list through the public constructors, canonicalizes, and
   checks order-independence, idempotence and conformance to the documented order.

   Universe: all diagnostics that differ from Base in at most Dist of the dimensions
     path x stage x start x end x tag x message x level x extra.                             *)
EXTENDS Report, Json

CONSTANTS MaxDiags, Dist, ExportMin, BaseTag

FA == [path |-> "a.proto", text |-> <<"a", "b", "c">>]
FB == [path |-> "b.proto", text |-> <<"a", "b">>]
Files == {FA, FB}
FileOf(p) == CHOOSE f \in Files : f.path = p

PathDim  == {"", "a.proto", "b.proto"}      \* "" = no annotation at all (no primary span)
StageDim == {0, 1}
StartDim == {0, 1}
EndDim   == {1, 2}
TagDim   == {"", "t", "u"}
MsgDim   == {"m", "n"}
LevelDim == {"error", "warning"}
ExtraDim == {"", "note", "help", "debug", "ann2", "infile"}

Vec == [path : PathDim, stage : StageDim, start : StartDim, end : EndDim, tag : TagDim,
        msg : MsgDim, level : LevelDim, extra : ExtraDim]
Base == [path |-> "a.proto", stage |-> 0, start |-> 0, end |-> 1, tag |-> BaseTag,
         msg |-> "m", level |-> "error", extra |-> ""]
Dims == {"path", "stage", "start", "end", "tag", "msg", "level", "extra"}
Distance(v) == Cardinality({k \in Dims : v[k] # Base[k]})

(* the diagnostic a vector stands for, built with the constructor operators *)
Build(v) ==
  LET d0 == NewDiag(v.level, v.msg, v.stage)
      d1 == IF v.tag = "" THEN d0 ELSE WithTag(d0, v.tag)
      d2 == IF v.extra = "infile" THEN WithInFile(d1, "z.proto") ELSE d1
      d3 == IF v.path = "" THEN d2 ELSE WithSnippet(d2, FileOf(v.path), v.start, v.end, "")
      d4 == IF v.extra = "ann2" /\ v.path # "" THEN WithSnippet(d3, FB, 0, 0, "am") ELSE d3
      d5 == IF v.extra = "note" THEN WithNote(d4, "x1") ELSE d4
      d6 == IF v.extra = "help" THEN WithHelp(d5, "x1") ELSE d5
      d7 == IF v.extra = "debug" THEN WithDebug(d6, "x1") ELSE d6
  IN d7

Universe == {Build(v) : v \in {w \in Vec : Distance(w) <= Dist}}

TieKeyInjective == \A a, b \in Universe : FullKey(a) = FullKey(b) => a = b
ASSUME TieKeyInjective

(* For speed the state holds INDICES into U, the universe sorted by Report!FullLess (evaluated
   once); comparing indices is comparing diagnostics, and the duplicate / tie relations are
   tables.  The ASSUMEs tie the tables to the Report operators.                               *)
RECURSIVE SetAsSeq(_)
SetAsSeq(S) == IF S = {} THEN <<>> ELSE LET x == CHOOSE y \in S : TRUE IN <<x>> \o SetAsSeq(S \ {x})
U == SortSeq(SetAsSeq(Universe), FullLess)
N == Len(U)
DupTab == [i \in 1..N |-> {j \in 1..N : SameDup(U[i], U[j])}]
TieTab == [i \in 1..N |-> {j \in 1..N : DocTie(U[i], U[j])}]
DocLessTab == [i \in 1..N |-> {j \in 1..N : DocLess(U[i], U[j])}]
ILess(i, j) == i < j
IDup(i, j)  == j \in DupTab[i]
ASSUME \A i, j \in 1..N : (i < j) <=> FullLess(U[i], U[j])
ASSUME \A i, j \in 1..N : DocLess(U[i], U[j]) => i < j          \* FullLess extends the documented order

Deref(L) == [i \in 1..Len(L) |-> U[L[i]]]
CanonI(L, keep) == CanonBy(L, ILess, IDup, keep)

VARIABLE idx
Init == idx = <<>>
(* Push in non-decreasing order only: one representative per multiset; the permutations are
   quantified over explicitly in the exported case.                                           *)
Push(i) == /\ Len(idx) < MaxDiags
           /\ IF idx = <<>> THEN TRUE ELSE idx[Len(idx)] <= i
           /\ idx' = Append(idx, i)
Next == \E i \in 1..N : Push(i)
Spec == Init /\ [][Next]_idx

(* spec-level C36 (ii) and conformance of Canon to the documentation *)
SpecCanon ==
  /\ OrderFreeBy(idx, ILess, IDup) /\ IdempotentBy(idx, ILess, IDup) /\ NoDupLeftBy(idx, ILess, IDup)
  /\ \A k \in BOOLEAN : LET C == CanonI(idx, k)
                         IN \A a, b \in 1..Len(C) : a < b => C[a] \notin DocLessTab[C[b]]

Case == [kind |-> "canon",
         files |-> Files,
         list |-> Deref(idx),
         perms |-> Perms(Len(idx)),
         tie |-> \E a, b \in 1..Len(idx) : a < b /\ idx[b] \in TieTab[idx[a]],
         splitdup |-> SplitDupBy(SortSeq(idx, ILess), IDup, LAMBDA i : U[i].tag # ""),
         expect_keep |-> Deref(CanonI(idx, TRUE)),
         expect_dedup |-> Deref(CanonI(idx, FALSE))]
Meta == [kind |-> "meta", keystrings |-> KeyStrings, levels |-> Levels]
Export ==
  /\ idx = <<>> => PrintT("CASE " \o ToJson(Meta))
  /\ Len(idx) >= ExportMin /\ Len(idx) > 0 => PrintT("CASE " \o ToJson(Case))
=============================================================================
