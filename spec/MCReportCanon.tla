---------------------------- MODULE MCReportCanon ----------------------------
(* C36 (ii): enumerate every multiset of at most MaxDiags diagnostics over a universe built so
   that ties occur on every prefix of the documented sort key AND on the complete key (then the
   diagnostics differ only in a field that is not a key: level, in-file, notes, help, debug, a
   secondary annotation).  For every list, every permutation of it is exported together with
   the expected result of Canonicalize (Report!Canon, both with and without KeepDuplicates);
   the driver builds each permuted list through the public constructors, canonicalizes, and
   checks order-independence, idempotence and conformance to the documented order.
   The universe of diagnostics is ReportUniverse!Universe.                                    *)
EXTENDS ReportUniverse, Json

CONSTANTS MaxDiags, ExportMin,
          CoreExtras    \* lists of three or more diagnostics are built from the "extra" variations in
                        \* this set only (ExtraDim itself = no restriction); pairs use all of ExtraDim

(* For speed the state holds INDICES into U, the universe sorted by Report!FullLess (evaluated
   once); comparing indices is comparing diagnostics, and the duplicate / tie relations are
   tables.  The ASSUMEs tie the tables to the Report operators.                               *)
RECURSIVE SetAsSeq(_)
SetAsSeq(S) == IF S = {} THEN <<>> ELSE LET x == CHOOSE y \in S : TRUE IN <<x>> \o SetAsSeq(S \ {x})
KU == SortSeq(SetAsSeq(Keyed), LAMBDA a, b : LexLess(a[1], b[1]))
N  == Len(KU)
U  == [i \in 1..N |-> KU[i][2]]
FK == [i \in 1..N |-> KU[i][1]]                  \* Report!FullKey, evaluated once per diagnostic
DK == [i \in 1..N |-> SubSeq(FK[i], 1, 6)]       \* Report!DocKey is its first six components
PR == [i \in 1..N |-> Primary(U[i])]
DupTab == [i \in 1..N |-> {j \in 1..N : U[i].tag # "" /\ U[i].tag = U[j].tag /\ PR[i] = PR[j]}]
TieTab == [i \in 1..N |-> {j \in 1..N : DK[i] = DK[j] /\ i # j}]
DocLessTab == [i \in 1..N |-> {j \in 1..N : LexLess(DK[i], DK[j])}]
ILess(i, j) == i < j
IDup(i, j)  == j \in DupTab[i]
ASSUME \A i \in 1..N : DK[i] = DocKey(U[i])
ASSUME \A i, j \in 1..N : (i < j) <=> LexLess(FK[i], FK[j])      \* index order = Report!FullLess
ASSUME \A i, j \in 1..N : j \in DocLessTab[i] => i < j           \* FullLess extends the documented order
(* the tables agree with the Report operators (spot check on neighbours in the sorted order) *)
ASSUME \A i \in 1..N : \A j \in {i, IF i < N THEN i + 1 ELSE 1} :
          /\ (j \in DupTab[i]) = SameDup(U[i], U[j])
          /\ (j \in TieTab[i]) = DocTie(U[i], U[j])
          /\ (j \in DocLessTab[i]) = DocLess(U[i], U[j])

CoreSet == {Build(v) : v \in {w \in Vec : Distance(w) <= Dist /\ w.extra \in CoreExtras}}
CoreTab == {i \in 1..N : U[i] \in CoreSet}

Deref(L) == [i \in 1..Len(L) |-> U[L[i]]]
CanonI(L, keep) == CanonBy(L, ILess, IDup, keep)

VARIABLE idx
Init == idx = <<>>
(* Push in non-decreasing order only: one representative per multiset; the permutations are
   quantified over explicitly in the exported case.                                           *)
Push(i) == /\ Len(idx) < MaxDiags
           /\ IF idx = <<>> THEN TRUE ELSE idx[Len(idx)] <= i
           /\ Len(idx) >= 2 => (i \in CoreTab /\ \A k \in 1..Len(idx) : idx[k] \in CoreTab)
           /\ idx' = Append(idx, i)
Next == \E i \in 1..N : Push(i)
Spec == Init /\ [][Next]_idx

(* spec-level C36 (ii) and conformance of Canon to the documentation *)
SpecCanon ==
  /\ OrderFreeBy(idx, ILess, IDup) /\ IdempotentBy(idx, ILess, IDup) /\ NoDupLeftBy(idx, ILess, IDup)
  /\ \A k \in BOOLEAN : LET C == CanonI(idx, k)
                         IN \A a, b \in 1..Len(C) : a < b => C[a] \notin DocLessTab[C[b]]

Case == [kind |-> "canon",
         files |-> Files,
         list |-> Deref(idx),
         perms |-> Perms(Len(idx)),
         tie |-> \E a, b \in 1..Len(idx) : a < b /\ idx[b] \in TieTab[idx[a]],
         splitdup |-> SplitDupBy(SortSeq(idx, ILess), IDup, LAMBDA i : U[i].tag # ""),
         expect_keep |-> Deref(CanonI(idx, TRUE)),
         expect_dedup |-> Deref(CanonI(idx, FALSE))]
Meta == [kind |-> "meta", keystrings |-> KeyStrings, levels |-> Levels]
Export ==
  /\ idx = <<>> => PrintT("CASE " \o ToJson(Meta))
  /\ Len(idx) >= ExportMin /\ Len(idx) > 0 => PrintT("CASE " \o ToJson(Case))
=============================================================================
