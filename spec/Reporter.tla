------------------------------- MODULE Reporter -------------------------------
(* reporter.Handler as used by the compiler: one root handler (mutex, abort latch `err`,
   `errsReported`) and one sub-handler per task.  Tasks report a sequence of items:
     "E" / "S" positional error (link / syntax; goes to the reporter), "W" warning, "N" non-positional error
     (aborts the task; never shown to the reporter).
   Actions follow reporter.go: a child's HandleError calls the parent's under the parent's
   mutex (check latch, call reporter, store), then updates its own state.  The reporter
   callback is split into enter / exit so that "never concurrently" is a real invariant of
   the lock discipline and not an artefact of atomic steps.
   TLC checks that this model implements ReporterContract (refinement).                  *)
EXTENDS Naturals, Sequences, FiniteSets

CONSTANTS Tasks, ItemSeqs, AbortAtMax

VARIABLES items,     \* per task: remaining items
          abortAt,
          lock,      \* "free" or the task holding the root mutex
          incb,      \* task currently inside a reporter callback, or "none"
          rootErr,   \* "none" | "rep" (error returned by the reporter) | "np" (non-positional)
          rootRep,   \* root errsReported
          chErr, chRep,  \* per task sub-handler state
          tpc,       \* per task: "idle" | "locked" | "incb_e" | "incb_w" | "ret" | "done"
          tret,      \* per task: value returned by the root for the current item
          tres,      \* per task result: "running" | "ok" | "rep" | "np" | "invalid"
          nerr, nwarn,
          mres       \* result of Compile: "running" | ...

vars == <<items, abortAt, lock, incb, rootErr, rootRep, chErr, chRep, tpc, tret, tres, nerr, nwarn, mres>>

Init ==
  /\ items \in [Tasks -> ItemSeqs]
  /\ abortAt \in 0..AbortAtMax
  /\ lock = "free" /\ incb = "none"
  /\ rootErr = "none" /\ rootRep = FALSE
  /\ chErr = [t \in Tasks |-> "none"] /\ chRep = [t \in Tasks |-> FALSE]
  /\ tpc = [t \in Tasks |-> "idle"]
  /\ tret = [t \in Tasks |-> "none"]
  /\ tres = [t \in Tasks |-> "running"]
  /\ nerr = 0 /\ nwarn = 0 /\ mres = "running"

Item(t) == Head(items[t])

(* h.mu.Lock() of the root handler *)
Lock(t) ==
  /\ tpc[t] = "idle" /\ tres[t] = "running" /\ items[t] # <<>> /\ Item(t) # "N" /\ lock = "free"
  /\ lock' = t /\ tpc' = [tpc EXCEPT ![t] = "locked"]
  /\ UNCHANGED <<items, abortAt, incb, rootErr, rootRep, chErr, chRep, tret, tres, nerr, nwarn, mres>>

(* under the lock: latch check, then either return the latched error, store a non-positional
   error, or enter the reporter *)
Dispatch(t) ==
  /\ tpc[t] = "locked"
  /\ CASE Item(t) = "W" ->
            /\ incb' = t /\ nwarn' = nwarn + 1 /\ tpc' = [tpc EXCEPT ![t] = "incb_w"]
            /\ UNCHANGED <<rootErr, rootRep, tret, lock, nerr>>
       [] Item(t) \in {"E", "S"} /\ rootErr # "none" ->
            /\ tret' = [tret EXCEPT ![t] = rootErr] /\ lock' = "free" /\ tpc' = [tpc EXCEPT ![t] = "ret"]
            /\ UNCHANGED <<incb, rootErr, rootRep, nerr, nwarn>>
       [] Item(t) \in {"E", "S"} /\ rootErr = "none" ->
            /\ rootRep' = TRUE /\ incb' = t /\ nerr' = nerr + 1 /\ tpc' = [tpc EXCEPT ![t] = "incb_e"]
            /\ UNCHANGED <<rootErr, tret, lock, nwarn>>
  /\ UNCHANGED <<items, abortAt, chErr, chRep, tres, mres>>

(* the reporter's Error() returns; h.err = err; unlock *)
ErrReturn(t) ==
  /\ tpc[t] = "incb_e" /\ incb = t
  /\ LET r == IF abortAt > 0 /\ nerr = abortAt THEN "rep" ELSE "none" IN
       /\ rootErr' = r /\ tret' = [tret EXCEPT ![t] = r]
  /\ incb' = "none" /\ lock' = "free" /\ tpc' = [tpc EXCEPT ![t] = "ret"]
  /\ UNCHANGED <<items, abortAt, rootRep, chErr, chRep, tres, nerr, nwarn, mres>>

WarnReturn(t) ==
  /\ tpc[t] = "incb_w" /\ incb = t
  /\ incb' = "none" /\ lock' = "free"
  /\ items' = [items EXCEPT ![t] = Tail(@)] /\ tpc' = [tpc EXCEPT ![t] = "idle"]
  /\ UNCHANGED <<abortAt, rootErr, rootRep, chErr, chRep, tret, tres, nerr, nwarn, mres>>

(* child state update, then the task either aborts with the returned error or goes on *)
ChildUpdate(t) ==
  /\ tpc[t] = "ret"
  /\ chRep' = [chRep EXCEPT ![t] = @ \/ Item(t) \in {"E", "S"}]
  /\ chErr' = [chErr EXCEPT ![t] = tret[t]]
  /\ items' = [items EXCEPT ![t] = Tail(@)]
  /\ tpc' = [tpc EXCEPT ![t] = "idle"]
  /\ tres' = [tres EXCEPT ![t] = IF tret[t] # "none" THEN tret[t] ELSE "running"]
  /\ UNCHANGED <<abortAt, lock, incb, rootErr, rootRep, tret, nerr, nwarn, mres>>

(* a failure that is not routed through the handler (the compiler fails the task's result
   directly: resolver errors, I/O errors, context errors).  NOTE (deviation kept out of the model on
   purpose): Handler.HandleError called with a non-positional error after an accepted positional one
   returns that error from Error() rather than ErrInvalidSource; Compile never does that.      *)
FailNP(t) ==
  /\ tpc[t] = "idle" /\ tres[t] = "running" /\ items[t] # <<>> /\ Item(t) = "N"
  /\ tres' = [tres EXCEPT ![t] = "np"] /\ tpc' = [tpc EXCEPT ![t] = "done"]
  /\ UNCHANGED <<items, abortAt, lock, incb, rootErr, rootRep, chErr, chRep, tret, nerr, nwarn, mres>>

(* end of the task: t.h.Error() *)
TaskEnd(t) ==
  /\ tpc[t] = "idle" /\ tres[t] = "running" /\ items[t] = <<>>
  /\ tres' = [tres EXCEPT ![t] = IF chRep[t] /\ chErr[t] = "none" THEN "invalid" ELSE IF chErr[t] # "none" THEN chErr[t] ELSE "ok"]
  /\ tpc' = [tpc EXCEPT ![t] = "done"]
  /\ UNCHANGED <<items, abortAt, lock, incb, rootErr, rootRep, chErr, chRep, tret, nerr, nwarn, mres>>

(* Compile: all tasks over; h.Error() if non-nil, else the first task error *)
Finish ==
  /\ mres = "running" /\ \A t \in Tasks : tres[t] # "running"
  /\ lock = "free"
  /\ mres' = IF rootRep /\ rootErr = "none" THEN "invalid"
             ELSE IF rootErr # "none" THEN rootErr
             ELSE IF \E t \in Tasks : tres[t] # "ok" THEN "np" ELSE "nil"
  /\ UNCHANGED <<items, abortAt, lock, incb, rootErr, rootRep, chErr, chRep, tpc, tret, tres, nerr, nwarn>>

Next == \/ \E t \in Tasks : Lock(t) \/ Dispatch(t) \/ ErrReturn(t) \/ WarnReturn(t) \/ ChildUpdate(t) \/ TaskEnd(t) \/ FailNP(t)
        \/ Finish
        \/ (mres # "running" /\ UNCHANGED vars)
Spec == Init /\ [][Next]_vars /\ WF_vars(Next)

-----------------------------------------------------------------------------
(* Refinement: the observable interface of this model is ReporterContract *)
Contract == INSTANCE ReporterContract WITH
              inflight <- IF incb = "none" THEN 0 ELSE 1,
              aborted  <- rootErr = "rep",
              result   <- CASE mres = "running" -> "running" [] mres = "rep" -> "abort"
                            [] mres = "np" -> "other" [] OTHER -> mres
ImplementsContract == Contract!CSpec

MutualExclusion == Cardinality({t \in Tasks : tpc[t] \in {"locked", "incb_e", "incb_w"}}) <= 1
Terminates == <>(mres # "running")
(* statement-level invariants on the implementation model *)
SuccessOnlyIfNothingReported == mres = "nil" => nerr = 0
AbortIdentity == (mres # "running" /\ rootErr = "rep") => mres = "rep"
InvalidWhenAccepted == (mres # "running" /\ nerr > 0 /\ rootErr # "rep") => mres \in {"invalid", "np"}
=============================================================================
