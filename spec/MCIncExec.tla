------------------------------ MODULE MCIncExec ------------------------------
(* Model-checking wrapper of IncExec: the engine (engines/incexec.py) generates a module that
   EXTENDS this one and defines the set of cases (graphs x batches x panicking sets x parallelism
   x histories).  Export prints every case with the oracle's expectations once, at its initial
   state, for replay on the real executor (harness/incexec). *)
EXTENDS IncExec, Json

Export == step = 0 => PrintT("CASE " \o ToJson([cfg |-> cfg, exp |-> exp, order |-> NodeOrd]))


(* cases only: do not explore beyond the initial states *)
OnlyInit == step = 0 /\ DOMAIN acts = {}
=============================================================================
