------------------------------ MODULE MCReportRT ------------------------------
(* C37: enumerate every report that can be built through the public constructors within a
   budget, export it together with its expected protobuf form (Report!Encode) and the expected
   result of the round trip (identity).  The Go driver (harness/reportdrv, mode rt) builds the
   report through the real constructors and checks (a) ToProto against the expected form,
   (b) AppendFromProto of the expected form against the report, (c) the full
   ToProto -> Marshal -> Unmarshal -> AppendFromProto chain.

   The state is a report under construction: finished diagnostics `diags` and the diagnostic
   being applied to (`cur`).  Every action adds exactly one element and costs one unit of
   `left`; phases keep the order of independent options canonical (tag, in-file, annotations
   with their edits and page breaks, notes, help, debug).                                      *)
EXTENDS Report, Json

CONSTANTS
  Files,        \* set of [path, text]; includes an empty file
  MaxDiags,     \* diagnostics per report
  Budget,       \* total number of optional elements in a report
  MaxAnns, MaxEdits, MaxTexts,
  LevelSet, MsgSet, StageSet, TagSet, InFileSet, AnnMsgSet, ReplaceSet, TextSet,
  ExportMin     \* export reports with at least this many diagnostics

(* file universes selectable from the .cfg (Files <- FilesAE etc.); one-byte classes:
   "a" letter, "N" LF, "x" a byte that is not valid UTF-8 on its own (0xFF)               *)
FilesAE  == {[path |-> "a.proto", text |-> <<"a", "N">>], [path |-> "e.proto", text |-> <<>>]}
FilesABE == {[path |-> "a.proto", text |-> <<"a", "N", "a">>], [path |-> "b.proto", text |-> <<"x">>],
             [path |-> "e.proto", text |-> <<>>]}

VARIABLES diags, cur, phase, left
vars == <<diags, cur, phase, left>>

None == [level |-> "none"]

Init == diags = <<>> /\ cur = None /\ phase = 0 /\ left = Budget

Begin ==
  /\ cur = None /\ Len(diags) < MaxDiags
  /\ \E lv \in LevelSet, m \in MsgSet, st \in StageSet : cur' = NewDiag(lv, m, st)
  /\ phase' = 0 /\ UNCHANGED <<diags, left>>

Step(d, ph) == cur' = d /\ phase' = ph /\ left' = left - 1 /\ UNCHANGED diags

SetTag    == cur # None /\ left > 0 /\ phase = 0 /\ \E t \in TagSet : Step(WithTag(cur, t), 1)
SetInFile == cur # None /\ left > 0 /\ phase <= 1 /\ \E p \in InFileSet : Step(WithInFile(cur, p), 2)
AddSnippet ==
  /\ cur # None /\ left > 0 /\ phase <= 3 /\ Len(cur.anns) < MaxAnns
  /\ \E f \in Files : \E s \in 0..Len(f.text) : \E e \in s..Len(f.text) : \E m \in AnnMsgSet :
        Step(WithSnippet(cur, f, s, e, m), 3)
AddEdit ==
  /\ cur # None /\ left > 0 /\ phase = 3
  /\ LET a == cur.anns[Len(cur.anns)]
     IN /\ Len(a.edits) < MaxEdits
        /\ \E s \in 0..(a.end - a.start) : \E e \in s..(a.end - a.start) : \E r \in ReplaceSet :
              Step(WithEdit(cur, [start |-> s, end |-> e, replace |-> r]), 3)
SetPageBreak ==
  /\ cur # None /\ left > 0 /\ phase = 3 /\ ~ cur.anns[Len(cur.anns)].pb
  /\ Step(WithPageBreak(cur), 3)
AddNote  == cur # None /\ left > 0 /\ phase <= 4 /\ Len(cur.notes) < MaxTexts /\ \E s \in TextSet : Step(WithNote(cur, s), 4)
AddHelp  == cur # None /\ left > 0 /\ phase <= 5 /\ Len(cur.help)  < MaxTexts /\ \E s \in TextSet : Step(WithHelp(cur, s), 5)
AddDebug == cur # None /\ left > 0 /\ phase <= 6 /\ Len(cur.debug) < MaxTexts /\ \E s \in TextSet : Step(WithDebug(cur, s), 6)

Push ==
  /\ cur # None
  /\ diags' = Append(diags, cur) /\ cur' = None /\ phase' = 0 /\ UNCHANGED left

Next == Begin \/ SetTag \/ SetInFile \/ AddSnippet \/ AddEdit \/ SetPageBreak
        \/ AddNote \/ AddHelp \/ AddDebug \/ Push
Spec == Init /\ [][Next]_vars

Complete == cur = None /\ Len(diags) >= ExportMin /\ Len(diags) > 0

(* spec-level C37 *)
SpecRoundTrip == Complete => RoundTripIsIdentity(diags, Files)

FilesUsed == {f \in Files : \E i \in 1..Len(diags) : \E j \in 1..Len(diags[i].anns) : diags[i].anns[j].path = f.path}
Case == [kind |-> "rt",
         files |-> FilesUsed,
         diags |-> diags,
         proto |-> Encode(diags, Files),
         expect |-> RoundTrip(diags, Files)]

Meta == [kind |-> "meta", keystrings |-> KeyStrings, levels |-> Levels]
Export ==
  /\ (diags = <<>> /\ cur = None) => PrintT("CASE " \o ToJson(Meta))
  /\ Complete => PrintT("CASE " \o ToJson(Case))
=============================================================================
