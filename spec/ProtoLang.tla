------------------------------ MODULE ProtoLang ------------------------------
(* Language-level specification of Protocol Buffers workspaces: files, packages, imports,
   declaration trees, references as spellings, and the rules that decide what a reference means.

   Written from the Protocol Buffers language definition and from protoc's published lookup
   algorithm (descriptor.cc: DescriptorBuilder::LookupSymbolNoPlaceholder / FindSymbol /
   RecordPublicDependencies / unused_dependency_), NOT from the Go code under test.

   A WORKSPACE ws is a sequence of FILES.  A file is a record
       [path, pkg, syntax, imports, decls, opts, builtin]
     pkg      sequence of name components (<<>> = no package statement)
     syntax   "proto2" | "proto3" | "editions"
     imports  sequence of [path, kind], kind \in {"plain", "public"}        (source order)
     decls    FLAT declaration table; decls[i].parent < i is the index of the enclosing declaration
              (0 = file level), so trees of any depth are represented without recursion
     opts     file-level custom-option uses, a sequence of [name |-> spelling]
     builtin  TRUE for google/protobuf/descriptor.proto (modelled, never rendered)
   A declaration is a record with the same fields for every kind (unused ones hold NoRef / 0 / <<>>)
       [kind, name, parent, type, extendee, input, output, num, opts]
     kind \in {"message","enum","value","oneof","field","ext","service","method"}
   A SPELLING is [abs, parts]: the dotted name `parts` with (abs) or without a leading dot.
   NoRef (no parts) in `type` means the scalar type int32.

   Every rule has an identifier (the strings "L-...", "V-...", "U-...", "W-...").  The feature
   vector of a case is the set of rule identifiers its evaluation went through. *)
EXTENDS Naturals, Sequences, FiniteSets, TLC

-----------------------------------------------------------------------------
(* generic helpers *)
Front(s) == SubSeq(s, 1, Len(s) - 1)
IsPrefix(p, s) == Len(p) <= Len(s) /\ SubSeq(s, 1, Len(p)) = p
RECURSIVE JoinDots(_)
JoinDots(s) == IF s = <<>> THEN ""
               ELSE IF Len(s) = 1 THEN s[1] ELSE s[1] \o "." \o JoinDots(Tail(s))
Range(s) == {s[i] : i \in 1..Len(s)}
RECURSIVE SetToSeq(_)
SetToSeq(S) == IF S = {} THEN <<>> ELSE LET x == CHOOSE y \in S : TRUE IN <<x>> \o SetToSeq(S \ {x})

-----------------------------------------------------------------------------
(* constructors *)
NoRef == [abs |-> FALSE, parts |-> <<>>]
Sp(abs, parts) == [abs |-> abs, parts |-> parts]
Rel(parts) == Sp(FALSE, parts)
Abs(parts) == Sp(TRUE, parts)
IsRef(sp) == sp.parts # <<>>
SpText(sp) == (IF sp.abs THEN "." ELSE "") \o JoinDots(sp.parts)

D0(kind, name, parent) ==
  [kind |-> kind, name |-> name, parent |-> parent, type |-> NoRef, extendee |-> NoRef,
   input |-> NoRef, output |-> NoRef, num |-> 0, opts |-> <<>>]
Msg(n, p)   == D0("message", n, p)
Enum(n, p)  == D0("enum", n, p)
Val(n, p)   == D0("value", n, p)
Oneof(n, p) == D0("oneof", n, p)
Svc(n)      == D0("service", n, 0)
Fld(n, p, num, type) == [D0("field", n, p) EXCEPT !.num = num, !.type = type]
Ext(n, p, num, extendee, type) ==
  [D0("ext", n, p) EXCEPT !.num = num, !.type = type, !.extendee = extendee]
Mtd(n, p, in, out) == [D0("method", n, p) EXCEPT !.input = in, !.output = out]
WithOpts(d, opts) == [d EXCEPT !.opts = opts]
OptUse(sp) == [name |-> sp]

Imp(path, kind) == [path |-> path, kind |-> kind]
FileRec(path, pkg, syntax, imports, decls) ==
  [path |-> path, pkg |-> pkg, syntax |-> syntax, imports |-> imports, decls |-> decls,
   opts |-> <<>>, builtin |-> FALSE]

(* The part of google/protobuf/descriptor.proto the model needs: the option messages, each
   extendable in 1000..max.  The real file defines many more symbols, all inside package
   google.protobuf; V-no-google keeps user names away from that package. *)
DescriptorPath == "google/protobuf/descriptor.proto"
OptionMsgOf == [file |-> "FileOptions", message |-> "MessageOptions", field |-> "FieldOptions",
                ext |-> "FieldOptions", oneof |-> "OneofOptions", enum |-> "EnumOptions",
                value |-> "EnumValueOptions", service |-> "ServiceOptions", method |-> "MethodOptions"]
DescriptorFile ==
  [path |-> DescriptorPath, pkg |-> <<"google", "protobuf">>, syntax |-> "proto2", imports |-> <<>>,
   decls |-> << Msg("FileOptions", 0), Msg("MessageOptions", 0), Msg("FieldOptions", 0),
                Msg("OneofOptions", 0), Msg("EnumOptions", 0), Msg("EnumValueOptions", 0),
                Msg("ServiceOptions", 0), Msg("MethodOptions", 0) >>,
   opts |-> <<>>, builtin |-> TRUE]
OptionsRef(kind) == Abs(<<"google", "protobuf", OptionMsgOf[kind]>>)

-----------------------------------------------------------------------------
(* names *)
Files(ws) == 1..Len(ws)
Decls(F) == 1..Len(F.decls)
FileIdx(ws, path) == CHOOSE i \in Files(ws) : ws[i].path = path

(* N-scope-enum-value: an enum value is a sibling of its enum (C++ scoping).
   N-scope-oneof: a oneof member field is a sibling of the oneof. *)
ScopeParent(F, d) ==
  LET p == F.decls[d].parent
  IN IF p # 0 /\ F.decls[p].kind \in {"enum", "oneof"} THEN F.decls[p].parent ELSE p
RECURSIVE FQN(_, _)
FQN(F, d) == IF d = 0 THEN F.pkg ELSE FQN(F, ScopeParent(F, d)) \o <<F.decls[d].name>>

IsAggregateKind(k) == k \in {"message", "enum", "service", "package"}
IsTypeKind(k) == k \in {"message", "enum"}

NullSym == [fqn |-> <<>>, kind |-> "null", file |-> 0, decl |-> 0]
PkgSym(n) == [fqn |-> n, kind |-> "package", file |-> 0, decl |-> 0]
DeclSyms(ws, g) ==
  {[fqn |-> FQN(ws[g], d), kind |-> ws[g].decls[d].kind, file |-> g, decl |-> d] : d \in Decls(ws[g])}
PkgPrefixes(pkg) == {SubSeq(pkg, 1, k) : k \in 1..Len(pkg)}
(* SymbolsOf: everything a file puts into the pool, packages included *)
SymbolsOf(ws, g) == DeclSyms(ws, g) \cup {PkgSym(n) : n \in PkgPrefixes(ws[g].pkg)}

-----------------------------------------------------------------------------
(* imports and visibility.
   I-visible: a file sees itself, its direct imports, and whatever those re-export through
   chains of public imports (protoc: RecordPublicDependencies). *)
ImportTargets(ws, g, kinds) ==
  {FileIdx(ws, ws[g].imports[k].path) : k \in {j \in 1..Len(ws[g].imports) : ws[g].imports[j].kind \in kinds}}
DirectImports(ws, g) == ImportTargets(ws, g, {"plain", "public"})
PublicImports(ws, g) == ImportTargets(ws, g, {"public"})
RECURSIVE PubClose(_, _)
PubClose(ws, S) ==
  LET T == S \cup UNION {PublicImports(ws, g) : g \in S} IN IF T = S THEN S ELSE PubClose(ws, T)
Provides(ws, i) == PubClose(ws, {i})               \* what importing file i makes visible
Visible(ws, f) == {f} \cup PubClose(ws, DirectImports(ws, f))
RECURSIVE Reach(_, _)
Reach(ws, S) ==
  LET T == S \cup UNION {DirectImports(ws, g) : g \in S} IN IF T = S THEN S ELSE Reach(ws, T)
Closure(ws, f) == Reach(ws, {f})                   \* transitive closure, f included

(* how the file that defines a found symbol is visible: feature tags only *)
VisTag(ws, f, g) == IF g = 0 THEN "I-package" ELSE IF g = f THEN "I-self"
                    ELSE IF g \in DirectImports(ws, f) THEN "I-direct" ELSE "I-public-reexport"

-----------------------------------------------------------------------------
(* symbol lookup: protoc's LookupSymbolNoPlaceholder.

   Env: what FindSymbol can return for file f (L-visibility-filter: a symbol of the pool that is
   defined in a file f does not see is treated as absent; a package is known when a visible file
   lives in it or below it). *)
Env(ws, f) ==
  [syms   |-> UNION {DeclSyms(ws, g) : g \in Visible(ws, f)},
   pkgs   |-> UNION {PkgPrefixes(ws[g].pkg) : g \in Visible(ws, f)},
   hidden |-> {s.fqn : s \in UNION {DeclSyms(ws, g) : g \in Files(ws) \ Visible(ws, f)}},
   pkglen |-> Len(ws[f].pkg)]
(* (record fields are evaluated once when the record is built; the operators below only scan) *)
Find(env, n) ==
  LET m == {s \in env.syms : s.fqn = n}
  IN IF m # {} THEN CHOOSE s \in m : TRUE
     ELSE IF n \in env.pkgs THEN PkgSym(n) ELSE NullSym

ScopeTag(env, scope) == IF Len(scope) > env.pkglen THEN "decl" ELSE "pkg"
LRes(st, sym, at, guess, rules) == [st |-> st, sym |-> sym, at |-> at, guess |-> guess, rules |-> rules]

(* scope: the scope to try next (already chopped); parts: the relative name; mode "types"|"all";
   guess: innermost non-type that was skipped (diagnostic only). *)
RECURSIVE LookupFrom(_, _, _, _, _, _)
LookupFrom(env, scope, parts, mode, guess, rules) ==
  IF scope = <<>> THEN
    (* L-root: outermost scope: the whole name is looked up as it is, no first-component step *)
    LET s == Find(env, parts)
        hid == IF parts \in env.hidden THEN {"L-hidden"} ELSE {}
    IN IF s.kind = "null" THEN LRes("notfound", NullSym, <<>>, guess, rules \cup {"L-root-miss"} \cup hid)
       ELSE LRes("found", s, s.fqn, guess, rules \cup {"L-root-hit"})
  ELSE
    LET n1 == scope \o <<parts[1]>>
        s1 == Find(env, n1)
        tag == ScopeTag(env, scope)
    IN IF s1.kind = "null" THEN
         LookupFrom(env, Front(scope), parts, mode, guess,
                    rules \cup (IF n1 \in env.hidden THEN {"L-hidden"} ELSE {}))
       ELSE IF Len(parts) > 1 THEN
         IF IsAggregateKind(s1.kind) THEN
           (* L-agg-stop: first component names an aggregate here: the rest is looked up inside
              it and nowhere else *)
           LET s == Find(env, scope \o parts)
               hid == IF (scope \o parts) \in env.hidden THEN {"L-hidden"} ELSE {}
           IN IF s.kind = "null"
                THEN LRes("stuck", NullSym, scope \o parts, guess,
                          rules \cup {"L-agg-stop-miss:" \o tag \o ":" \o s1.kind} \cup hid)
                ELSE LRes("found", s, s.fqn, guess, rules \cup {"L-agg-stop-hit:" \o tag \o ":" \o s1.kind})
         ELSE
           (* L-nonagg-continue: first component is not an aggregate: keep searching outward *)
           LookupFrom(env, Front(scope), parts, mode, guess, rules \cup {"L-nonagg-continue:" \o s1.kind})
       ELSE IF mode = "types" /\ ~IsTypeKind(s1.kind) THEN
         (* L-nontype-skip: only for an unqualified name, only when a type is wanted *)
         LookupFrom(env, Front(scope), parts, mode, IF guess.kind = "null" THEN s1 ELSE guess,
                    rules \cup {"L-nontype-skip:" \o s1.kind})
       ELSE LRes("found", s1, s1.fqn, guess, rules \cup {"L-first-hit:" \o tag})

(* relTo: full name (sequence) of the element the reference is attached to *)
Lookup(env, relTo, sp, mode) ==
  IF sp.abs THEN
    LET s == Find(env, sp.parts)
        hid == IF sp.parts \in env.hidden THEN {"L-hidden"} ELSE {}
    IN IF s.kind = "null" THEN LRes("notfound", NullSym, <<>>, NullSym, {"L-abs-miss"} \cup hid)
       ELSE LRes("found", s, s.fqn, NullSym, {"L-abs-hit"})
  ELSE LookupFrom(env, Front(relTo), sp.parts, mode, NullSym, {})

-----------------------------------------------------------------------------
(* reference sites.  A site is <<d, slot>>, d = 0 for the file itself;
   slot \in {"type","extendee","input","output"} \cup {"opt1","opt2",...}. *)
OptSlot(k) == "opt" \o (CASE k = 1 -> "1" [] k = 2 -> "2" [] k = 3 -> "3" [] OTHER -> "4")
SlotsOf(dl) ==
  (IF dl.kind \in {"field", "ext"} /\ IsRef(dl.type) THEN {"type"} ELSE {}) \cup
  (IF dl.kind = "ext" THEN {"extendee"} ELSE {}) \cup
  (IF dl.kind = "method" THEN {"input", "output"} ELSE {}) \cup
  {OptSlot(k) : k \in 1..Len(dl.opts)}
Sites(F) == {<<0, OptSlot(k)>> : k \in 1..Len(F.opts)} \cup
            UNION {{<<d, s>> : s \in SlotsOf(F.decls[d])} : d \in Decls(F)}
IsOptSlot(slot) == slot \notin {"type", "extendee", "input", "output"}
OptIndex(slot) == CHOOSE k \in 1..4 : OptSlot(k) = slot
SlotSpelling(F, d, slot) ==
  IF d = 0 THEN F.opts[OptIndex(slot)].name
  ELSE CASE slot = "type" -> F.decls[d].type [] slot = "extendee" -> F.decls[d].extendee
         [] slot = "input" -> F.decls[d].input [] slot = "output" -> F.decls[d].output
         [] OTHER -> F.decls[d].opts[OptIndex(slot)].name

(* S-relative-to: the scope a reference is resolved from is the full name of the element that
   carries it, minus its last component: a field / extension / method resolves in its parent; an
   option name on a message, enum or service resolves in the scope ENCLOSING that element (its own
   body is not searched); a file-level option resolves in the package. *)
RelTo(F, d) == IF d = 0 THEN F.pkg \o <<"dummy">> ELSE FQN(F, d)
ModeOf(slot) == IF slot = "type" THEN "types" ELSE "all"
KindOK(slot, k) == CASE slot = "type" -> k \in {"message", "enum"}
                     [] slot \in {"extendee", "input", "output"} -> k = "message"
                     [] OTHER -> k = "ext"

(* outcome of a reference spelled sp at site <<d, slot>> of file f.
     ok         resolves, fqn/kind name the element
     notfound   no visible symbol (guess: innermost non-type skipped on the way, if any)
     stuck      first component bound to an aggregate that lacks the rest; fqn = the name that was
                looked up and is not defined
     wrongkind  resolves to a symbol the site cannot use (a package, a field, an enum as extendee ...) *)
Outcome(ws, env, f, d, slot, sp) ==
  LET r == Lookup(env, RelTo(ws[f], d), sp, ModeOf(slot))
      base == [outcome |-> "", fqn |-> JoinDots(r.at), kind |-> r.sym.kind, deffile |-> r.sym.file,
               defdecl |-> r.sym.decl,
               guess |-> JoinDots(r.guess.fqn), guesskind |-> r.guess.kind,
               rules |-> r.rules \cup {"S-" \o (IF IsOptSlot(slot) THEN "optname" ELSE slot)}
                         \cup {IF sp.abs THEN "S-abs" ELSE IF Len(sp.parts) > 1 THEN "S-compound" ELSE "S-simple"}]
  IN CASE r.st = "notfound" -> [base EXCEPT !.outcome = "notfound"]
       [] r.st = "stuck" -> [base EXCEPT !.outcome = "stuck"]
       [] OTHER -> IF KindOK(slot, r.sym.kind)
                     THEN [base EXCEPT !.outcome = "ok", !.rules = @ \cup {VisTag(ws, f, r.sym.file)}]
                     ELSE [base EXCEPT !.outcome = "wrongkind", !.rules = @ \cup {"K-" \o r.sym.kind}]

SiteOutcome(ws, f, d, slot) == Outcome(ws, Env(ws, f), f, d, slot, SlotSpelling(ws[f], d, slot))

(* Descriptor projection: every reference site of file f with its expected resolution *)
RefsOf(ws, f) ==
  LET env == Env(ws, f)
  IN {[decl |-> s[1], slot |-> s[2], sp |-> SlotSpelling(ws[f], s[1], s[2]),
       exp |-> Outcome(ws, env, f, s[1], s[2], SlotSpelling(ws[f], s[1], s[2]))] : s \in Sites(ws[f])}
RefsResolve(ws, f) == \A r \in RefsOf(ws, f) : r.exp.outcome = "ok"

(* replace one slot's spelling (used by checks that probe one site with many spellings) *)
SetSlot(F, d, slot, sp) ==
  IF d = 0 THEN [F EXCEPT !.opts[OptIndex(slot)].name = sp]
  ELSE CASE slot = "type" -> [F EXCEPT !.decls[d].type = sp]
         [] slot = "extendee" -> [F EXCEPT !.decls[d].extendee = sp]
         [] slot = "input" -> [F EXCEPT !.decls[d].input = sp]
         [] slot = "output" -> [F EXCEPT !.decls[d].output = sp]
         [] OTHER -> [F EXCEPT !.decls[d].opts[OptIndex(slot)].name = sp]

-----------------------------------------------------------------------------
(* validity rules (each is one conjunct; Valid is what the generators must establish for a case
   to be exported as "compiles") *)

(* V-tree: the declaration table is a tree with the right nesting *)
TreeOK(F) ==
  \A d \in Decls(F) :
    LET dl == F.decls[d]  p == dl.parent
        pk == IF p = 0 THEN "file" ELSE F.decls[p].kind
    IN /\ p < d
       /\ CASE dl.kind \in {"message", "enum", "ext"} -> pk \in {"file", "message"}
            [] dl.kind = "service" -> pk = "file"
            [] dl.kind = "value" -> pk = "enum"
            [] dl.kind = "oneof" -> pk = "message"
            [] dl.kind = "field" -> pk \in {"message", "oneof"}
            [] dl.kind = "method" -> pk = "service"
            [] OTHER -> FALSE
(* V-nonempty: an enum has a value, a oneof has a member *)
NonEmptyOK(F) ==
  \A d \in Decls(F) : F.decls[d].kind \in {"enum", "oneof"} =>
      \E c \in Decls(F) : F.decls[c].parent = d
(* V-field-numbers: distinct positive numbers among the fields of one message *)
MsgOf(F, d) == ScopeParent(F, d)
FieldNumsOK(F) ==
  LET flds == {d \in Decls(F) : F.decls[d].kind = "field"}
  IN /\ \A d \in flds : F.decls[d].num \in 1..999
     /\ \A d1, d2 \in flds : (d1 # d2 /\ MsgOf(F, d1) = MsgOf(F, d2)) => F.decls[d1].num # F.decls[d2].num
(* every message of a non-proto3 user file is rendered with `extensions 1000 to 1999;` *)
ExtRange == 1000..1999

(* V-imports: targets exist, no self import, no duplicate, no cycle *)
ImportsOK(ws) ==
  /\ \A g, h \in Files(ws) : g # h => ws[g].path # ws[h].path
  /\ \A g \in Files(ws) :
       /\ \A k \in 1..Len(ws[g].imports) :
            /\ \E h \in Files(ws) : ws[h].path = ws[g].imports[k].path
            /\ ws[g].imports[k].path # ws[g].path
       /\ \A j, k \in 1..Len(ws[g].imports) : j # k => ws[g].imports[j].path # ws[g].imports[k].path
Acyclic(ws) == \A g \in Files(ws) : g \notin Reach(ws, DirectImports(ws, g))

(* V-unique-symbols: the pool holds every file of the compilation; a full name may be defined
   once, and a declaration may not be named like a package of any file in the pool *)
AllDeclSyms(ws) == UNION {DeclSyms(ws, g) : g \in Files(ws)}
AllPkgs(ws) == UNION {PkgPrefixes(ws[g].pkg) : g \in Files(ws)}
UniqueSymbols(ws) ==
  LET all == AllDeclSyms(ws)
      names == {s.fqn : s \in all}
  IN /\ Cardinality(names) = Cardinality(all)        \* no full name defined twice
     /\ names \cap AllPkgs(ws) = {}
(* V-no-google: user files stay out of the google namespace *)
NoGoogle(ws) == \A g \in Files(ws) :
  ~ws[g].builtin => /\ (IF ws[g].pkg = <<>> THEN TRUE ELSE ws[g].pkg[1] # "google")
                    /\ \A d \in Decls(ws[g]) : ws[g].decls[d].name # "google"

(* V-ext: extension numbers lie in the extendee's range and are unique per extendee in the pool;
   V-opt-extendee: a custom option used on an element extends that element kind's options message *)
ResolvedExtendee(ws, g, d) == SiteOutcome(ws, g, d, "extendee")
ExtDecls(F) == {d \in Decls(F) : F.decls[d].kind = "ext"}
(* <<resolved extendee, number, file, decl>> of every extension of the pool (one Env per file) *)
ExtPairs(ws) ==
  UNION {LET env == Env(ws, g)
         IN {<<Outcome(ws, env, g, d, "extendee", ws[g].decls[d].extendee).fqn, ws[g].decls[d].num, g, d>>
               : d \in ExtDecls(ws[g])} : g \in Files(ws)}
ExtsOKX(xp) ==
  /\ \A p \in xp : p[2] \in ExtRange
  /\ Cardinality({<<p[1], p[2]>> : p \in xp}) = Cardinality(xp)
ExtsOK(ws) == ExtsOKX(ExtPairs(ws))
(* all references of the workspace as <<file, ref>> pairs *)
AllRefs(ws) == UNION {{<<g, r>> : r \in RefsOf(ws, g)} : g \in Files(ws)}
OptExtendeeOKX(ws, xp, refs) ==
  \A fr \in refs :
    LET f == fr[1]  r == fr[2]
    IN (IsOptSlot(r.slot) /\ r.exp.outcome = "ok") =>
         LET ekind == IF r.decl = 0 THEN "file" ELSE ws[f].decls[r.decl].kind
         IN \E p \in xp : /\ p[3] = r.exp.deffile /\ p[4] = r.exp.defdecl
                          /\ p[1] = "google.protobuf." \o OptionMsgOf[ekind]
OptExtendeeOK(ws) == OptExtendeeOKX(ws, ExtPairs(ws), AllRefs(ws))

FileOK(F) == TreeOK(F) /\ NonEmptyOK(F) /\ FieldNumsOK(F)
(* everything except "all references resolve" *)
WellFormed(ws) ==
  /\ ImportsOK(ws) /\ Acyclic(ws) /\ UniqueSymbols(ws) /\ NoGoogle(ws)
  /\ \A g \in Files(ws) : FileOK(ws[g])
(* xp = ExtPairs(ws), passed in by callers that need it anyway *)
ValidX(ws, xp) ==
  LET refs == AllRefs(ws)
  IN /\ WellFormed(ws)
     /\ \A fr \in refs : fr[2].exp.outcome = "ok"
     /\ OptExtendeeOKX(ws, xp, refs)
     /\ ExtsOKX(xp)
Valid(ws) == ValidX(ws, ExtPairs(ws))

-----------------------------------------------------------------------------
(* unused imports (protoc: unused_dependency_ / LogUnusedDependency, and the removal criterion).
   Needed(f): files that define an element some reference of f resolves to.
   U-public-never: a public import is never reported.
   U-must-warn: a non-public import through which no needed file is visible is unused.
   U-must-keep: an import that is the ONLY direct import making some needed file visible is used.
   U-either: an import whose needed files are all also visible through another direct import may or
             may not be reported (removing it alone still compiles). *)
Needed(ws, f) == {r.exp.deffile : r \in {x \in RefsOf(ws, f) : x.exp.outcome = "ok"}} \ {f, 0}
(* U-options-keep-descriptor (protoc: OptionInterpreter looks the options message up through
   FindSymbolNotEnforcingDeps, which marks its file used): a file that carries any option never gets
   its import of descriptor.proto reported, although removing that import changes nothing. *)
HasOptions(F) == F.opts # <<>> \/ \E d \in Decls(F) : F.decls[d].opts # <<>>
DescriptorFiles(ws) == {g \in Files(ws) : ws[g].path = DescriptorPath}
ImportVerdictN(ws, f, k, needed) ==
  LET i == FileIdx(ws, ws[f].imports[k].path)
      others == {FileIdx(ws, ws[f].imports[j].path) : j \in (1..Len(ws[f].imports)) \ {k}}
      mine == Provides(ws, i) \cap needed
      alsoElsewhere == {g \in mine : \E j \in others : g \in Provides(ws, j)}
  IN IF ws[f].imports[k].kind = "public" THEN "U-public-never"
     ELSE IF mine = {} THEN
       (IF HasOptions(ws[f]) /\ Provides(ws, i) \cap DescriptorFiles(ws) # {}
          THEN "U-options-keep-descriptor" ELSE "U-must-warn")
     ELSE IF mine # alsoElsewhere THEN "U-must-keep"
     ELSE "U-either"
ImportVerdict(ws, f, k) == ImportVerdictN(ws, f, k, Needed(ws, f))
UnusedImports(ws, f) ==
  {ws[f].imports[k].path : k \in {j \in 1..Len(ws[f].imports) : ImportVerdict(ws, f, j) = "U-must-warn"}}

-----------------------------------------------------------------------------
(* export helpers: the JSON "workspace case" schema (see harness/_common/README.md).
   A spelling is exported as its text (".a.b", "a.b"); default-valued fields are omitted. *)
OptV(opts) == [j \in 1..Len(opts) |-> SpText(opts[j].name)]
DeclV(d) ==
  [kind |-> d.kind, name |-> d.name, parent |-> d.parent]
  @@ (IF IsRef(d.type) THEN [type |-> SpText(d.type)] ELSE <<>>)
  @@ (IF IsRef(d.extendee) THEN [extendee |-> SpText(d.extendee)] ELSE <<>>)
  @@ (IF IsRef(d.input) THEN [input |-> SpText(d.input)] ELSE <<>>)
  @@ (IF IsRef(d.output) THEN [output |-> SpText(d.output)] ELSE <<>>)
  @@ (IF d.num # 0 THEN [num |-> d.num] ELSE <<>>)
  @@ (IF d.opts # <<>> THEN [opts |-> OptV(d.opts)] ELSE <<>>)
FileV(F) ==
  [path |-> F.path, pkg |-> F.pkg, syntax |-> F.syntax, imports |-> F.imports,
   decls |-> [d \in Decls(F) |-> DeclV(F.decls[d])]]
  @@ (IF F.opts # <<>> THEN [opts |-> OptV(F.opts)] ELSE <<>>)
  @@ (IF F.builtin THEN [builtin |-> TRUE] ELSE <<>>)
WsV(ws) == [g \in Files(ws) |-> FileV(ws[g])]
ExpV(e) == [outcome |-> e.outcome, rules |-> e.rules]
           @@ (IF e.fqn # "" THEN [fqn |-> e.fqn, kind |-> e.kind] ELSE <<>>)
           @@ (IF e.deffile # 0 THEN [deffile |-> e.deffile, defdecl |-> e.defdecl] ELSE <<>>)
           @@ (IF e.guess # "" THEN [guess |-> e.guess, guesskind |-> e.guesskind] ELSE <<>>)
RefV(r) == [decl |-> r.decl, slot |-> r.slot, sp |-> SpText(r.sp), exp |-> ExpV(r.exp)]
RefsV(ws, g) == {RefV(r) : r \in RefsOf(ws, g)}
SymView(s) == [fqn |-> JoinDots(s.fqn), kind |-> s.kind, file |-> s.file, decl |-> s.decl]
DeclFQNs(ws, g) == [d \in Decls(ws[g]) |-> JoinDots(FQN(ws[g], d))]
=============================================================================
