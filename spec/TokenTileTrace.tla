----------------------------- MODULE TokenTileTrace -----------------------------
(* Direction B for C29: validates a file of recorded token-stream traces (many traces, each
   introduced by its Begin event, which acts as TraceReset) against TokenTile.tla.

   For every event the corresponding TokenTile action is taken when it is enabled.  When it is not,
   the trace is NOT a behaviour of TokenTile: the validator records which of the action's named
   checks failed, applies the action's effect anyway (so that the rest of this trace and all later
   traces are still examined) and, at the trace's End, prints one REJECT line.  The run's
   postcondition is that every event of the file was consumed. *)
EXTENDS TokenTile, TLC, Json

Trace == ndJsonDeserialize("tokentile_trace.ndjson")

VARIABLES i,      \* index of the next event
          cur,    \* Begin event of the trace being validated
          fails,  \* names of the checks this trace broke so far
          at,     \* index of the first event that broke a check (0 = none)
          ice     \* the lexer's report of this trace contains an ICE diagnostic (for classification)
vars == <<i, cur, fails, at, ice, tvars>>

TInit == Init /\ i = 1 /\ cur = [id |-> 0] /\ fails = {} /\ at = 0 /\ ice = FALSE

Ev == Trace[i]

Note(f) == /\ fails' = fails \cup f
           /\ at' = IF at = 0 /\ f # {} THEN i ELSE at

Verdict(f) ==
  IF f = {} THEN TRUE
  ELSE PrintT("CASE " \o ToJson([reject |-> cur.id, cfg |-> cur.cfg, why |-> f, at |-> at, ntok |-> n,
                                 len |-> len, pos |-> pos, nerr |-> nerr, ice |-> ice, utf8 |-> cur.utf8, nulp |-> cur.nulp]))

TBegin ==
  /\ Ev.e = "Begin"
  /\ LET f == IF phase \in {"idle", "done"} THEN {} ELSE {"truncated_trace"}
     IN /\ (f # {} => Verdict(fails \cup f))
        /\ Failed(BeginChecks(Ev.len, Ev.bytes, Ev.hasbytes)) \subseteq {"begin_when_idle"}
        /\ len' = Ev.len /\ bytes' = Ev.bytes /\ hasbytes' = Ev.hasbytes /\ phase' = "report"
        /\ errs' = {} /\ nerr' = 0 /\ pos' = 0 /\ n' = 0 /\ stack' = << >> /\ strrun' = 0
  /\ cur' = Ev /\ fails' = {} /\ at' = 0 /\ ice' = FALSE

TDiag ==
  /\ Ev.e = "Diag"
  /\ Note(Failed(DiagChecks(Ev.lvl, Ev.spans)))
  /\ DiagEffect(Ev.lvl, Ev.spans)
  /\ ice' = (ice \/ Ev.lvl = ICE)
  /\ UNCHANGED cur

TEmit ==
  /\ Ev.e = "Emit"
  /\ LET tx == IF hasbytes THEN Ev.text ELSE << >>
     IN /\ Note(Failed(EmitChecks(Ev.id, Ev.s, Ev.t, Ev.k, Ev.role, Ev.mate, Ev.br, Ev.fk, Ev.txt, tx)))
        /\ EmitEffect(Ev.id, Ev.s, Ev.t, Ev.k, Ev.role, Ev.mate, Ev.br, Ev.fk, Ev.txt, tx)
  /\ UNCHANGED <<cur, ice>>

TEnd ==
  /\ Ev.e = "End"
  /\ LET f == Failed(EndChecks(Ev.n, Ev.cat, Ev.walk))
     IN /\ Verdict(fails \cup f)
        /\ Note(f)                       \* kept until the next Begin
  /\ EndEffect(Ev.n, Ev.cat, Ev.walk)
  /\ UNCHANGED <<cur, ice>>

(* a panic escaping the lexer is no action of TokenTile *)
TPanic ==
  /\ Ev.e = "Panic"
  /\ Verdict(fails \cup {"panic"})
  /\ Note({"panic"}) /\ phase' = "done"
  /\ UNCHANGED <<cur, ice, len, bytes, hasbytes, errs, nerr, pos, n, stack, strrun>>

TNext == /\ i <= Len(Trace) /\ i' = i + 1
         /\ (TBegin \/ TDiag \/ TEmit \/ TEnd \/ TPanic)
TSpec == TInit /\ [][TNext]_vars

(* along accepted prefixes the design invariants of TokenTile hold *)
TraceInv == fails = {} => (TypeOK /\ NoOverrun /\ Tiled /\ WellNested)

Consumed == /\ TLCGet("stats").diameter - 1 = Len(Trace)
            /\ Len(Trace) > 0
=============================================================================
