------------------------------- MODULE Escape -------------------------------
(* C26: the text form of a bytes default value.

   Escape(b) is the documented contract of FieldDescriptorProto.default_value for bytes fields:
   protoc writes CEscape(bytes) (absl::CEscape: "\n \r \t \" \' \\ are written as two-character
   escapes, other printable ASCII 0x20..0x7E stands for itself, every other byte is written as a
   backslash and exactly three octal digits").  Written from that contract, not from
   internal/util.go.

   Unescape(t) reads such a text back with the C / .proto escape grammar of Literals.tla (simple
   escapes, greedy 1-3 digit octal, \x + 1-2 hex digits, \u, \U); on the image of Escape every
   C-style unescaper (protoc's UnescapeCEscapeString, the Go runtime, linker.unescape) must agree
   with it.  Texts are sequences of byte values; a byte >= 128 in a text is a raw byte.

   RoundTrip is the property at specification level; TLC checks it for every enumerated b. *)
EXTENDS Literals

EscByte(c) ==
  CASE c = 10 -> <<BS, 110>>
    [] c = 13 -> <<BS, 114>>
    [] c = 9  -> <<BS, 116>>
    [] c = 34 -> <<BS, 34>>
    [] c = 39 -> <<BS, 39>>
    [] c = 92 -> <<BS, 92>>
    [] c >= 32 /\ c < 127 -> <<c>>
    [] OTHER -> <<BS, 48 + (c \div 64), 48 + ((c \div 8) % 8), 48 + (c % 8)>>

RECURSIVE Escape(_)
Escape(b) == IF b = <<>> THEN <<>> ELSE EscByte(Head(b)) \o Escape(Tail(b))

(* a text byte as a source character of Literals.tla *)
AsChar(c) == IF c >= 128 THEN RawBase + c ELSE c
Failed == <<256>>          (* not a byte string *)
Unescape(t) ==
  IF t = <<>> THEN <<>>
  ELSE LET r == Decode([i \in 1..Len(t) |-> AsChar(t[i])], DQ)
       IN IF r.st = "ok" /\ "concat" \notin r.rules THEN r.bytes ELSE Failed

RoundTrip(b) == Unescape(Escape(b)) = b

(* the text is printable ASCII only (default_value is a proto `string`, it must be valid UTF-8
   and survive every text tool), and no escape is ambiguous with what follows it: because Escape
   works byte by byte, RoundTrip(b1 \o b2) is exactly "reading Escape(b1) \o Escape(b2) gives
   b1 \o b2" - the reason octal escapes must have three digits: <<0, 55>> must not become "\07" *)
Printable(b) == LET t == Escape(b) IN \A i \in 1..Len(t) : t[i] \in 32..126
=============================================================================
