---------------------------- MODULE MCPrintLayout ----------------------------
(* Enumerates layouts of PrintLayout.tla: the default layout of every selected skeleton, then placements added one
   at a time (BFS: all single placements, all pairs within Dist gaps of each other, ...), or - Sim = TRUE, run with
   tlc -simulate - one random admissible placement per step (many-gap layouts).  Each exported layout carries its
   feature vector; the default-layout state of a skeleton also exports the skeleton itself with its gap classes,
   the trivia table and the text of the default layout (Items) so that the driver holds no layout knowledge. *)
EXTENDS PrintLayout, TLC, Json
CONSTANTS SkelSel,     \* skeleton names to use
          MaxPlace,    \* placements per layout
          ExportMin,   \* export layouts with at least this many placements
          Dist,        \* later placements lie within Dist gaps of an earlier one (0: anywhere)
          FirstKinds,  \* trivia kinds offered to the first placement
          MoreKinds,   \* trivia kinds offered to later placements
          Sim,         \* TRUE: one random successor per step
          WithItems    \* TRUE: every exported layout carries Items (the text, for cross-checking the driver's renderer)
VARIABLES sk, pl, sc   \* skeleton, placements, scope of every gap of sk (constant along a behaviour)
vars == <<sk, pl, sc>>

ASSUME \A s \in SkelNames : Balanced(s) /\ IsLayout(s, {})
ASSUME SkelSel \subseteq SkelNames

Init == sk \in SkelSel /\ pl = {} /\ sc = ScopeSeq(sk)

ClassV(g) == (IF g = 0 THEN "file" ELSE sc[g]) \o ":" \o TokName(sk, g) \o "|" \o TokName(sk, g + 1)
FeaturesV == {ClassV(p[1]) \o "=" \o p[2] : p \in pl}

Offered == IF pl = {} THEN FirstKinds ELSE MoreKinds
Free(g) == \A p \in pl : p[1] # g
Near(g) == Dist = 0 \/ pl = {} \/ \E p \in pl : (IF p[1] > g THEN p[1] - g ELSE g - p[1]) <= Dist
Choices == {c \in Gaps(sk) \X Offered : Free(c[1]) /\ Near(c[1]) /\ Admissible(sk, c[1], c[2])}

Next == /\ Cardinality(pl) < MaxPlace
        /\ IF Sim
             THEN LET free == {g \in Gaps(sk) : Free(g) /\ Near(g)}
                  IN /\ free # {}
                     /\ \E g \in {RandomElement(free)} :
                          LET ks == {k \in Offered : Admissible(sk, g, k)}
                          IN ks # {} /\ \E k \in {RandomElement(ks)} : pl' = pl \cup {<<g, k>>}
             ELSE \E c \in Choices : pl' = pl \cup {c}
        /\ UNCHANGED <<sk, sc>>
Spec == Init /\ [][Next]_vars

N == NTok(sk)
SkelRec == [t |-> "skel", skel |-> sk,
            toks |-> [i \in 1..N |-> TokText(sk, i)],
            defaults |-> [i \in 1..(N + 1) |-> DefaultKind(sk, i - 1)],      \* index g+1
            classes |-> [i \in 1..(N + 1) |-> ClassV(i - 1)],                \* index g+1
            items |-> Items(sk, {}),
            kinds |-> SkelKinds[sk], deps |-> SkelDeps[sk],
            trivia |-> TriviaText, aux |-> AuxFiles]
LayRec == IF WithItems
            THEN [t |-> "lay", skel |-> sk, pl |-> pl, feat |-> FeaturesV, items |-> Items(sk, pl)]
            ELSE [t |-> "lay", skel |-> sk, pl |-> pl, feat |-> FeaturesV]
Export == /\ pl = {} => PrintT("CASE " \o ToJson(SkelRec))
          /\ (Cardinality(pl) >= ExportMin /\ IsLayout(sk, pl)) => PrintT("CASE " \o ToJson(LayRec))
(* the state variable sc really is PrintLayout!ScopeSeq, so ClassV(g) = Class(sk, g) *)
ScopeOK == sc = ScopeSeq(sk) => \A p \in pl : ClassV(p[1]) = Class(sk, p[1])
=============================================================================
