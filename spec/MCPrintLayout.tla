---------------------------- MODULE MCPrintLayout ----------------------------
(* Enumerates layouts of PrintLayout.tla: the default layout of every selected skeleton, then placements added one
   at a time (BFS: all single placements, all pairs within Dist gaps of each other, ...), or - Sim = TRUE, run with
   tlc -simulate - one random admissible placement per step (many-gap layouts).  Each exported layout carries its
   feature vector; the default-layout state of a skeleton also exports the skeleton itself with its gap classes,
   the trivia table and the text of the default layout (Items) so that the driver holds no layout knowledge. *)
EXTENDS PrintLayout, TLC, Json
CONSTANTS SkelSel,     \* skeleton names to use
          MaxPlace,    \* placements per layout
          ExportMin,   \* export layouts with at least this many placements
          Dist,        \* later placements lie within Dist gaps of an earlier one (0: anywhere)
          FirstKinds,  \* trivia kinds offered to the first placement
          MoreKinds,   \* trivia kinds offered to later placements
          Sim,         \* TRUE: one random successor per step
          WithItems,   \* TRUE: every exported layout carries Items (the text, for cross-checking the driver's renderer)
          WithSkel,    \* TRUE: the default-layout state of a skeleton exports the skeleton record
          LightSkels,  \* skeletons whose point is their default layout (declaration order): only LightKinds are placed
          LightKinds
VARIABLES sk, pl, tk, sc   \* skeleton name, placements; its token sequence and the scope of every gap (both constant
                       \* along a behaviour, kept in the state so that TLC computes them once per skeleton)
vars == <<sk, pl, tk, sc>>

ASSUME \A s \in SkelNames : Balanced(Skel[s]) /\ IsLayout(Skel[s], {})
ASSUME SkelSel \subseteq SkelNames

Init == sk \in SkelSel /\ pl = {} /\ tk = Skel[sk] /\ sc = ScopeSeq(tk)

ClassV(g) == (IF g = 0 THEN "file" ELSE sc[g]) \o ":" \o TokName(tk, g) \o "|" \o TokName(tk, g + 1)
ScV(g) == IF g = 0 THEN "file" ELSE sc[g]
ZoneV(g) == ZoneOf(tk, g, ScV(g), IF g > 0 THEN ScV(g - 1) ELSE "file")
FeatureV(p) == KindCat(p[2]) \o "@" \o ZoneV(p[1]) \o "(" \o ClassV(p[1]) \o ")=" \o p[2]
FeaturesV == {FeatureV(p) : p \in pl}

Offered == IF sk \in LightSkels THEN LightKinds ELSE IF pl = {} THEN FirstKinds ELSE MoreKinds
Free(g) == \A p \in pl : p[1] # g
Near(g) == Dist = 0 \/ pl = {} \/ \E p \in pl : (IF p[1] > g THEN p[1] - g ELSE g - p[1]) <= Dist
Choices == {c \in Gaps(tk) \X Offered : Free(c[1]) /\ Near(c[1]) /\ Admissible(tk, c[1], c[2])}

Next == /\ Cardinality(pl) < MaxPlace
        /\ IF Sim
             THEN LET free == {g \in Gaps(tk) : Free(g) /\ Near(g)}
                  IN /\ free # {}
                     /\ \E g \in {RandomElement(free)} :
                          LET ks == {k \in Offered : Admissible(tk, g, k)}
                          IN ks # {} /\ \E k \in {RandomElement(ks)} : pl' = pl \cup {<<g, k>>}
             ELSE \E c \in Choices : pl' = pl \cup {c}
        /\ UNCHANGED <<sk, tk, sc>>
Spec == Init /\ [][Next]_vars

N == NTok(tk)
SkelRec == [t |-> "skel", skel |-> sk,
            toks |-> [i \in 1..N |-> TokText(tk, i)],
            defaults |-> [i \in 1..(N + 1) |-> DefaultKind(tk, i - 1)],      \* index g+1
            classes |-> [i \in 1..(N + 1) |-> ClassV(i - 1)],                \* index g+1
            zones |-> [i \in 1..(N + 1) |-> ZoneV(i - 1)],                  \* index g+1
            cats |-> [k \in Kinds |-> KindCat(k)],
            commentkinds |-> {k \in Kinds : HasComment(k)},
            items |-> Items(tk, {}),
            kinds |-> SkelKinds[sk], deps |-> SkelDeps[sk],
            trivia |-> TriviaText, aux |-> AuxFiles]
LayRec == IF WithItems
            THEN [t |-> "lay", skel |-> sk, pl |-> pl, feat |-> FeaturesV, items |-> Items(tk, pl)]
            ELSE [t |-> "lay", skel |-> sk, pl |-> pl, feat |-> FeaturesV]
Export == /\ (pl = {} /\ WithSkel) => PrintT("CASE " \o ToJson(SkelRec))
          /\ (Cardinality(pl) >= ExportMin /\ IsLayout(tk, pl)) => PrintT("CASE " \o ToJson(LayRec))
(* the state variables tk / sc really are the skeleton and PrintLayout!ScopeSeq of it, so ClassV = Class and ZoneV = Zone
   (spot-checked at both ends and in the middle of every skeleton; the full recomputation per state is what tk / sc avoid) *)
ScopeOK == (pl = {} /\ WithSkel) =>
             /\ tk = Skel[sk] /\ sc = ScopeSeq(tk)
             /\ \A g \in {0, 1, N \div 2, N - 1, N} \cap Gaps(tk) : ClassV(g) = Class(tk, g) /\ ZoneV(g) = Zone(tk, g)
=============================================================================
